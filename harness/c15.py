"""C15 — query answers do not depend on how the query is written, prepared or stored.  DESIGN §6 C15.

Metamorphic check on the real rdflib SPARQL engine plus correspondence with the Lean model.

Case (JSON):
  {"stream": "rewrite" | "init" | "prepared" | "store" | "bgp" | "frag" | "sel" | "nsctx" | "td",
   "data":  [[s,p,o,g] …]           term keys (see TERMS); g = 0 default graph, 1..3 named graphs
   "data2": [[s,p,o,g] …]           second data set (prepared stream)
   "ds":    bool                    evaluate over a Dataset (needed for GRAPH)
   "q":     select AST              (see `gen_select`)
   "rw":    [[kind, seed] …]        rewrite recipes (rewrite stream)
   "init":  ["?v", term]            initBindings experiment (init stream; optional in bgp/frag/prepared)
   "split": [k …]                   member index per data triple for the aggregate (store stream),
                                    a list [i, j] puts the triple into two members (overlapping split)
   "seed":  int}

viol  = two evaluations that the property says must agree differ as multisets of rows
        (sequences when ORDER BY covers every projected column).
obs   = (bgp / frag streams) the bag of solutions as rows of term numbers, compared with the Lean model:
        `RV.C15.evalBGP` in the written order, in a permuted order and through the model of
        reorderTriples + the dynamic sort of evalPart, on each store model; `RV.C15.evalQS` (the prepared
        tree with its mutable `ctx` fields) for fragment queries, run repeatedly on data / data2;
        (td stream) `RV.C15.evalSelectTD` — the TOP-DOWN evaluator (evalPart with pushed bindings: lazy / non-lazy
        joins, OPTIONAL with its re-check, MINUS, FILTER, BIND, GRAPH, VALUES, `_vars`, forget / remember / thaw)
        — on the algebra this module derives from the AST by its own copy of translateGroupGraphPattern + simplify,
        with and without initBindings, over a Graph or a Dataset with named graphs; for the `tails` shape
        (B0, then OPTIONAL / UNION elements) both the initBindings form and the VALUES form.
"""
import random
import re
import warnings

import core  # noqa: F401
from rdflib import BNode, ConjunctiveGraph, Dataset, Graph, Literal, URIRef, Variable
from rdflib.graph import ReadOnlyGraphAggregate
from rdflib.namespace import XSD
from rdflib.plugins.sparql import prepareQuery
from rdflib.plugins.stores.auditable import AuditableStore
from rdflib.plugins.stores.memory import Memory, SimpleMemory

warnings.filterwarnings("ignore")

ID = "C15"
LEAN_TARGETS = ["RV.C15.Props", "RV.C15.Audit"]
AUDIT = "RV/C15/Audit.lean"
DRIVER = "drv_c15"
CASES = {"quick": 1100, "thorough": 30000, "search": 6000}
RULE = ("random SELECT queries (BGPs of 1-4 patterns over <=4 variables, joins of groups, UNION, OPTIONAL, FILTER, "
        "MINUS, BIND, VALUES, sub-SELECT, GRAPH, property paths, DISTINCT / ORDER BY / GROUP BY+COUNT) over 5-15 "
        "triples in 0-3 named graphs; each case poses the query in two or more ways the property calls equivalent "
        "(rewrites, initBindings vs VALUES, prepared vs fresh, store back ends incl. aggregates whose members live in "
        "different stores and share a graph name, the same undeclared-prefix text under different prefix bindings "
        "in sequence); td stream: OPTIONAL / MINUS / FILTER / BIND / VALUES / GRAPH / UNION / nested-group queries evaluated "
        "by the Lean top-down evaluator, with and without initBindings, over a Graph or a Dataset; non-trivial = the reference "
        "evaluation has at least one solution and at least one comparison was made; distinct = distinct "
        "(stream, data, query, recipe)")
ASSUMPTIONS = [
    "pyparsing turns the query text into the parse tree the translator expects (queries enter the Lean model as ASTs)",
    "property-path predicates are covered by the metamorphic streams only (the Lean BGP model has plain predicates)",
    "td stream: the algebra tree handed to the Lean top-down evaluator is built by this module's own transcription of "
    "translateGroupGraphPattern / simplify (_td_alg); `_vars`, `lazy` and the triple order are computed by the model",
    "C01: each in-memory store holds the set of triples added to it",
]
TRUSTED = ["harness/c15.py generators, rewriters and canonicalisation", "lean/RV/C15/Drive.lean line protocol"]

NS = "http://e.org/ns/"
NS2 = "http://e.org/ns2/"
OTHER = "http://other.org/"
XS = "http://www.w3.org/2001/XMLSchema#"
IRI_KEYS = ["a", "b", "c", "d", "p", "q", "r", "g1", "g2", "g3"]
LITS = {"L0": Literal(""), "L1": Literal(0), "L2": Literal(False), "L3": Literal("x", lang="en"),
        "L4": Literal(1), "L5": Literal(2)}
LIT_TEXT = {"L0": ['""', "''"], "L1": ["0", '"0"^^XSD:integer'], "L2": ["false", '"false"^^XSD:boolean'],
            "L3": ['"x"@en', "'x'@en"], "L4": ["1", '"1"^^XSD:integer'], "L5": ["2", '"2"^^XSD:integer']}
BN = {"_n": BNode("n")}
TERMS = {**{k: URIRef(NS + k) for k in IRI_KEYS}, **LITS, **BN}
TERM_NUM = {k: i + 1 for i, k in enumerate(TERMS)}      # numbers used on the Lean side
N3_NUM = {v.n3(): TERM_NUM[k] for k, v in TERMS.items()}
GRAPH_IRI = {1: "g1", 2: "g2", 3: "g3"}
VARS = ["?x", "?y", "?z", "?w"]


def is_var(t):
    return isinstance(t, str) and len(t) > 1 and t.startswith("?")


# ---------------------------------------------------------------------------------------------
# generator
# ---------------------------------------------------------------------------------------------

def gen_data(rng, ds, dense=True):
    subs = ["a", "b", "c"] + (["d"] if rng.random() < 0.3 else []) + (["_n"] if rng.random() < 0.25 else [])
    preds = ["p", "q"] + (["r"] if rng.random() < 0.3 else [])
    lits = rng.sample(list(LITS), rng.choice([0, 0, 1, 1, 2]))
    objs = subs + subs + lits
    n = rng.randint(7, 15)
    graphs = [0] + ([1, 2, 3][: rng.randint(1, 3)] if ds else [])
    seen, out = set(), []
    for _ in range(n):
        t = (rng.choice(subs), rng.choice(preds), rng.choice(objs), rng.choice(graphs))
        if t not in seen:
            seen.add(t)
            out.append(list(t))
    return out


def data_terms(data):
    subs = sorted({t[0] for t in data}) or ["a"]
    preds = sorted({t[1] for t in data}) or ["p"]
    objs = sorted({t[2] for t in data}) or ["a"]
    return subs, preds, objs


class Gen:
    def __init__(self, rng, data, ds, allow=None, nvars=None):
        self.rng, self.ds = rng, ds
        self.subs, self.preds, self.objs = data_terms(data)
        self.subs = [t for t in self.subs if t != "_n"] or ["a"]      # no blank node labels in queries
        self.objs = [t for t in self.objs if t != "_n"] or ["a"]
        self.vars = VARS[: nvars or rng.choice([3, 4])]
        self.fresh = 0
        self.allow = allow  # None = everything

    def ok(self, k):
        return self.allow is None or k in self.allow

    def var(self):
        return self.rng.choice(self.vars)

    def pred(self, paths=True):
        r = self.rng
        if paths and self.ok("path") and r.random() < 0.12:
            a, b = r.choice(self.preds), r.choice(self.preds)
            k = r.choice(["/", "|", "^", "*", "+", "?"])
            return [k, a, b] if k in "/|" else [k, a]
        if r.random() < 0.12:
            return self.var()
        return r.choice(self.preds)

    def tp(self, paths=True):
        r = self.rng
        s = self.var() if r.random() < 0.85 else r.choice(self.subs)
        p = self.pred(paths)
        o = self.var() if r.random() < 0.8 else r.choice(self.objs)
        if o == s and is_var(s) and r.random() < 0.8:
            o = r.choice([v for v in self.vars if v != s])
        return [s, p, o]

    def bgp(self, lo=1, hi=3, paths=True):
        return {"k": "bgp", "ts": [self.tp(paths) for _ in range(self.rng.randint(lo, hi))]}

    def multiroute(self):
        """two joined groups over the same pair of variables, the second a path that usually holds by several
        routes (`p/q` through several middle nodes, `p|q`, `p|p`): one operand binds both ends for the other"""
        r = self.rng
        a, b = r.sample(self.vars, 2)
        p1, p2 = r.choice(self.preds), r.choice(self.preds)
        path = r.choice([["/", p1, p2], ["|", p1, p2], ["|", p1, p1]])
        plain = {"k": "grp", "g": {"k": "group", "els": [{"k": "bgp", "ts": [[a, r.choice(self.preds + [self.var()]), b]]}]}}
        routed = {"k": "grp", "g": {"k": "group", "els": [{"k": "bgp", "ts": [[a, path, b]]}]}}
        out = [plain, routed]
        r.shuffle(out)
        return out

    def optjoin(self):
        """three joined groups; the first leaves a variable it shares with the third unbound in some solutions
        (OPTIONAL not matched, or bound in one UNION branch only): a chain of joins is evaluated non-lazily"""
        r = self.rng
        s_, x, v = r.sample(self.vars, 3)
        p1, p2, p3, p4 = (r.choice(self.preds) for _ in range(4))
        if r.random() < 0.6:
            first = {"k": "group", "els": [{"k": "bgp", "ts": [[s_, p1, x]]},
                                          {"k": "optional", "g": {"k": "group", "els": [{"k": "bgp", "ts": [[s_, p2, v]]}]}}]}
        else:
            first = {"k": "group", "els": [{"k": "union", "gs": [
                {"k": "group", "els": [{"k": "bgp", "ts": [[s_, p1, x]]}]},
                {"k": "group", "els": [{"k": "bgp", "ts": [[s_, p2, v]]}]}]}]}
        out = [{"k": "grp", "g": first},
               {"k": "grp", "g": {"k": "group", "els": [{"k": "bgp", "ts": [[s_, p3, r.choice([x, self.var()])]]}]}},
               {"k": "grp", "g": {"k": "group", "els": [{"k": "bgp", "ts": [[r.choice([s_, self.var()]), p4, v]]}]}}]
        r.shuffle(out)
        return out

    def zero_path(self):
        r = self.rng
        p1, p2 = r.choice(self.preds), r.choice(self.preds)
        return r.choice([["*", p1], ["?", p1], ["*", ["|", p1, p2]], ["^", ["*", p1]], ["*", p1]])

    def more_path(self):
        """one-or-more / zero-or-more paths and their combinations (walked forward or backward over cyclic data)"""
        r = self.rng
        p1, p2 = r.choice(self.preds), r.choice(self.preds)
        return r.choice([["+", p1], ["+", p1], ["+", ["|", p1, p2]], ["*", p1], ["^", ["+", p1]], ["/", p1, ["+", p2]],
                         ["+", ["^", p1]], ["/", ["+", p1], p2]])

    def cyclepath(self):
        """a path pattern one END of which is bound by another joined group (a plain pattern or VALUES over nodes of the
        graph): pushed in by the lazy join in one operand order, joined afterwards in the other"""
        r = self.rng
        a, b, x = r.sample(self.vars, 3)
        end = r.choice([a, b, b])       # mostly the object end
        routed = {"k": "grp", "g": {"k": "group", "els": [{"k": "bgp", "ts": [[a, self.more_path(), b]]}]}}
        if r.random() < 0.6:
            tp = [end, r.choice(self.preds), x] if r.random() < 0.5 else [x, r.choice(self.preds), end]
            binder = {"k": "grp", "g": {"k": "group", "els": [{"k": "bgp", "ts": [tp]}]}}
        else:
            binder = {"k": "values", "vs": [end], "rows": [[t] for t in r.sample(self.subs, min(2, len(self.subs)))]}
        out = [binder, routed]
        r.shuffle(out)
        return out

    def optvalues(self):
        """`{ B(x) } { P OPTIONAL { VALUES ?x {…} [B'] } }`: a variable the left operand binds is bound again by a VALUES
        block inside the OPTIONAL of the right operand, whose mandatory part does not mention it"""
        r = self.rng
        x, y, z = r.sample(self.vars, 3)
        left = {"k": "grp", "g": {"k": "group", "els": [{"k": "bgp", "ts": [
            [x, r.choice(self.preds), y] if r.random() < 0.5 else [y, r.choice(self.preds), x]]}]}}
        pool = [t for t in self.subs + self.objs if t != "_n"]
        opt = [{"k": "values", "vs": [x], "rows": [[t] for t in r.sample(pool, min(len(pool), r.choice([1, 2])))]}]
        if r.random() < 0.3:
            opt.append({"k": "bgp", "ts": [[z, r.choice(self.preds), self.var()]]})
        right = {"k": "grp", "g": {"k": "group", "els": [
            {"k": "bgp", "ts": [[r.choice([y, z]), r.choice(self.preds), z]]},
            {"k": "optional", "g": {"k": "group", "els": opt}}]}}
        out = [left, right]
        r.shuffle(out)
        return out

    def litpath(self):
        """a variable that takes a literal value (object of a plain pattern, VALUES, BIND) reaching the SUBJECT of a
        zero-length-capable path pattern; binder and path pattern are separate joined groups (both operand orders)"""
        r = self.rng
        lits = [t for t in self.objs if t in LITS]
        if not lits:
            return []
        x, y = r.sample(self.vars, 2)
        kind = r.choice(["tp", "tp", "values", "bind"])
        routed = {"k": "grp", "g": {"k": "group", "els": [{"k": "bgp", "ts": [[x, self.zero_path(), y]]}]}}
        if kind == "tp":
            binder = {"k": "grp", "g": {"k": "group", "els": [{"k": "bgp", "ts": [[r.choice([v for v in self.vars if v != x]),
                                                                                    r.choice(self.preds), x]]}]}}
        elif kind == "values":
            binder = {"k": "values", "vs": [x], "rows": [[t] for t in r.sample(lits + self.subs, min(2, len(lits + self.subs)))]
                      + [[r.choice(lits)]]}
        else:
            self.fresh += 1
            x = "?b%d" % self.fresh
            routed["g"]["els"][0]["ts"][0][0] = x
            return [{"k": "bind", "e": r.choice(lits), "v": x}, routed]
        out = [binder, routed]
        r.shuffle(out)
        return out

    def disjoint(self, kind):
        """MINUS / OPTIONAL / FILTER NOT EXISTS over variables that occur nowhere else in the query"""
        self.fresh += 1
        m1, m2 = "?m%da" % self.fresh, "?m%db" % self.fresh
        grp = {"k": "group", "els": [{"k": "bgp", "ts": [[m1, self.rng.choice(self.preds), m2]]}]}
        if kind == "notexists":
            return {"k": "filter", "e": ["notexists", grp]}
        return {"k": kind, "g": grp}

    def term_or_var(self):
        r = self.rng
        return self.var() if r.random() < 0.6 else r.choice(self.subs + self.objs)

    def expr(self, depth=0, simple=False):
        r = self.rng
        x = r.random()
        if x < 0.3:
            return [r.choice(["=", "!="]), self.var(), self.term_or_var()]
        if x < 0.4 and not simple:
            return ["<", self.var(), r.choice(["L4", "L5", self.var()])]
        if x < 0.55:
            return ["bound", self.var()]
        if x < 0.65:
            return ["sameTerm", self.var(), self.term_or_var()]
        if x < 0.72 and depth < 2:
            return ["!", self.expr(depth + 1, simple)]
        if x < 0.84 and depth < 2:
            return [r.choice(["&&", "||"]), self.expr(depth + 1, simple), self.expr(depth + 1, simple)]
        if x < 0.95 and not simple and self.ok("exists") and depth < 1:
            return [r.choice(["exists", "notexists"]), self.group(2, small=True)]
        return ["=", self.var(), self.var()]

    def bind_expr(self):
        r = self.rng
        x = r.random()
        if x < 0.4:
            return self.term_or_var()
        if x < 0.6:
            return ["str", self.var()]
        if x < 0.8:
            return ["+", self.var(), "L4"]
        return ["coalesce", self.var(), r.choice(self.subs)]

    def select(self, depth, top=False):
        r = self.rng
        where = self.group(depth, small=not top)
        q = {"distinct": r.random() < (0.25 if top else 0.2), "proj": None, "where": where,
             "group": None, "count": None, "order": None}
        vs = sorted(visible_vars(where))
        if r.random() < (0.1 if top else 0.2) and vs and self.ok("agg"):
            gv = r.sample(vs, min(len(vs), r.randint(0, 2)))
            self.fresh += 1
            q["group"] = gv
            q["count"] = ["?c%d" % self.fresh, r.choice(vs + ["*"]), r.random() < 0.3]
            q["proj"] = list(gv)
        elif vs and r.random() < (0.55 if top else 0.8):
            q["proj"] = r.sample(vs, r.randint(1, len(vs)))
        if top and r.random() < 0.2 and self.ok("order"):
            cols = q["proj"] if q["proj"] is not None else vs
            if q["count"]:
                cols = cols + [q["count"][0]]
            if cols:
                ov = r.sample(cols, r.randint(1, len(cols)))
                q["order"] = [[r.choice(["asc", "desc"]), v] for v in ov]
        return q

    def group(self, depth, small=False):
        r = self.rng
        els = []
        if r.random() < 0.85:
            els.append(self.bgp(1, 2 if small else 4))
        n_extra = r.choice([0, 1, 1, 2] if small else [0, 1, 1, 2, 2, 3])
        if not els and n_extra == 0:
            n_extra = 1
        kinds = [("bgp", 2), ("grp", 3), ("union", 3), ("optional", 3), ("minus", 2), ("filter", 4), ("bind", 2),
                 ("values", 2), ("sub", 3), ("graph", 3 if self.ds else 0), ("multiroute", 3 if self.ok("path") else 0),
                 ("litpath", 1 if self.ok("path") else 0), ("optjoin", 2 if len(self.vars) >= 3 else 0),
                 ("cyclepath", 5 if self.ok("path") and len(self.vars) >= 3 else 0),
                 ("optvalues", 4 if self.ok("values") and self.ok("optional") and len(self.vars) >= 3 else 0)]
        kinds = [(k, w) for k, w in kinds if w and self.ok(k)]
        for _ in range(n_extra):
            k = r.choices([k for k, _ in kinds], [w for _, w in kinds])[0]
            if depth <= 0 and k in ("grp", "union", "optional", "minus", "sub", "graph", "multiroute", "litpath", "optjoin",
                                    "cyclepath", "optvalues"):
                k = "filter" if self.ok("filter") else "bgp"
            if k == "bgp":
                els.append(self.bgp(1, 2))
            elif k == "grp":
                els.append({"k": "grp", "g": self.group(depth - 1, True)})
            elif k == "union":
                els.append({"k": "union", "gs": [self.group(depth - 1, True) for _ in range(r.choice([2, 2, 3]))]})
            elif k == "optional":
                els.append({"k": "optional", "g": self.group(depth - 1, True)})
            elif k == "minus":
                if r.random() < 0.3:
                    els.append(self.disjoint("minus"))
                else:
                    els.append({"k": "minus", "g": self.group(depth - 1, True)})
            elif k == "multiroute":
                els += self.multiroute()
            elif k == "litpath":
                els += self.litpath()
            elif k == "optjoin":
                els += self.optjoin()
            elif k == "cyclepath":
                els += self.cyclepath()
            elif k == "optvalues":
                els += self.optvalues()
            elif k == "filter":
                els.append({"k": "filter", "e": self.expr()})
            elif k == "bind":
                self.fresh += 1
                els.append({"k": "bind", "e": self.bind_expr(), "v": "?b%d" % self.fresh})
            elif k == "values":
                vs = r.sample(self.vars, r.choice([1, 1, 2]))
                rows = [[(None if r.random() < 0.15 else r.choice(self.subs + self.objs)) for _ in vs]
                        for _ in range(r.randint(1, 3))]
                els.append({"k": "values", "vs": vs, "rows": rows})
            elif k == "sub":
                els.append({"k": "sub", "q": self.select(depth - 1)})
            elif k == "graph":
                t = r.choice(["g1", "g2", "g3", self.var(), self.var()])
                els.append({"k": "graph", "t": t, "g": self.group(depth - 1, True)})
        # filters last (FILTER position inside a group is irrelevant; keeps the join runs simple)
        els = [e for e in els if e["k"] != "filter"] + [e for e in els if e["k"] == "filter"]
        return {"k": "group", "els": els}


def visible_vars(g):
    """variables in scope after a group (sub-selects expose only their projection)"""
    out = set()
    for e in g["els"]:
        k = e["k"]
        if k == "bgp":
            for t in e["ts"]:
                out |= {x for x in (t[0], t[2]) if is_var(x)}
                if is_var(t[1]):
                    out.add(t[1])
        elif k in ("grp", "optional"):
            out |= visible_vars(e["g"])
        elif k == "union":
            for b in e["gs"]:
                out |= visible_vars(b)
        elif k == "bind":
            out.add(e["v"])
        elif k == "values":
            out |= set(e["vs"])
        elif k == "sub":
            out |= set(select_columns(e["q"]))
        elif k == "graph":
            if is_var(e["t"]):
                out.add(e["t"])
            out |= visible_vars(e["g"])
    return out


def select_columns(q):
    if q["proj"] is None:
        cols = sorted(visible_vars(q["where"]))
    else:
        cols = list(q["proj"])
    if q["count"]:
        cols = cols + [q["count"][0]]
    return cols


def all_vars(node):
    """every variable name mentioned anywhere below `node` (any JSON shape)"""
    out = set()
    if is_var(node):
        out.add(node)
    elif isinstance(node, list):
        for x in node:
            out |= all_vars(x)
    elif isinstance(node, dict):
        for x in node.values():
            out |= all_vars(x)
    return out


def has_kind(node, kinds):
    if isinstance(node, dict):
        if node.get("k") in kinds:
            return True
        return any(has_kind(v, kinds) for v in node.values())
    if isinstance(node, list):
        if node and isinstance(node[0], str) and node[0] in kinds:
            return True
        return any(has_kind(v, kinds) for v in node)
    return False


def subselect_vars(node, inside=False):
    """variables occurring inside any sub-SELECT below node"""
    out = set()
    if isinstance(node, dict):
        if node.get("k") == "sub":
            return all_vars(node)
        for v in node.values():
            out |= subselect_vars(v)
    elif isinstance(node, list):
        for v in node:
            out |= subselect_vars(v)
    return out


FRAG_ALLOW = {"bgp", "grp", "union", "filter"}


def gen_frag_group(rng, g, depth):
    """group of the Lean fragment: BGPs, joins of groups, UNION, FILTER over in-scope variables"""
    els = [g.bgp(1, 3, paths=False)]
    for _ in range(rng.choice([0, 1, 1, 2])):
        k = rng.choice(["bgp", "grp", "union"]) if depth > 0 else "bgp"
        if k == "bgp":
            els.append(g.bgp(1, 2, paths=False))
        elif k == "grp":
            els.append({"k": "grp", "g": gen_frag_group(rng, g, depth - 1)})
        else:
            els.append({"k": "union", "gs": [gen_frag_group(rng, g, depth - 1) for _ in range(2)]})
    grp = {"k": "group", "els": els}
    if rng.random() < 0.5:
        # only variables every solution of the group binds: a filter on a variable bound in one UNION branch
        # only is the known finding C15-K3 (a C04 matter) when the group is joined to the right of another
        vs = sorted(certain_vars(grp))
        if vs:
            grp["els"].append({"k": "filter", "e": gen_frag_expr(rng, g, vs, 0)})
    return grp


def gen_frag_expr(rng, g, vs, depth):
    x = rng.random()
    if x < 0.45 or depth >= 2:
        b = rng.choice(vs) if rng.random() < 0.4 else rng.choice(g.subs + g.objs)
        return ["sameTerm", rng.choice(vs), b]
    if x < 0.6:
        return ["bound", rng.choice(vs)]
    if x < 0.75:
        return ["!", gen_frag_expr(rng, g, vs, depth + 1)]
    return [rng.choice(["&&", "||"]), gen_frag_expr(rng, g, vs, depth + 1), gen_frag_expr(rng, g, vs, depth + 1)]


def gen_td_expr(rng, g, depth):
    """filter expressions of the Lean fragment over ANY variable of the query (in scope or not, bound or not)"""
    x = rng.random()
    if x < 0.3 or depth >= 2:
        a = g.var() if rng.random() < 0.8 else rng.choice(g.subs + g.objs)
        b = g.var() if rng.random() < 0.4 else rng.choice(g.subs + g.objs)
        return ["sameTerm", a, b]
    if x < 0.5:
        return ["bound", g.var()]
    if x < 0.77:
        return ["!", gen_td_expr(rng, g, depth + 1)]
    return [rng.choice(["&&", "||"]), gen_td_expr(rng, g, depth + 1), gen_td_expr(rng, g, depth + 1)]


def td_bgp(rng, g, lo, hi):
    ts = []
    for _ in range(rng.randint(lo, hi)):
        s_ = g.var() if rng.random() < 0.93 else rng.choice(g.subs)
        p_ = g.var() if rng.random() < 0.08 else rng.choice(g.preds)
        o_ = g.var() if rng.random() < 0.8 else rng.choice(g.objs)
        ts.append([s_, p_, o_])
    return {"k": "bgp", "ts": ts}


def gen_td_data(rng, ds):
    """denser than gen_data: 10-18 triples over three subjects, two or three predicates"""
    subs = ["a", "b", "c"] + (["_n"] if rng.random() < 0.2 else [])
    preds = ["p", "q"] + (["r"] if rng.random() < 0.25 else [])
    objs = subs + subs + rng.sample(list(LITS), rng.choice([0, 1, 1]))
    graphs = [0, 0] + ([1, 2, 3][: rng.randint(1, 2)] if ds else [])
    seen, out = set(), []
    for _ in range(rng.randint(10, 18)):
        t = (rng.choice(subs), rng.choice(preds), rng.choice(objs), rng.choice(graphs))
        if t not in seen:
            seen.add(t)
            out.append(list(t))
    return out


def td_sub(rng, g, where):
    inner = sorted(td_star_vars(where)) or list(g.vars[:1])
    x = rng.random()
    proj = None if x < 0.3 else rng.sample(inner, rng.randint(1, len(inner))) if x < 0.88 else rng.sample(g.vars, 1)
    return {"k": "sub", "q": {"distinct": False, "proj": proj, "where": where, "group": None, "count": None, "order": None}}


def gen_td_one(rng, g, els):
    """one non-BGP element over few shared variables: small operands, so that each operator really decides rows"""
    k = rng.choice(["optional", "optional", "optionalf", "minus", "minus", "filter", "bind", "values", "union", "sub", "sub"]
                   + (["graph", "graph"] if g.ds else []))
    small = lambda: {"k": "group", "els": [td_bgp(rng, g, 1, 1)]}      # noqa: E731
    if k == "sub":
        w = small()
        if rng.random() < 0.4:
            w["els"].append(rng.choice([{"k": "filter", "e": gen_td_expr(rng, g, 1)}, {"k": "optional", "g": small()},
                                        {"k": "minus", "g": small()}]))
        return td_sub(rng, g, w)
    if k == "optional":
        return {"k": "optional", "g": small()}
    if k == "optionalf":
        og = small()
        og["els"].append({"k": "filter", "e": gen_td_expr(rng, g, 1)})
        return {"k": "optional", "g": og}
    if k == "minus":
        return {"k": "minus", "g": small()}
    if k == "filter":
        return {"k": "filter", "e": gen_td_expr(rng, g, 1)}
    if k == "bind":
        free = [v for v in g.vars if v not in all_vars(els)]
        if not free:
            return {"k": "filter", "e": gen_td_expr(rng, g, 1)}
        return {"k": "bind", "e": (g.var() if rng.random() < 0.6 else rng.choice(g.subs)), "v": rng.choice(free)}
    if k == "values":
        vs = rng.sample(g.vars, rng.choice([1, 1, 2]))
        pool = g.subs + g.objs
        return {"k": "values", "vs": vs,
                "rows": [[(None if rng.random() < 0.15 else rng.choice(pool)) for _ in vs] for _ in range(rng.choice([1, 2, 3]))]}
    if k == "union":
        return {"k": "union", "gs": [small(), small()]}
    free = [v for v in g.vars if v not in all_vars(els)]
    return {"k": "graph", "t": rng.choice(free + free + [g.var(), "g1", "g2", "a"]), "g": small()}


def gen_td_focus(rng, g):
    """outermost BGP, then one to three elements, each either an operator applied at the top level or a nested group
    `{ B X }` joined lazily — the bindings of what precedes are pushed into B and X"""
    els = [td_bgp(rng, g, 1, 2)]
    for _ in range(rng.choice([1, 1, 2, 2, 3])):
        if rng.random() < 0.5:
            inner = [td_bgp(rng, g, 1, 1)] if rng.random() < 0.8 else []
            for _ in range(rng.choice([1, 1, 2])):
                inner.append(gen_td_one(rng, g, inner))
            els.append({"k": "grp", "g": {"k": "group", "els": inner}})
        else:
            els.append(gen_td_one(rng, g, els))
    free = [v for v in g.vars if v not in all_vars(els)]
    if free and rng.random() < 0.2:      # a BIND as the LAST element: the top of the algebra is an Extend
        els.append({"k": "bind", "e": (g.var() if rng.random() < 0.6 else rng.choice(g.subs)), "v": rng.choice(free)})
    return {"k": "group", "els": els}


def gen_td_push(rng, g):
    """`B0 . { B1 X }` (or the operands the other way round, or three operands): X is one or two operators over a
    variable `o` that B0 binds and B1 does not, and a variable `z` of B1 — what the lazy join pushes into the nested
    group meets `_vars`, forget / remember, `ctx.clean()` and the AlreadyBound tests there"""
    r = rng
    vs = list(g.vars)
    r.shuffle(vs)
    o, z = vs[0], vs[1]
    u = vs[2]
    pr = lambda: r.choice(g.preds)      # noqa: E731
    b0 = {"k": "bgp", "ts": [[o, pr(), r.choice([u, u, z])]] if r.random() < 0.7 else [[r.choice([u, z]), pr(), o]]}
    b1 = {"k": "bgp", "ts": [[z, pr(), r.choice([u, u, r.choice(g.objs)])]]}
    pat = lambda: [[z, pr(), o]] if r.random() < 0.6 else [[o, pr(), z]]      # noqa: E731
    ex = lambda: r.choice([["bound", o], ["sameTerm", o, r.choice([z, u] + g.subs)], ["!", ["bound", o]],      # noqa: E731
                           ["||", ["bound", o], ["sameTerm", z, u]], ["!", ["sameTerm", o, r.choice(g.subs)]]])
    inner = [b1]
    for _ in range(r.choice([1, 1, 2])):
        k = r.choice(["optional", "optionalf", "minus", "minus", "minusf", "minusf", "filter", "filter", "bind", "bindc",
                      "values", "union", "sub", "sub", "optvalues", "optvalues"] + (["graph", "graphv"] if g.ds else []))
        if k == "optional":
            inner.append({"k": "optional", "g": {"k": "group", "els": [{"k": "bgp", "ts": pat()}]}})
        elif k == "optionalf":
            inner.append({"k": "optional", "g": {"k": "group", "els": [{"k": "bgp", "ts": pat()}, {"k": "filter", "e": ex()}]}})
        elif k == "minus":
            inner.append({"k": "minus", "g": {"k": "group", "els": [{"k": "bgp", "ts": pat()}]}})
        elif k == "minusf":
            mp = pat() if r.random() < 0.4 else [[r.choice(g.subs), pr(), o]]
            inner.append({"k": "minus", "g": {"k": "group", "els": [{"k": "bgp", "ts": mp}]}})
            inner.append({"k": "filter", "e": ex()})
        elif k == "filter":
            inner.append({"k": "filter", "e": ex()})
        elif k in ("bind", "bindc"):
            if o not in all_vars(inner):
                inner.append({"k": "bind", "e": (z if k == "bind" else r.choice(g.subs)), "v": o})
            else:
                inner.append({"k": "filter", "e": ex()})
        elif k == "values":
            inner.append({"k": "values", "vs": [o], "rows": [[t] for t in r.sample(g.subs + [None], 2)]})
        elif k == "optvalues":  # OPTIONAL { VALUES ?o {…} }: the pushed variable bound again, where `_vars` does not see it
            og = [{"k": "values", "vs": [o], "rows": [[t] for t in r.sample(g.subs, min(len(g.subs), r.choice([1, 2])))]}]
            if r.random() < 0.3:
                og.append({"k": "bgp", "ts": [[z, pr(), u]]})
            inner.append({"k": "optional", "g": {"k": "group", "els": og}})
        elif k == "sub":        # the pushed variable inside a sub-select, projected or not
            w = {"k": "group", "els": [{"k": "bgp", "ts": pat()}]}
            if r.random() < 0.3:
                w["els"].append({"k": "filter", "e": ex()})
            inner.append({"k": "sub", "q": {"distinct": False, "proj": r.choice([[z], [z, o], [o], None, [u]]), "where": w,
                                            "group": None, "count": None, "order": None}})
        elif k == "union":
            inner.append({"k": "union", "gs": [{"k": "group", "els": [{"k": "bgp", "ts": pat()}]},
                                              {"k": "group", "els": [{"k": "bgp", "ts": [[z, pr(), u]]}]}]})
        elif k == "graph":
            inner.append({"k": "graph", "t": r.choice(["g1", "g2"]), "g": {"k": "group", "els": [{"k": "bgp", "ts": pat()}]}})
        else:
            inner.append({"k": "graph", "t": o, "g": {"k": "group", "els": [{"k": "bgp", "ts": [[z, pr(), u]]}]}})
    nested = {"k": "grp", "g": {"k": "group", "els": inner}}
    shape = r.random()
    if shape < 0.6:
        els = [b0, nested]
    elif shape < 0.8:
        els = [nested, {"k": "grp", "g": {"k": "group", "els": [b0]}}]
    else:       # three operands: the second join is not lazy
        els = [b0, {"k": "grp", "g": {"k": "group", "els": [{"k": "bgp", "ts": [[u, pr(), r.choice([z, o])]]}]}}, nested]
    return {"k": "group", "els": els}


def gen_td_graph(rng, g):
    """GRAPH with a variable of its own: `[B0] GRAPH ?g { B1 [X] } [GRAPH ?g { B2 } | { ?g p ?u }]` — every named graph in
    turn, the name joined in; a second GRAPH reached with ?g bound (a graph, or not a graph of the data set)"""
    r = rng
    vs = list(g.vars)
    r.shuffle(vs)
    gv, z, u = vs[0], vs[1], vs[2]
    pr = lambda: r.choice(g.preds)      # noqa: E731
    inner = [{"k": "bgp", "ts": [[z, pr(), u]] if r.random() < 0.8 else [[z, pr(), r.choice(g.objs)]]}]
    if r.random() < 0.4:
        inner.append(gen_td_one(r, g, inner))
    gp = {"k": "graph", "t": gv, "g": {"k": "group", "els": inner}}
    els = []
    if r.random() < 0.5:
        els.append({"k": "bgp", "ts": [[r.choice([z, u]), pr(), r.choice([z, u] + g.objs)]]})
    els.append(gp)
    x = r.random()
    if x < 0.3:
        els.append({"k": "graph", "t": gv, "g": {"k": "group", "els": [{"k": "bgp", "ts": [[r.choice([z, u]), pr(), r.choice(vs)]]}]}})
    elif x < 0.45:
        els.append({"k": "grp", "g": {"k": "group", "els": [{"k": "bgp", "ts": [[gv, pr(), u]]}]}})
    elif x < 0.6:
        els.insert(0, {"k": "values", "vs": [gv], "rows": [[t] for t in r.sample(["g1", "g2", "a", None], 2)]})
    if r.random() < 0.3:
        r.shuffle(els)
    return {"k": "group", "els": els}


def gen_td_group(rng, g, depth, top=False):
    """group of the top-down Lean model: BGPs, joined groups, UNION, OPTIONAL (with and without a filter of its own),
    MINUS, FILTER, BIND (variable or constant), VALUES (with UNDEF), GRAPH (constant, variable, not a graph)"""
    els = [td_bgp(rng, g, 1, 2)] if (top or rng.random() < 0.8) else []
    kinds = [("bgp", 2), ("grp", 3), ("union", 3), ("optional", 4), ("minus", 3), ("filter", 3), ("bind", 2),
             ("values", 2), ("graph", 3 if g.ds else 0)]
    kinds = [(k, w) for k, w in kinds if w]
    for _ in range(rng.choice([0, 1, 1, 2, 2, 3] if top else [0, 0, 1, 1, 2])):
        k = rng.choices([k for k, _ in kinds], [w for _, w in kinds])[0]
        if depth <= 0 and k in ("grp", "union", "optional", "minus", "graph"):
            k = rng.choice(["bgp", "filter", "values"])
        if k == "bgp":
            els.append(td_bgp(rng, g, 1, 2))
        elif k == "grp":
            els.append({"k": "grp", "g": gen_td_group(rng, g, depth - 1)})
        elif k == "union":
            els.append({"k": "union", "gs": [gen_td_group(rng, g, depth - 1) for _ in range(rng.choice([2, 2, 3]))]})
        elif k == "optional":
            els.append({"k": "optional", "g": gen_td_group(rng, g, depth - 1)})
        elif k == "minus":
            els.append({"k": "minus", "g": gen_td_group(rng, g, depth - 1)})
        elif k == "filter":
            els.append({"k": "filter", "e": gen_td_expr(rng, g, 0)})
        elif k == "bind":
            used = all_vars(els)
            free = [v for v in g.vars if v not in used]
            if free:       # (the variable of a BIND must not have been used in the group before it)
                src = g.var() if rng.random() < 0.5 else rng.choice(g.subs + g.objs)
                els.append({"k": "bind", "e": src, "v": rng.choice(free)})
        elif k == "values":
            vs = rng.sample(g.vars, rng.choice([1, 1, 2]))
            pool = g.subs + g.objs
            rows = [[(None if rng.random() < 0.15 else rng.choice(pool)) for _ in vs] for _ in range(rng.choice([1, 2, 2, 3]))]
            els.append({"k": "values", "vs": vs, "rows": rows})
        elif k == "graph":
            t = rng.choice([g.var(), g.var(), g.var(), "g1", "g1", "g2", "g3", "a"])
            inner = gen_td_group(rng, g, depth - 1) if rng.random() < 0.5 else {"k": "group", "els": [td_bgp(rng, g, 1, 1)]}
            els.append({"k": "graph", "t": t, "g": inner})
    return {"k": "group", "els": els}


def td_star_vars(node, out=None):
    """`_findVars`: the columns of SELECT * — every variable written in the WHERE clause, of a BIND only its target"""
    out = set() if out is None else out
    if isinstance(node, dict):
        if node.get("k") == "bind":
            out.add(node["v"])
            return out
        if node.get("k") == "sub":      # only what the sub-select projects
            sq = node["q"]
            out |= set(sq["proj"]) if sq["proj"] is not None else td_star_vars(sq["where"])
            return out
        for v in node.values():
            td_star_vars(v, out)
    elif isinstance(node, list):
        for v in node:
            td_star_vars(v, out)
    elif is_var(node):
        out.add(node)
    return out


def gen_case(rng, tier, i):
    """bgp / frag cases (the ones the Lean model also evaluates) are generated here; the others are generated
    inside the worker from a seed (`materialize`) because choosing a query with a non-empty answer needs
    evaluations, which would serialise the run if done in the parent process."""
    stream = rng.choices(["rewrite", "init", "prepared", "store", "bgp", "frag", "sel", "nsctx", "td", "iri"],
                         [26, 11, 13, 14, 8, 7, 6, 6, 20, 7])[0]
    if stream in ("bgp", "frag", "sel", "td", "iri"):
        while True:
            try:
                return _gen_case(rng, tier, i, stream)
            except (ValueError, IndexError):   # a degenerate draw (e.g. a pattern without variables): draw again
                continue
    return {"lazy": rng.randrange(1 << 60), "stream": stream}


def materialize(case):
    """most cases should have a non-empty reference answer: up to 4 candidates, the first non-empty one wins"""
    if "lazy" not in case:
        return case
    rng = random.Random(case["lazy"])
    want_nonempty = rng.random() < 0.85
    out = None
    for _ in range(4):
        try:
            out = _gen_case(rng, "quick", 0, case["stream"])
        except (ValueError, IndexError):
            continue
        if not want_nonempty:
            break
        try:
            r = evaluate(build(out["data"], "mem", out.get("ds", False)), out["q"])
        except core.CaseTimeout:
            raise
        except Exception:  # noqa: BLE001
            break
        if r[0] == "ok" and r[2]:
            break
    while out is None:
        try:
            out = _gen_case(rng, "quick", 0, case["stream"])
        except (ValueError, IndexError):
            pass
    return out


IRI_TABLES = {
    "uses_relative": ['', 'ftp', 'http', 'gopher', 'nntp', 'imap', 'wais', 'file', 'https', 'shttp', 'mms', 'prospero',
                      'rtsp', 'rtsps', 'rtspu', 'sftp', 'svn', 'svn+ssh', 'ws', 'wss'],
    "uses_netloc": ['', 'ftp', 'http', 'gopher', 'nntp', 'telnet', 'imap', 'wais', 'file', 'mms', 'https', 'shttp',
                    'snews', 'prospero', 'rtsp', 'rtsps', 'rtspu', 'rsync', 'svn', 'svn+ssh', 'sftp', 'nfs', 'git',
                    'git+ssh', 'ws', 'wss', 'itms-services'],
    "uses_params": ['', 'ftp', 'hdl', 'prospero', 'http', 'imap', 'https', 'shttp', 'rtsp', 'rtsps', 'rtspu', 'sip',
                    'sips', 'mms', 'sftp', 'tel'],
}       # the lists in lean/RV/C15/ModelIri.lean


def gen_iri_pair(rng):
    """(BASE, relative reference) pairs for Prologue.absolutize: dot segments, empty segments, params, queries,
    fragments, a trailing '#', network-path and absolute-path references, schemes urljoin knows and does not know"""
    r = rng
    seg = lambda: r.choice(["a", "b", "c.d", "e", ".", "..", "", "x;p", "y;", "..a", "a..", "...", "%2e"])      # noqa: E731
    if r.random() < 0.3:        # the plain shape of `base_relative_is_concatenation`
        dirs = [r.choice(["ns", "d", "v1", "a.b", "x;p"][: r.choice([3, 4, 5])]) for _ in range(r.randint(0, 3))]
        base = r.choice(["http", "https", "file", "ftp"]) + "://" + r.choice(["e.org", "h:80", "a.b.c"]) + "/" \
            + "".join(d + "/" for d in dirs)
        ref = r.choice(["a", "b", "loc", "x1", "a.b", "..a", "p-q_r", "%41"])
        return base, ref, True
    scheme = r.choice(["http", "http", "https", "file", "urn", "HTTP", "foo", "ftp", "svn+ssh", ""])
    net = r.choice(["e.org", "e.org", "a.b:80", "", "u@h"])
    path = r.choice(["", "/", "/d/", "/d/e", "/d/e/", "/d//e/", "/d/./e", "/d/../e/", "/d;p/e;q", "/d/e;q", "/..", "/a/b/c/d"])
    base = (scheme + ":" if scheme else "") + ("//" + net if (net or (scheme in ("http", "https", "HTTP") )) else "") + path
    if scheme == "urn":
        base = "urn:x:" + r.choice(["a", "a/b", "a/b/"])
    if r.random() < 0.2:
        base += "?" + r.choice(["q=1", "", "a/b"])
    if r.random() < 0.2:
        base += "#" + r.choice(["f", "", "f/g"])
    if r.random() < 0.04:
        base = ""
    x = r.random()
    if x < 0.1:
        ref = r.choice(["", "#", "#f", "?", "?x=1", "?x#", ";p", ";", "."])
    elif x < 0.18:
        ref = "//" + r.choice(["o.org", "o.org/p", "", "o.org/../p"])
    elif x < 0.26:
        ref = r.choice(["x:y", "http://o.org/p/../q", "urn:a", "a/b:c", "HTTP://o/"])
    else:
        ref = ("/" if r.random() < 0.25 else "") + "/".join(seg() for _ in range(r.randint(1, 4)))
        if r.random() < 0.2:
            ref += r.choice(["?", "?q", "?q/../r"])
        if r.random() < 0.25:
            ref += r.choice(["#", "#f", "#f/../g"])
    return base, ref, False


def _gen_case(rng, tier, i, stream):
    seed = rng.randrange(1 << 30)
    if stream == "iri":
        pairs = []
        for _ in range(12):
            b, rf, plain = gen_iri_pair(rng)
            pairs.append([b, rf, plain])
        return {"stream": "iri", "pairs": pairs, "seed": seed, "data": [], "q": None}
    if stream == "bgp":
        data = gen_data(rng, False)
        g = Gen(rng, data, False)
        q = {"distinct": False, "proj": None, "where": {"k": "group", "els": [g.bgp(1, 4, paths=False)]},
             "group": None, "count": None, "order": None}
        case = {"stream": "bgp", "data": data, "ds": False, "q": q, "seed": seed,
                "split": gen_split(rng, len(data), rng.random() < 0.4),
                "agg_ids": rng.choice(["fresh", "stores", "same_iri", "same_bnode", "mixed"])}
        if rng.random() < 0.5:
            vs = sorted(all_vars(q))
            if vs:
                case["init"] = [rng.choice(vs), rng.choice(g.subs + g.objs)]
        return case
    if stream == "sel":
        # SELECT pv|* { BGP . [{ SELECT pv' { BGP' } }] [FILTER e] } with initBindings for one or two variables,
        # inside or outside the property's side condition (the model follows the code in both cases)
        data = gen_data(rng, False)
        g = Gen(rng, data, False, nvars=rng.choice([3, 4]))
        els = [g.bgp(1, 3, paths=False)]
        if rng.random() < 0.55:
            inner = g.bgp(1, 2, paths=False)
            while not all_vars(inner):
                inner = g.bgp(1, 2, paths=False)
            ivs = sorted(all_vars(inner))
            sq = {"distinct": False, "proj": rng.sample(ivs, rng.randint(1, len(ivs))),
                  "where": {"k": "group", "els": [inner]}, "group": None, "count": None, "order": None}
            els.append({"k": "sub", "q": sq})
        where = {"k": "group", "els": els}
        vis = sorted(visible_vars(where))
        if rng.random() < 0.4:
            where["els"].append({"k": "filter", "e": gen_frag_expr(rng, g, g.vars, 0)})
        q = {"distinct": False, "proj": (rng.sample(g.vars, rng.randint(1, len(g.vars))) if rng.random() < 0.5 else None),
             "where": where, "group": None, "count": None, "order": None}
        outer = sorted(all_vars(els[0]))
        ivars = rng.sample(outer, min(len(outer), rng.choice([1, 1, 2]))) if outer and rng.random() < 0.75 \
            else rng.sample(g.vars, rng.choice([1, 2]))
        init = [[v, rng.choice(g.subs + g.objs)] for v in sorted(set(ivars))]
        return {"stream": "sel", "data": data, "ds": False, "q": q, "seed": seed, "inits": init, "nvars": len(g.vars)}
    if stream == "td":
        ds = rng.random() < 0.4
        data = gen_td_data(rng, ds)
        if ds:      # a default graph dense enough for the outermost BGP: most named-graph triples are in it as well
            have = {tuple(r[:3]) for r in data if r[3] == 0}
            for r in list(data):
                if r[3] != 0 and tuple(r[:3]) not in have and rng.random() < 0.7:
                    have.add(tuple(r[:3]))
                    data.append(r[:3] + [0])
        g = Gen(rng, data, ds, nvars=rng.choice([3, 3, 4]))
        tails = rng.random() < 0.25
        if tails:
            # the shape of `initbindings_values_td`: outermost BGP, then OPTIONAL { B [FILTER e] } / {B1} UNION {B2}
            els = [td_bgp(rng, g, 1, 2)]
            for _ in range(rng.choice([1, 1, 2, 3])):
                if rng.random() < 0.6:
                    og = {"k": "group", "els": [td_bgp(rng, g, 1, 2)]}
                    if rng.random() < 0.4:
                        og["els"].append({"k": "filter", "e": gen_td_expr(rng, g, 0)})
                    els.append({"k": "optional", "g": og})
                else:
                    els.append({"k": "union", "gs": [{"k": "group", "els": [td_bgp(rng, g, 1, 2)]} for _ in range(2)]})
            where = {"k": "group", "els": els}
        elif ds and rng.random() < 0.35:
            where = gen_td_graph(rng, g)
        elif rng.random() < 0.5:
            where = gen_td_push(rng, g)
        elif rng.random() < 0.7:
            where = gen_td_focus(rng, g)
        else:
            where = gen_td_group(rng, g, 2, top=True)
        star = sorted(td_star_vars(where))
        q = {"distinct": False, "proj": (rng.sample(g.vars, rng.randint(1, len(g.vars))) if rng.random() < 0.4 else None),
             "where": where, "group": None, "count": None, "order": None}
        if tails:
            q["proj"] = list(g.vars)
        case = {"stream": "td", "data": data, "ds": ds, "q": q, "seed": seed, "nvars": len(g.vars), "star": star}
        if tails:
            case["tails"] = True
        if tails or rng.random() < 0.5:
            ivars = rng.sample(g.vars, rng.choice([1, 1, 2]))
            pool = [t for t in g.subs + g.objs if t != "_n"] + (["g1"] if ds else [])
            if tails and rng.random() < 0.75:       # inside the side condition: variables of the outermost BGP
                outer = sorted(all_vars(where["els"][0]))
                if outer:
                    ivars = rng.sample(outer, min(len(outer), rng.choice([1, 1, 2])))
            inits = []
            for v in sorted(ivars):
                t = rng.choice(pool)
                # mostly a value the variable can take: from a data triple fitting a pattern of the outermost BGP
                fits = [(tp, row) for tp in where["els"][0].get("ts", []) for row in data
                        if v in tp and (is_var(tp[1]) or tp[1] == row[1])]
                if fits and rng.random() < 0.7:
                    tp, row = rng.choice(fits)
                    t = row[tp.index(v)]
                    if t == "_n":
                        t = rng.choice(pool)
                inits.append([v, t])
            case["inits"] = inits
        return case
    if stream == "frag":
        data = gen_data(rng, False)
        g = Gen(rng, data, False, nvars=3)
        where = gen_frag_group(rng, g, 2)
        vs = sorted(visible_vars(where))
        q = {"distinct": False, "proj": (rng.sample(vs, rng.randint(1, len(vs))) if rng.random() < 0.5 else None),
             "where": where, "group": None, "count": None, "order": None}
        return {"stream": "frag", "data": data, "data2": gen_data(rng, False), "ds": False, "q": q, "seed": seed}
    ds = rng.random() < (0.35 if stream in ("rewrite", "init", "prepared") else 0.2)
    data = gen_data(rng, ds)
    g = Gen(rng, data, ds)
    q = g.select(2, top=True)
    case = {"stream": stream, "data": data, "ds": ds, "q": q, "seed": seed}
    if stream == "rewrite":
        kinds = ["bgp_shuffle", "join_swap", "union_swap", "rename", "rename_local", "spell", "mix"]
        case["rw"] = [[k, rng.randrange(1 << 20)] for k in rng.sample(kinds, 4)] + [["mix", rng.randrange(1 << 20)]]
    elif stream == "init":
        if rng.random() < 0.35:     # a part that shares no variable with the rest of the query
            els = q["where"]["els"]
            npat = len([e for e in els if e["k"] != "filter"])
            kind = rng.choice(["minus", "minus", "optional", "notexists"])
            els.insert(npat if kind != "notexists" else len(els), g.disjoint(kind))
        cand = sorted(outer_bgp_vars(q) - subselect_vars(q))
        lit_objs = sorted({t[2] for t in data if t[2] in LITS})
        first_bgp = next((e for e in q["where"]["els"] if e["k"] == "bgp"), None)
        if lit_objs and first_bgp is not None and first_bgp is q["where"]["els"][0] and rng.random() < 0.25:
            # the outermost BGP binds ?lx to objects (literals among them); a zero-length path starts at ?lx;
            # the initBindings value is a literal that IS a node of the graph
            lit = rng.choice(lit_objs)
            pred = rng.choice([t[1] for t in data if t[2] == lit])
            first_bgp["ts"].append([g.var(), pred, "?lx"])
            els = q["where"]["els"]
            npat = len([e for e in els if e["k"] != "filter"])
            els.insert(rng.randint(1, npat), {"k": "grp", "g": {"k": "group", "els": [
                {"k": "bgp", "ts": [["?lx", g.zero_path(), g.var()]]}]}})
            if q["proj"] is not None and not q["count"]:
                q["proj"] = q["proj"] + ["?lx"]
            case["init"] = ["?lx", lit]
        elif first_bgp is not None and first_bgp is q["where"]["els"][0] and g.ok("path") and rng.random() < 0.45:
            # the outermost BGP holds a one-or-more / zero-or-more path pattern; initBindings give ONE of its ends, a
            # node that lies on a cycle of the data when there is one
            rows = [t for t in data if (t[3] == 0 or not ds)]
            path = g.more_path()
            onp = sorted({t[0] for t in rows if t[0] != "_n" and any(u[2] == t[0] for u in rows)}) \
                or sorted({t[0] for t in rows if t[0] != "_n"}) or ["a"]
            first_bgp["ts"].append(["?ps", path, "?po"])
            end = rng.choice(["?po", "?po", "?ps"])
            if q["proj"] is not None and not q["count"]:
                q["proj"] = q["proj"] + [v for v in ("?ps", "?po") if v not in q["proj"]]
            case["init"] = [end, rng.choice(onp)]
        elif cand:
            subs, preds, objs = data_terms(data)
            # VALUES cannot hold a blank node
            case["init"] = [rng.choice(cand), rng.choice([x for x in subs + preds + objs if x != "_n"] or ["a"])]
    elif stream == "prepared":
        case["data2"] = gen_data(rng, ds)
        if rng.random() < 0.5:      # a value that depends on the base in force: IRI("rel")
            g.fresh += 1
            bv = "?b%d" % g.fresh
            els = q["where"]["els"]
            els.insert(len([e for e in els if e["k"] != "filter"]), {"k": "bind", "e": ["iri", rng.choice(["d1", "x/y", "#f"])], "v": bv})
            if q["proj"] is not None and not q["count"]:
                q["proj"] = q["proj"] + [bv]
        if not has_kind(q, {"minus", "optional", "sub", "exists", "notexists"}) or rng.random() < 0.25:
            els = q["where"]["els"]
            npat = len([e for e in els if e["k"] != "filter"])
            kind = rng.choice(["minus", "optional", "sub", "exists"])
            if kind == "minus":
                els.insert(npat, {"k": "minus", "g": g.group(1, True)})
            elif kind == "optional":
                els.insert(npat, {"k": "optional", "g": g.group(1, True)})
            elif kind == "sub":
                els.insert(npat, {"k": "sub", "q": g.select(1)})
            else:
                els.append({"k": "filter", "e": [rng.choice(["exists", "notexists"]), g.group(1, True)]})
    elif stream == "store":
        case["split"] = gen_split(rng, len(data), rng.random() < 0.4)
    elif stream == "nsctx":
        # a second data set, held under another namespace in the same graphs: mostly the same triples, so that
        # resolving the undeclared prefix to the wrong namespace gives a different, usually non-empty, answer
        d2 = [t for t in data if rng.random() < 0.7] + gen_data(rng, ds)[: rng.randint(1, 4)]
        seen, case["data2"] = set(), []
        for t in d2:
            if tuple(t) not in seen:
                seen.add(tuple(t))
                case["data2"].append(t)
    return case


def gen_split(rng, n, overlap):
    k = rng.choice([2, 2, 3])
    out = []
    for _ in range(n):
        m = rng.randrange(k)
        if overlap and rng.random() < 0.35:
            m2 = rng.randrange(k)
            out.append([m, m2] if m2 != m else m)
        else:
            out.append(m)
    return out


# ---------------------------------------------------------------------------------------------
# text
# ---------------------------------------------------------------------------------------------

SPELL_MODES = ["full", "e", "zz", "colon", "base", "relprefix", "mixed", "graphns"]


class Speller:
    """Chooses how each IRI occurrence is written.  All modes denote the same IRIs."""

    def __init__(self, mode, seed, ns=None, pfx="ux", declare=None):
        self.mode, self.rng = mode, random.Random(seed)
        self.ns = ns or NS      # namespace the IRI keys stand for (full / ctx modes only)
        self.pfx = pfx          # ctx mode: the prefix name the text uses
        self.declare = declare  # ctx mode: None = not declared in the text, else the namespace it declares
        self.used_xsd = False

    def prologue(self):
        m = self.mode
        xs = "PREFIX XSD: <%s> " % XS
        if m == "ctx" and self.declare:
            return xs + "PREFIX %s: <%s> " % (self.pfx, self.declare)
        if m in ("full", "ctx"):
            return xs      # ctx: the prefix is not declared in the text, it comes from the graph / initNs / defaults
        if m == "e":
            return xs + "PREFIX e: <%s> " % NS
        if m == "zz":
            return xs + "PREFIX zz: <%s> PREFIX e: <%s> " % (NS, OTHER)
        if m == "colon":
            return xs + "PREFIX : <%s> " % NS
        if m == "base":
            return "BASE <%s> " % NS + xs
        if m == "relprefix":
            return "BASE <http://e.org/> PREFIX rp: <ns/> " + xs
        if m == "mixed":
            return "BASE <%s> PREFIX e: <%s> PREFIX zz: <%s> PREFIX : <%s> " % (NS, NS, NS, NS) + xs
        if m == "graphns":
            return xs   # gn: comes from the graph's own bindings / initNs
        raise ValueError(m)

    def iri(self, key):
        m = self.mode
        if m == "mixed":
            m = self.rng.choice(["full", "e", "zz", "colon", "base"])
        if m == "ctx":
            return self.pfx + ":" + key
        return {"full": "<%s%s>" % (self.ns, key), "e": "e:" + key, "zz": "zz:" + key, "colon": ":" + key,
                "base": "<%s>" % key, "relprefix": "rp:" + key, "graphns": "gn:" + key}[m]

    def term(self, t):
        if t is None:
            return "UNDEF"
        if is_var(t):
            return t
        if t in LITS:
            forms = LIT_TEXT[t]
            return forms[self.rng.randrange(len(forms))] if self.mode == "mixed" else forms[0]
        if t == "_n":
            raise ValueError("blank node label in a query")
        return self.iri(t)

    def path(self, p):
        if isinstance(p, list):
            k = p[0]
            if k in "/|":
                return "(%s%s%s)" % (self.path(p[1]), k, self.path(p[2]))
            if k == "^":
                return "^" + self.path(p[1])
            return "(%s)%s" % (self.path(p[1]), k)
        return self.term(p)


def expr_text(sp, e):
    if isinstance(e, str) or e is None:
        return sp.term(e)
    k = e[0]
    if k in ("=", "!=", "<", "&&", "||", "+"):
        return "(%s %s %s)" % (expr_text(sp, e[1]), k, expr_text(sp, e[2]))
    if k == "!":
        return "(!%s)" % expr_text(sp, e[1])
    if k == "bound":
        return "bound(%s)" % e[1]
    if k == "sameTerm":
        return "sameTerm(%s, %s)" % (expr_text(sp, e[1]), expr_text(sp, e[2]))
    if k == "str":
        return "str(%s)" % expr_text(sp, e[1])
    if k == "iri":      # a relative reference, resolved against the base in force
        return '%s("%s")' % ("IRI" if len(e[1]) % 2 == 0 else "URI", e[1])
    if k == "coalesce":
        return "coalesce(%s, %s)" % (expr_text(sp, e[1]), expr_text(sp, e[2]))
    if k == "exists":
        return "EXISTS %s" % group_text(sp, e[1])
    if k == "notexists":
        return "NOT EXISTS %s" % group_text(sp, e[1])
    raise ValueError(k)


def group_text(sp, g):
    parts = []
    for e in g["els"]:
        k = e["k"]
        if k == "bgp":
            parts.append(" ".join("%s %s %s ." % (sp.term(s), sp.path(p), sp.term(o)) for s, p, o in e["ts"]))
        elif k == "grp":
            parts.append(group_text(sp, e["g"]))
        elif k == "union":
            parts.append(" UNION ".join(group_text(sp, b) for b in e["gs"]))
        elif k == "optional":
            parts.append("OPTIONAL " + group_text(sp, e["g"]))
        elif k == "minus":
            parts.append("MINUS " + group_text(sp, e["g"]))
        elif k == "filter":
            parts.append("FILTER (%s)" % expr_text(sp, e["e"]))
        elif k == "bind":
            parts.append("BIND (%s AS %s)" % (expr_text(sp, e["e"]), e["v"]))
        elif k == "values":
            parts.append("VALUES (%s) { %s }" % (" ".join(e["vs"]),
                                                  " ".join("(%s)" % " ".join(sp.term(t) for t in r) for r in e["rows"])))
        elif k == "sub":
            parts.append("{ %s }" % select_text(sp, e["q"]))
        elif k == "graph":
            parts.append("GRAPH %s %s" % (sp.term(e["t"]), group_text(sp, e["g"])))
        else:
            raise ValueError(k)
    return "{ " + " ".join(parts) + " }"


def select_text(sp, q):
    items = []
    if q["proj"] is None and not q["count"]:
        items = ["*"]
    else:
        items = list(q["proj"] or [])
        if q["count"]:
            c, what, dist = q["count"]
            items.append("(COUNT(%s%s) AS %s)" % ("DISTINCT " if dist else "", what, c))
    s = "SELECT %s%s WHERE %s" % ("DISTINCT " if q["distinct"] else "", " ".join(items), group_text(sp, q["where"]))
    if q["group"]:
        s += " GROUP BY " + " ".join(q["group"])
    if q["order"]:
        s += " ORDER BY " + " ".join("%s(%s)" % (d.upper(), v) for d, v in q["order"])
    return s


def query_text(q, mode="e", seed=0, ns=None, pfx="ux", declare=None):
    sp = Speller(mode, seed, ns, pfx, declare)
    body = select_text(sp, q)
    return sp.prologue() + body


# ---------------------------------------------------------------------------------------------
# rewrites (each returns a new AST; `colmap` maps new column names back to the original ones)
# ---------------------------------------------------------------------------------------------

JOINABLE = {"bgp", "grp", "union", "values", "sub", "graph"}


def _copy(x):
    if isinstance(x, dict):
        return {k: _copy(v) for k, v in x.items()}
    if isinstance(x, list):
        return [_copy(v) for v in x]
    return x


def _walk_groups(node, fn):
    """apply fn to every group / union / bgp / select dict below node (pre-order, in place)"""
    if isinstance(node, dict):
        fn(node)
        for v in node.values():
            _walk_groups(v, fn)
    elif isinstance(node, list):
        for v in node:
            _walk_groups(v, fn)


def rw_bgp_shuffle(q, rng):
    q = _copy(q)

    def fn(n):
        if n.get("k") == "bgp" and len(n["ts"]) > 1:
            rng.shuffle(n["ts"])
    _walk_groups(q, fn)
    return q


def rw_join_swap(q, rng):
    q = _copy(q)

    def fn(n):
        if n.get("k") != "group":
            return
        els = n["els"]
        i = 0
        while i < len(els):
            j = i
            while j < len(els) and els[j]["k"] in JOINABLE:
                j += 1
            if j - i >= 2:
                run = els[i:j]
                rng.shuffle(run)
                els[i:j] = run
            i = max(j, i + 1)
    _walk_groups(q, fn)
    return q


def rw_union_swap(q, rng):
    q = _copy(q)

    def fn(n):
        if n.get("k") == "union":
            rng.shuffle(n["gs"])
    _walk_groups(q, fn)
    return q


def _rename(node, m):
    if is_var(node):
        return m.get(node, node)
    if isinstance(node, list):
        return [_rename(x, m) for x in node]
    if isinstance(node, dict):
        return {k: _rename(v, m) for k, v in node.items()}
    return node


def rw_rename(q, rng):
    vs = sorted(all_vars(q))
    style = rng.randrange(3)
    if style == 0:      # permutation of the names already used (most adversarial for sort tie-breaks)
        new = vs[:]
        rng.shuffle(new)
    elif style == 1:
        new = ["?v%d" % k for k in rng.sample(range(1, 30), len(vs))]
    else:
        pool = ["?A", "?B", "?aa", "?Z9", "?_u", "?o", "?s", "?p", "?graph", "?x1", "?y_"]
        new = rng.sample(pool, len(vs))
    m = dict(zip(vs, new))
    return _rename(q, m), {v: k for k, v in m.items()}


def rw_rename_local(q, rng):
    """inside each sub-SELECT rename the variables it does not project (they are local to it)"""
    q = _copy(q)
    counter = [0]

    def fn(n):
        if n.get("k") == "sub":
            sq = n["q"]
            if sq["proj"] is None and not sq["count"]:
                return
            exposed = set(select_columns(sq))
            local = sorted(all_vars(sq) - exposed)
            if not local:
                return
            m = {}
            for v in local:
                counter[0] += 1
                m[v] = "?loc%d" % counter[0]
            n["q"] = _rename(sq, m)
    _walk_groups(q, fn)
    return q


def apply_rewrite(q, kind, seed):
    """-> (q', colmap, spell_mode, spell_seed)"""
    rng = random.Random(seed)
    colmap, mode = {}, "e"
    if kind == "bgp_shuffle":
        q2 = rw_bgp_shuffle(q, rng)
    elif kind == "join_swap":
        q2 = rw_join_swap(q, rng)
    elif kind == "union_swap":
        q2 = rw_union_swap(q, rng)
    elif kind == "rename":
        q2, colmap = rw_rename(q, rng)
    elif kind == "rename_local":
        q2 = rw_rename_local(q, rng)
    elif kind == "spell":
        q2, mode = q, rng.choice([m for m in SPELL_MODES if m != "e"])
    elif kind == "mix":
        q2 = rw_union_swap(rw_join_swap(rw_bgp_shuffle(q, rng), rng), rng)
        q2, colmap = rw_rename(q2, rng)
        mode = rng.choice(SPELL_MODES)
    else:
        raise ValueError(kind)
    return q2, colmap, mode, rng.randrange(1 << 20)


# ---------------------------------------------------------------------------------------------
# evaluation on the implementation
# ---------------------------------------------------------------------------------------------

def _bind_ns(g):
    g.bind("e", URIRef(OTHER), override=True, replace=True)   # the query's own PREFIX e: must win
    g.bind("gn", URIRef(NS), override=True, replace=True)


def _member(i, ids):
    """member graph i of an aggregate: its own store (Memory / SimpleMemory in turn) and an identifier that
    other members may share (`Graph.__eq__` compares identifiers only)"""
    store = Memory() if i % 2 == 0 else SimpleMemory()
    if ids == "same_iri":
        return Graph(store=store, identifier=URIRef(NS + "part"))
    if ids == "same_bnode":
        return Graph(store=store, identifier=BNode("part"))
    if ids == "mixed":
        return Graph(store=store, identifier=[URIRef(NS + "part"), BNode("part"), URIRef(NS + "part")][i % 3])
    return Graph(store=store) if ids == "stores" else Graph()


def build(data, kind="mem", ds=False, split=None, order_seed=None, agg_ids="fresh"):
    """the same data in one of the configurations of the property"""
    rows = list(data)
    if order_seed is not None:
        random.Random(order_seed).shuffle(rows)
    if kind == "agg":
        k = 1 + max((max(m) if isinstance(m, list) else m) for m in split) if split else 2
        members = [_member(i, agg_ids) for i in range(max(k, 2))]
        for (s, p, o, _g), m in zip(data, split):
            for mm in (m if isinstance(m, list) else [m]):
                members[mm].add((TERMS[s], TERMS[p], TERMS[o]))
        agg = ReadOnlyGraphAggregate(members)
        return agg
    if kind == "mem":
        store = Memory()
    elif kind == "simple":
        store = SimpleMemory()
    elif kind == "aud":
        store = AuditableStore(Memory())
    else:
        raise ValueError(kind)
    if ds == "cg":
        g = ConjunctiveGraph(store=store)
        for s, p, o, c in rows:
            ctx = g.default_context if c == 0 else g.get_context(TERMS[GRAPH_IRI[c]])
            ctx.add((TERMS[s], TERMS[p], TERMS[o]))
    elif ds:
        g = Dataset(store=store)
        for s, p, o, c in rows:
            ctx = g.default_context if c == 0 else g.graph(TERMS[GRAPH_IRI[c]])
            ctx.add((TERMS[s], TERMS[p], TERMS[o]))
    else:
        g = Graph(store=store)
        for s, p, o, _c in rows:
            g.add((TERMS[s], TERMS[p], TERMS[o]))
    _bind_ns(g)
    return g


def refill(g, rows, ds):
    """replace the content of the graph OBJECT g by rows (same object, other data)"""
    if ds:
        for c in list(g.contexts()):
            c.remove((None, None, None))
        for s_, p_, o_, c in rows:
            ctx = g.default_context if c == 0 else g.graph(TERMS[GRAPH_IRI[c]])
            ctx.add((TERMS[s_], TERMS[p_], TERMS[o_]))
    else:
        g.remove((None, None, None))
        for s_, p_, o_, _c in rows:
            g.add((TERMS[s_], TERMS[p_], TERMS[o_]))


class _FlakyError(Exception):
    pass


class _Flaky(Graph):
    """a graph whose `triples` raises at its k-th call (an evaluation that stops with an error midway)"""

    def __init__(self, k):
        super().__init__()
        self._left = None
        self._k = k

    def arm(self):
        self._left = self._k

    def triples(self, triple):
        if self._left is not None:
            self._left -= 1
            if self._left < 0:
                raise _FlakyError()
        return super().triples(triple)

    def query(self, *a, **kw):
        self.arm()
        return super().query(*a, **kw)


def _term_ns(key, ns):
    t = TERMS[key]
    return URIRef(ns + key) if isinstance(t, URIRef) else t


def build_two_ns(data1, data2, ds, ux, ns1=NS):
    """one graph holding data1 under ns1 and data2 under NS2; its namespace manager binds `ux:` to `ux`"""
    g = Dataset() if ds else Graph()
    for data, ns in ((data1, ns1), (data2, NS2)):
        for s_, p_, o_, c in data:
            tr = (_term_ns(s_, ns), _term_ns(p_, ns), _term_ns(o_, ns))
            if ds:
                (g.default_context if c == 0 else g.graph(URIRef(ns + GRAPH_IRI[c]))).add(tr)
            else:
                g.add(tr)
    # the same prefix NAMES in every such graph (only what `ux:` stands for differs); no other prefix for NS / NS2,
    # which the one-to-one namespace manager would drop
    g.bind("e", URIRef(OTHER), override=True, replace=True)
    g.bind("ux", URIRef(ux), override=True, replace=True)
    return g


def _exc_name(e):
    n = type(e).__name__
    if n in ("IndexError", "KeyError", "ValueError", "TypeError", "ParseException", "AlreadyBound", "RecursionError"):
        return n
    return "Other:" + n + ":" + re.sub(r"0x[0-9a-fA-F]+", "0x", str(e))[:60]


def canon(res, colmap=None, ordered=False):
    colmap = colmap or {}
    cols = sorted(colmap.get("?" + str(v), "?" + str(v)) for v in (res.vars or []))
    rows = []
    for b in res.bindings:
        # (a GROUP BY key without value shows up as a None binding: unbound)
        rows.append(tuple(sorted((colmap.get("?" + str(k), "?" + str(k)), v.n3()) for k, v in b.items()
                                 if v is not None)))
    if not ordered:
        rows.sort()
    return ("ok", tuple(cols), tuple(rows))


def is_ordered(q):
    return bool(q["order"]) and set(v for _d, v in q["order"]) >= set(select_columns(q))


def evaluate(g, q, mode="e", seed=0, colmap=None, init=None, prepared=None, text=None, initNs=None):
    """one evaluation -> canonical result (errors are values)"""
    try:
        kw = {}
        if init:
            kw["initBindings"] = init
        if initNs is not None:
            kw["initNs"] = initNs
        if prepared is not None:
            res = g.query(prepared, **kw)
        elif text is not None:
            res = g.query(text, **kw)
        else:
            res = g.query(query_text(q, mode, seed), **kw)
        return canon(res, colmap, is_ordered(q))
    except core.CaseTimeout:
        raise
    except Exception as e:  # noqa: BLE001
        return ("err", _exc_name(e))


def _short(r):
    if r[0] == "err":
        return "error " + r[1]
    return "%d rows %s cols=%s" % (len(r[2]), list(r[2])[:4], list(r[1]))


def init_variant(q, v, t, where):
    q2 = _copy(q)
    els = q2["where"]["els"]
    vals = {"k": "values", "vs": [v], "rows": [[t]]}
    first = next((i for i, e in enumerate(els) if e["k"] == "bgp"), 0)
    pos = {"before": first, "after": first + 1, "end": len([e for e in els if e["k"] != "filter"])}[where]
    els.insert(pos, vals)
    return q2


def outer_bgp_vars(q):
    for e in q["where"]["els"]:
        if e["k"] == "bgp":
            out = set()
            for s, p, o in e["ts"]:
                out |= {x for x in (s, p, o) if is_var(x)}
            return out
        if e["k"] not in ("filter",):
            return set()   # the group does not start with a basic graph pattern
    return set()


def count_ops(node, acc):
    if isinstance(node, dict):
        if "k" in node:
            acc["op_" + node["k"]] = acc.get("op_" + node["k"], 0) + 1
        if node.get("distinct"):
            acc["op_distinct"] = acc.get("op_distinct", 0) + 1
        if node.get("order"):
            acc["op_orderby"] = acc.get("op_orderby", 0) + 1
        if node.get("count"):
            acc["op_groupcount"] = acc.get("op_groupcount", 0) + 1
        for v in node.values():
            count_ops(v, acc)
    elif isinstance(node, list):
        if node and isinstance(node[0], str) and node[0] in ("exists", "notexists"):
            acc["op_exists"] = acc.get("op_exists", 0) + 1
        if node and isinstance(node[0], str) and node[0] in ("/", "|", "^", "*", "+", "?") and len(node) <= 3 \
                and not is_var(node[1] if len(node) > 1 else "?"):
            acc["op_path"] = acc.get("op_path", 0) + 1
        for v in node:
            count_ops(v, acc)


def _run_iri(case):
    import urllib.parse as up
    from rdflib.plugins.sparql.sparql import Prologue
    viol, obs, stats = [], [], {"stream_iri": 1}
    for k, want in IRI_TABLES.items():
        if list(getattr(up, k)) != want:
            viol.append("tables: urllib.parse.%s is %r, the Lean model has %r" % (k, getattr(up, k), want))
    for b, rf, plain in case["pairs"]:
        pr = Prologue()
        pr.base = b
        try:
            direct = str(pr.absolutize(URIRef(rf)))
            obs.append("iri " + (",".join(str(ord(c)) for c in direct) or "-"))
        except Exception as e:  # noqa: BLE001
            direct = None
            obs.append("error " + _exc_name(e))
        stats["iri_pairs"] = stats.get("iri_pairs", 0) + 1
        stats["iri_plain" if plain else ("iri_with_colon" if ":" in rf else "iri_general")] = \
            stats.get("iri_plain" if plain else ("iri_with_colon" if ":" in rf else "iri_general"), 0) + 1
        if direct is not None and direct != rf and direct != b:
            stats["iri_resolved_differs"] = stats.get("iri_resolved_differs", 0) + 1
        # the whole pipeline: BASE declared in the query text, the reference as the object of a pattern
        if b and direct is not None:
            try:
                q = prepareQuery("BASE <%s> SELECT * WHERE { ?s ?p <%s> }" % (b, rf))
                got = str(q.algebra.p.p.triples[0][2])
                if got != direct:
                    viol.append("base-pipeline: BASE <%s> … <%s> is translated to <%s>, Prologue.absolutize gives <%s>"
                                % (b, rf, got, direct))
            except core.CaseTimeout:
                raise
            except Exception as e:  # noqa: BLE001
                viol.append("base-pipeline: BASE <%s> … <%s> raises %s" % (b, rf, _exc_name(e)))
        # `base_relative_is_concatenation`, asked of the implementation
        if plain and direct != b + rf:
            viol.append("base-plain: <%s> under BASE <%s> is <%s>, not the concatenation" % (rf, b, direct))
    return {"obs": obs, "viol": viol, "nontrivial": True, "key": repr(("iri", case["pairs"])), "stats": stats}


def run_impl(case):
    if case.get("stream") == "iri":
        return _run_iri(case)
    case = materialize(case)
    stream, q, data, ds = case["stream"], case["q"], case["data"], case.get("ds", False)
    seed = case.get("seed", 0)
    rng = random.Random(seed)
    viol, obs, stats = [], [], {"stream_" + stream: 1}
    count_ops(q, stats)
    compared = 0
    base_g = build(data, "mem", ds)
    ref = evaluate(base_g, q)
    if ref[0] == "err":
        stats["ref_error"] = 1
        stats["err_" + ref[1].split(":")[0]] = 1
    elif ref[2]:
        stats["ref_nonempty"] = 1
    else:
        stats["ref_empty"] = 1

    def check(tag, other, what):
        nonlocal compared
        compared += 1
        if other != ref:
            viol.append("%s: %s gives %s but the reference evaluation gives %s" % (tag, what, _short(other), _short(ref)))

    if stream == "rewrite":
        for kind, s in case["rw"]:
            q2, colmap, mode, sseed = apply_rewrite(q, kind, s)
            if q2 == q and mode == "e" and not colmap:
                stats["rw_noop_" + kind] = stats.get("rw_noop_" + kind, 0) + 1
                continue
            stats["rw_" + kind] = stats.get("rw_" + kind, 0) + 1
            r2 = evaluate(base_g, q2, mode, sseed, colmap)
            check("rewrite-" + kind, r2, "rewritten query [%s]" % query_text(q2, mode, sseed))

    elif stream == "init":
        cand = sorted(outer_bgp_vars(q) - subselect_vars(q))
        if case.get("init") and case["init"][0] in cand:
            v, t = case["init"]
            stats["init_applicable"] = 1
            key = rng.choice([v[1:], Variable(v[1:]), v])
            a = evaluate(base_g, q, init={key: TERMS[t]})
            for where in ("before", "after", "end"):
                b = evaluate(base_g, init_variant(q, v, t, where))
                compared += 1
                if a != b:
                    viol.append("init: initBindings {%s: %s} gives %s but VALUES (%s) placed %s the outermost BGP "
                                "gives %s" % (v, t, _short(a), v, where, _short(b)))
                    break
            if a[0] == "ok" and a[2]:
                stats["init_nonempty"] = 1
        else:
            stats["init_no_candidate"] = 1

    elif stream == "prepared":
        gA, gB = base_g, build(case["data2"], "mem", ds)
        text = query_text(q)
        fresh = {"A": ref, "B": evaluate(gB, q)}
        try:
            p = prepareQuery(text)
        except core.CaseTimeout:
            raise
        except Exception as e:  # noqa: BLE001
            p = None
            if ref[0] != "err":
                viol.append("prepared: prepareQuery raises %s but Graph.query(text) works" % _exc_name(e))
        if p is not None:
            sched = rng.choice([0, 1, 2, 3])
            stats["prep_sched_%d" % sched] = 1
            gs = {"A": gA, "B": gB}
            if sched == 1:      # leave a half-consumed result of the same prepared query alive
                try:
                    it = iter(gA.query(p))
                    next(it, None)
                    case_keepalive = it  # noqa: F841
                except core.CaseTimeout:
                    raise
                except Exception:  # noqa: BLE001
                    pass
            if sched == 2:
                # the same prepared object evaluated on two graphs and a second prepared object of the same
                # text on the first graph, all three consumed row by row in turn
                try:
                    p2 = prepareQuery(text)
                    its = [iter(gA.query(p)), iter(gB.query(p)), iter(gA.query(p2))]
                    got_rows = [[], [], []]
                    live = [True, True, True]
                    while any(live):
                        for j in range(3):
                            if live[j]:
                                try:
                                    got_rows[j].append(next(its[j]))
                                except StopIteration:
                                    live[j] = False
                    for nm, rr, gg in (("A", got_rows[0], gA), ("B", got_rows[1], gB), ("A", got_rows[2], gA)):
                        res = gg.query(p)   # only for the column names
                        got = ("ok", tuple(sorted("?" + str(v) for v in res.vars)),
                               tuple(sorted(tuple(sorted(("?" + str(k), v.n3()) for k, v in row.asdict().items()
                                                         if v is not None))
                                            for row in rr)))
                        want = fresh[nm]
                        if want[0] == "ok":   # Result.__iter__ skips rows without any binding
                            want = (want[0], want[1], tuple(sorted(r for r in want[2] if r)))
                        compared += 1
                        if got != want:
                            viol.append("prepared: interleaved evaluation on %s gives %s, fresh gives %s"
                                        % (nm, _short(got), _short(want)))
                except core.CaseTimeout:
                    raise
                except Exception as e:  # noqa: BLE001
                    if ref[0] == "ok" and fresh["B"][0] == "ok":
                        viol.append("prepared: interleaved evaluation raises %s" % _exc_name(e))
            if sched == 3:
                # an evaluation that raises midway: the graph's `triples` fails at its k-th call
                try:
                    flaky = _Flaky(rng.randint(1, 4))
                    for t in (gA if not ds else gA.default_context):
                        flaky.add(t)
                    _bind_ns(flaky)
                    for _row in flaky.query(p):
                        pass
                except _FlakyError:
                    stats["prep_midway_error"] = 1
                except core.CaseTimeout:
                    raise
                except Exception:  # noqa: BLE001
                    stats["prep_midway_other_error"] = 1
            init = None
            cand = sorted(outer_bgp_vars(q) - subselect_vars(q))
            if cand and rng.random() < 0.4:
                subs, _preds, objs = data_terms(data)
                init = {rng.choice(cand)[1:]: TERMS[rng.choice(subs + objs)]}   # a bnode value is fine here
                stats["prep_with_init"] = 1
            # the `base=` keyword varied between evaluations of the one prepared object; each answer against a
            # freshly prepared copy evaluated with the same keyword
            if has_kind(q, {"iri"}):
                stats["prep_base_varied"] = 1
                for k, b in enumerate(["http://a.example/", None, "http://b.example/dir/", "http://a.example/", None]):
                    kw = {"base": b} if b else {}
                    try:
                        got = canon(gA.query(p, **kw), None, is_ordered(q))
                    except core.CaseTimeout:
                        raise
                    except Exception as e:  # noqa: BLE001
                        got = ("err", _exc_name(e))
                    try:
                        want = canon(gA.query(prepareQuery(text), **kw), None, is_ordered(q))
                    except core.CaseTimeout:
                        raise
                    except Exception as e:  # noqa: BLE001
                        want = ("err", _exc_name(e))
                    compared += 1
                    if got != want:
                        viol.append("prepared-base: evaluation %d of the prepared query with base=%s gives %s, a freshly "
                                    "prepared copy evaluated the same way gives %s" % (k + 1, b, _short(got), _short(want)))
                        break
            for k, nm in enumerate(["A", "A", "A", "B", "A"]):
                if init is not None and k == 1:
                    got = evaluate(gs[nm], q, prepared=p, init=init)
                    want = evaluate(gs[nm], q, init=init)
                else:
                    got = evaluate(gs[nm], q, prepared=p)
                    want = fresh[nm]
                compared += 1
                if got != want:
                    viol.append("prepared: run %d of the prepared query (graph %s) gives %s, a freshly parsed one "
                                "gives %s" % (k + 1, nm, _short(got), _short(want)))
                    break
            # two evaluations of the same prepared object under different initBindings, and one of a second prepared
            # query, started one after the other and consumed alternately, one row at a time
            if not viol:
                bvars = sorted(v for v in all_vars(q) if not v.startswith("?b") and not v.startswith("?c"))
                subs_, _p, objs_ = data_terms(data)
                if len(bvars) >= 1:
                    va = rng.choice(bvars)
                    vb = rng.choice([v for v in bvars if v != va] or bvars)
                    iba = {va[1:]: TERMS[rng.choice(subs_ + objs_)]}
                    ibb = {vb[1:]: TERMS[rng.choice(subs_ + objs_)]}
                    q3 = rw_rename(q, rng)[0] if rng.random() < 0.5 else q
                    q3map = None
                    try:
                        p3 = prepareQuery(query_text(q3, "full"))
                        runs = [(p, iba, "initBindings %s" % iba), (p, ibb, "initBindings %s" % ibb), (p3, None, "other query")]
                        its, rows_, live = [], [[], [], []], [True, True, True]
                        for j, (pq, ib, _w) in enumerate(runs):     # start each, take one row
                            its.append(iter(gA.query(pq, initBindings=ib) if ib else gA.query(pq)))
                            try:
                                rows_[j].append(next(its[j]))
                            except StopIteration:
                                live[j] = False
                        while any(live):
                            for j in range(3):
                                if live[j]:
                                    try:
                                        rows_[j].append(next(its[j]))
                                    except StopIteration:
                                        live[j] = False
                        stats["prep_interleaved_init"] = 1
                        for j, (pq, ib, what) in enumerate(runs[:2]):
                            got = tuple(sorted(tuple(sorted(("?" + str(k), v.n3()) for k, v in row.asdict().items()
                                                            if v is not None)) for row in rows_[j]))
                            want = evaluate(gA, q, init=ib)
                            compared += 1
                            if want[0] != "ok":
                                continue
                            w = tuple(sorted(r for r in want[2] if r))
                            if got != w:
                                viol.append("prepared-interleaved: the prepared query with %s, consumed alternately with "
                                            "another evaluation of it, gives %d rows %s; a fresh parse gives %d rows %s"
                                            % (what, len(got), list(got)[:3], len(w), list(w)[:3]))
                                break
                    except core.CaseTimeout:
                        raise
                    except Exception as e:  # noqa: BLE001
                        a_ = evaluate(gA, q, init=iba)
                        b_ = evaluate(gA, q, init=ibb)
                        if a_[0] == "ok" and b_[0] == "ok" and ref[0] == "ok":
                            viol.append("prepared-interleaved: alternate consumption raises %s" % _exc_name(e))
            # the same graph OBJECT with other data, and other initBindings from one run to the next
            qvars = sorted(all_vars(q))
            subs, _preds, objs = data_terms(data + case["data2"])
            for rnd in range(2):
                if viol:
                    break
                pool = data + case["data2"]
                rows = rng.sample(pool, max(1, len(pool) // 2))
                refill(gA, rows, ds)
                stats["prep_mutated_graph"] = stats.get("prep_mutated_graph", 0) + 1
                inits = [None]
                if qvars:
                    v = rng.choice(qvars)
                    inits = [{v[1:]: TERMS[t]} for t in rng.sample(subs + objs, min(2, len(subs + objs)))] + [None]
                    stats["prep_changing_init"] = stats.get("prep_changing_init", 0) + 1
                for ib in inits:
                    got = evaluate(gA, q, prepared=p, init=ib)
                    want = evaluate(gA, q, init=ib)
                    compared += 1
                    if got != want:
                        viol.append("prepared-mutated: after the graph object got other data (round %d), initBindings "
                                    "%s: the prepared query gives %s, a freshly parsed one gives %s"
                                    % (rnd + 1, ib, _short(got), _short(want)))
                        break

    elif stream == "store":
        split = case["split"]
        overlapping = any(isinstance(m, list) for m in split)
        if ds:
            refc = evaluate(build(data, "mem", "cg"), q)
            other = evaluate(build(data, "aud", "cg", order_seed=seed), q)
            compared += 1
            if other != refc:
                viol.append("store-aud: ConjunctiveGraph over AuditableStore(Memory) gives %s, over Memory %s"
                            % (_short(other), _short(refc)))
            other = evaluate(build(data, "mem", True, order_seed=seed + 1), q)
            check("store-order", other, "the same Dataset filled in another order")
        else:
            check("store-simple", evaluate(build(data, "simple", order_seed=seed), q), "Graph(store=SimpleMemory())")
            check("store-aud", evaluate(build(data, "aud", order_seed=seed + 1), q), "Graph over AuditableStore(Memory())")
            check("store-order", evaluate(build(data, "mem", order_seed=seed + 2), q), "Memory filled in another order")
            tag = "store-aggov" if overlapping else "store-agg"
            stats["agg_overlapping" if overlapping else "agg_disjoint"] = 1
            check(tag, evaluate(build(data, "agg", split=split), q),
                  "ReadOnlyGraphAggregate of %s members" % ("overlapping" if overlapping else "disjoint"))
            # members living in different stores, carrying the same graph name or not
            for ids in rng.sample(["stores", "same_iri", "same_bnode", "mixed"], 2):
                stats["agg_ids_" + ids] = stats.get("agg_ids_" + ids, 0) + 1
                check(tag + "-" + ids, evaluate(build(data, "agg", split=split, agg_ids=ids), q),
                      "ReadOnlyGraphAggregate of %s members in different stores (identifiers: %s)"
                      % ("overlapping" if overlapping else "disjoint", ids))

    elif stream == "bgp":
        vs = frag_vars(q)
        init = case.get("init")
        ib = {init[0][1:]: TERMS[init[1]]} if init else None
        split = case["split"]
        overlapping = any(isinstance(m, list) for m in split)
        stats["agg_overlapping" if overlapping else "agg_disjoint"] = 1
        stats["agg_ids_" + case.get("agg_ids", "fresh")] = 1
        for kind in ("mem", "simple", "aud", "agg"):
            r = evaluate(build(data, kind, split=split, order_seed=seed, agg_ids=case.get("agg_ids", "fresh")), q,
                         init=ib)
            for _ in range(3 if kind == "mem" else 1):
                obs.append(rows_line(r, vs))
            if kind != "mem":
                compared += 1
                if r != evaluate(base_g, q, init=ib):
                    viol.append("store-%s: BGP over %s differs from Memory"
                                % ("aggov" if kind == "agg" and overlapping else kind, kind))
        if ib and init[0] in vs:
            qv = init_variant(q, init[0], init[1], "after")
            b = evaluate(base_g, qv)
            a = evaluate(base_g, q, init=ib)
            compared += 1
            if a != b:
                viol.append("init: BGP with initBindings gives %s, with VALUES %s" % (_short(a), _short(b)))

    elif stream == "frag":
        vs = frag_vars(q)
        gB = build(case["data2"], "mem", False)
        text = query_text(q)
        p = prepareQuery(text)
        fresh = {"A": ref, "B": evaluate(gB, q)}
        gs = {"A": base_g, "B": gB}
        for nm in ["A", "A", "B", "A"]:
            r = evaluate(gs[nm], q, prepared=p)
            obs.append(rows_line(r, vs))
            compared += 1
            if r != fresh[nm]:
                viol.append("prepared: prepared fragment query on %s gives %s, fresh gives %s"
                            % (nm, _short(r), _short(fresh[nm])))

    elif stream == "td":
        vs = VARS[: case["nvars"]]
        inits = case.get("inits") or []
        ib = {v[1:]: TERMS[t] for v, t in inits} or None
        a = evaluate(base_g, q, init=ib)
        obs.append(rows_line(a, vs))
        stats["td_with_init" if ib else "td_no_init"] = 1
        if a[0] == "ok" and a[2]:
            stats["td_nonempty"] = 1
        if a[0] == "err":
            stats["td_error"] = 1
        # the same data behind another store (`td_store_irrelevant`)
        if q["proj"] is None:
            # `SELECT *` against the same variables written out (`_findVars` + the projections of first-level
            # sub-selects): another way of writing the query; the rows (bound items) must be the same
            q4 = _copy(q)
            q4["proj"] = list(case["star"])
            if q4["proj"]:
                d4 = evaluate(base_g, q4, init=ib)
                compared += 1
                stats["td_star_vs_explicit"] = 1
                if (a[0], a[2:]) != (d4[0], d4[2:]):
                    viol.append("td-star: SELECT * gives %s, SELECT %s gives %s [%s]"
                                % (_short(a), " ".join(q4["proj"]), _short(d4), query_text(q)))
        if not ds:      # (a Dataset needs a graph-aware store: Memory only)
            kind = rng.choice(["aud", "simple"])
            c2 = evaluate(build(data, kind, ds, order_seed=seed), q, init=ib)
            compared += 1
            if c2 != a:
                viol.append("store-%s: the top-down fragment query over %s gives %s, over Memory %s"
                            % (kind, kind, _short(c2), _short(a)))
        if case.get("tails"):
            # the VALUES form (row at the end of the group, no initBindings): `initbindings_values_td`
            qv = _copy(q)
            qv["where"]["els"].append({"k": "values", "vs": [v for v, _t in inits], "rows": [[t for _v, t in inits]]})
            bv = evaluate(base_g, qv)
            obs.append(rows_line(bv, vs))
            outer = all_vars(q["where"]["els"][0])
            ok = all(v in outer for v, _t in inits)
            stats["td_tails_side_condition_" + ("met" if ok else "unmet")] = 1
            stats["td_tails_unions_%d" % min(2, sum(1 for e in q["where"]["els"] if e["k"] == "union"))] = 1
            compared += 1
            if ok and a != bv:
                viol.append("init: initBindings %s give %s, the VALUES row at the end of the group gives %s"
                            % (inits, _short(a), _short(bv)))
            if a != bv:
                stats["td_tails_init_differs_from_values"] = 1
        # the same query with every BGP shuffled and the variables renamed consistently, same initBindings
        # (renamed): the theorems `td_bgp_reorder` / `td_rename_equivariant`, asked of the implementation
        q2, colmap, mode, sseed = apply_rewrite(q, "bgp_shuffle", seed)
        q3, colmap3, mode3, sseed3 = apply_rewrite(q2, "rename", seed + 1)
        inv = {v: k for k, v in (colmap3 or {}).items()}
        ib3 = {inv.get(v, v)[1:]: TERMS[t] for v, t in inits} or None
        b = evaluate(base_g, q3, mode3, sseed3, colmap3, init=ib3)
        compared += 1
        if a != b:
            viol.append("td-rewrite: BGPs shuffled and variables renamed [%s] with initBindings %s gives %s, the "
                        "query as written with %s gives %s" % (query_text(q3, mode3, sseed3), ib3, _short(b), ib, _short(a)))

    elif stream == "nsctx":
        # the text uses `ux:` without declaring it; the SAME text is evaluated, as a string, against graphs /
        # initNs that give `ux:` different namespaces, one after the other in this process.  Each answer must
        # be the answer of the query with every IRI written out in full.
        text = query_text(q, "ctx")
        full = {NS: query_text(q, "full", ns=NS), NS2: query_text(q, "full", ns=NS2)}
        gA = build_two_ns(data, case["data2"], ds, NS)
        gB = build_two_ns(data, case["data2"], ds, NS2)
        gs = {"A": gA, "B": gB}
        bound = {"A": NS, "B": NS2}
        steps = [("A", None), ("B", None), ("A", None)]
        extra = [("A", NS2), ("B", NS), ("rebindA", None), ("A", None), ("prepB", None), ("B", None)]
        rng.shuffle(extra)
        steps += extra[: rng.randint(2, 4)]
        # always: the prefix re-bound by one of the routes users have, then the same text on the same Graph object
        steps.insert(rng.randint(3, len(steps)), ("rebindA", None))
        steps.append(("A", None))
        wants = {}      # the expanded query's answer depends on the graph and the namespace only
        for k, (who, ins) in enumerate(steps):
            if who == "rebindA":      # the same graph re-binds the prefix
                bound["A"] = NS2 if bound["A"] == NS else NS
                route = rng.choice(["bind", "manager", "other_graph", "store"])
                if route == "bind":
                    gA.bind("ux", URIRef(bound["A"]), override=True, replace=True)
                elif route == "manager":
                    gA.namespace_manager.bind("ux", URIRef(bound["A"]), override=True, replace=True)
                elif route == "other_graph":     # another Graph object over the same store
                    Graph(store=gA.store, identifier=URIRef(OTHER + "view")).bind("ux", URIRef(bound["A"]), override=True,
                                                                                  replace=True)
                else:
                    gA.store.bind("ux", URIRef(bound["A"]), override=True)
                stats["ns_rebind_" + route] = stats.get("ns_rebind_" + route, 0) + 1
                continue
            if who == "prepB":        # a prepared query carries the namespaces it was prepared with
                try:
                    pq = prepareQuery(text, initNs={"ux": URIRef(NS)})
                    got, ns = evaluate(gB, q, prepared=pq), NS
                except core.CaseTimeout:
                    raise
                except Exception as e:  # noqa: BLE001
                    got, ns = ("err", _exc_name(e)), NS
                g = gB
                how = "prepareQuery(text, initNs={ux: ns}) on graph B"
            else:
                g = gs[who]
                ns = ins or bound[who]
                got = evaluate(g, q, text=text, initNs=({"ux": URIRef(ins)} if ins else None))
                how = "Graph.query(text%s) on graph %s" % (", initNs={ux: %s}" % ins if ins else "", who)
            if (id(g), ns) not in wants:
                wants[(id(g), ns)] = evaluate(g, q, text=full[ns])
            want = wants[(id(g), ns)]
            compared += 1
            stats["ns_steps"] = stats.get("ns_steps", 0) + 1
            if want[0] == "ok" and want[2]:
                stats["ns_want_nonempty"] = stats.get("ns_want_nonempty", 0) + 1
            if got != want:
                viol.append("nsctx: step %d, %s with ux: = <%s> gives %s but the fully expanded query gives %s"
                            % (k + 1, how, ns, _short(got), _short(want)))
                break

        # An earlier query of this process DECLARES a prefix name - one rdflib binds by default (rdf, rdfs, owl, xsd)
        # or a name nobody binds - for another namespace; later queries use the name without declaring it, through
        # prepareQuery / Graph.query(text, initNs=…): they must still mean the default namespace (or fail as before).
        if not viol:
            pn, nsd = rng.choice([("rdfs", "http://www.w3.org/2000/01/rdf-schema#"), ("owl", "http://www.w3.org/2002/07/owl#"),
                                  ("rdf", "http://www.w3.org/1999/02/22-rdf-syntax-ns#"), ("qq", None)])
            # (not xsd: the text declares XSD: for that namespace, and the one-to-one namespace manager of the
            #  prologue then forgets the default name xsd - a convenience outside the property)
            gD = build_two_ns(data if nsd else [], case["data2"], ds, NS, ns1=nsd or NS)
            text_d = query_text(q, "ctx", pfx=pn)
            uses_prefix = (pn + ":") in text_d.split("WHERE", 1)[-1]
            if nsd:
                want_d = evaluate(gD, q, text=query_text(q, "full", ns=nsd))
            else:
                want_d = evaluate(gD, q, text=text_d, initNs={"ex": URIRef("http://ex/")})   # fails: unknown prefix
            other = {"ex": URIRef("http://ex/")}

            def ask(way):
                try:
                    if way == "prepare":
                        return evaluate(gD, q, prepared=prepareQuery(text_d))
                    if way == "prepare+initNs":
                        return evaluate(gD, q, prepared=prepareQuery(text_d, initNs=other))
                    return evaluate(gD, q, text=text_d, initNs=other)
                except core.CaseTimeout:
                    raise
                except Exception as e:  # noqa: BLE001
                    return ("err", _exc_name(e))
            ways = ["prepare", "prepare+initNs", "query+initNs"]
            stats["ns_default_prefix_" + pn] = 1
            for phase in ("before", "after"):
                for way in ways:
                    got = ask(way)
                    compared += 1
                    if got != want_d and not viol:
                        viol.append("nsctx-default: %s another query declared PREFIX %s: <%s>, %s of the text using %s: "
                                    "undeclared gives %s, expected %s" % (phase, pn, NS2, way, pn, _short(got), _short(want_d)))
                if viol:
                    break
                if phase == "before":       # the polluter: the same text, with its own meaning of the prefix
                    got = evaluate(gD, q, text=query_text(q, "ctx", pfx=pn, declare=NS2))
                    want2 = evaluate(gD, q, text=full[NS2])
                    compared += 1
                    if got != want2:
                        viol.append("nsctx-default: the query declaring PREFIX %s: <%s> itself gives %s, expanded %s"
                                    % (pn, NS2, _short(got), _short(want2)))
                        break
            if uses_prefix:
                stats["ns_default_prefix_used"] = 1

    elif stream == "sel":
        vs = VARS[: case["nvars"]]
        inits = case["inits"]
        ib = {v[1:]: TERMS[t] for v, t in inits}
        a = evaluate(base_g, q, init=ib)
        qv = _copy(q)
        els = qv["where"]["els"]
        npat = len([e for e in els if e["k"] != "filter"])
        els.insert(npat, {"k": "values", "vs": [v for v, _t in inits], "rows": [[t for _v, t in inits]]})
        b = evaluate(base_g, qv)
        obs += [rows_line(a, vs), rows_line(b, vs)]
        sub = next((e for e in q["where"]["els"] if e["k"] == "sub"), None)
        outer = all_vars(q["where"]["els"][0])
        ok = all(v in outer for v, _t in inits) and (sub is None or not (set(v for v, _t in inits) & all_vars(sub)))
        stats["sel_side_condition_" + ("met" if ok else "unmet")] = 1
        if sub is not None:
            stats["sel_with_subselect"] = 1
        compared += 1
        if ok and a != b:
            viol.append("init: initBindings %s give %s, the VALUES row gives %s" % (inits, _short(a), _short(b)))
        if a != b:
            stats["sel_init_differs_from_values"] = 1

    nontrivial = ref[0] == "ok" and bool(ref[2]) and compared > 0
    stats["comparisons"] = compared
    return {"obs": obs, "viol": viol, "nontrivial": nontrivial,
            "key": repr((stream, data, q, case.get("rw"), case.get("init"), case.get("inits"), case.get("split"))),
            "stats": stats}


# ---------------------------------------------------------------------------------------------
# model side (bgp and frag streams)
# ---------------------------------------------------------------------------------------------

def frag_vars(q):
    return sorted(all_vars(q))


def rows_line(r, vs):
    """canonical bag of rows over the variable list vs, in term numbers (same format as the driver)"""
    if r[0] == "err":
        return "error " + r[1]
    rows = []
    for row in r[2]:
        d = dict(row)
        # (a term the data does not contain — e.g. the name of the default graph — is 0: never a model term)
        rows.append(",".join(str(N3_NUM.get(d[v], 0)) if v in d else "-" for v in vs))
    return "rows " + " ".join(sorted(rows))


def _pt(t, vs):
    return "?%d" % vs.index(t) if is_var(t) else str(TERM_NUM[t])


def _expr_tokens(e, vs):
    k = e[0]
    if k == "sameTerm":
        return ["same", _pt(e[1], vs), _pt(e[2], vs)]
    if k == "bound":
        return ["bound", _pt(e[1], vs)]
    if k == "!":
        return ["not"] + _expr_tokens(e[1], vs)
    if k == "&&":
        return ["and"] + _expr_tokens(e[1], vs) + _expr_tokens(e[2], vs)
    if k == "||":
        return ["or"] + _expr_tokens(e[1], vs) + _expr_tokens(e[2], vs)
    raise ValueError(k)


def _group_tokens(g, vs):
    """the algebra rdflib builds for a fragment group: left-deep joins, adjacent BGPs merged, filter outermost"""
    parts, filt = [], None
    for e in g["els"]:
        k = e["k"]
        if k == "bgp":
            if parts and parts[-1][0] == "bgp":
                parts[-1] = ("bgp", parts[-1][1] + e["ts"])
            else:
                parts.append(("bgp", list(e["ts"])))
        elif k == "grp":
            parts.append(("q", _group_tokens(e["g"], vs)))
        elif k == "union":
            toks = _group_tokens(e["gs"][0], vs)
            for b in e["gs"][1:]:
                toks = ["union"] + toks + _group_tokens(b, vs)
            parts.append(("q", toks))
        elif k == "filter":
            filt = _expr_tokens(e["e"], vs) if filt is None else ["and"] + filt + _expr_tokens(e["e"], vs)
        else:
            raise ValueError(k)

    def ptoks(p):
        if p[0] == "bgp":
            out = ["bgp", str(len(p[1]))]
            for s, pp, o in p[1]:
                out += [_pt(s, vs), _pt(pp, vs), _pt(o, vs)]
            return out
        return p[1]
    toks = ptoks(parts[0])
    for p in parts[1:]:
        toks = ["join"] + toks + ptoks(p)
    if filt is not None:
        toks = ["filter"] + filt + toks
    return toks


def _td_alg(g):
    """the algebra rdflib builds for a group (translateGroupGraphPattern, then simplify), as nested tuples:
    FILTERs collected first, adjacent triple blocks merged, left-deep from an empty BGP, joins with an empty BGP
    dropped"""
    filt = None
    parts = []
    for e in g["els"]:
        k = e["k"]
        if k == "filter":
            filt = e["e"] if filt is None else ["&&", filt, e["e"]]
        elif k == "bgp" and parts and parts[-1]["k"] == "bgp":
            parts[-1] = {"k": "bgp", "ts": parts[-1]["ts"] + e["ts"]}
        else:
            parts.append(e)

    def join(a, b):
        if a[0] == "bgp" and not a[1]:
            return b
        if b[0] == "bgp" and not b[1]:
            return a
        return ("join", a, b)
    G = ("bgp", [])
    for e in parts:
        k = e["k"]
        if k == "bgp":
            G = join(G, ("bgp", list(e["ts"])))
        elif k == "optional":
            A = _td_alg(e["g"])
            G = ("ljoin", A[1], G, A[2]) if A[0] == "filter" else ("ljoin", None, G, A)
        elif k == "minus":
            G = ("minus", G, _td_alg(e["g"]))
        elif k == "grp":
            G = join(G, _td_alg(e["g"]))
        elif k == "union":
            U = _td_alg(e["gs"][0])
            for b in e["gs"][1:]:
                U = ("union", U, _td_alg(b))
            G = join(G, U)
        elif k == "graph":
            G = join(G, ("graph", e["t"], _td_alg(e["g"])))
        elif k == "values":
            G = join(G, ("values", e["vs"], e["rows"]))
        elif k == "bind":
            G = ("extend", e["v"], e["e"], G)
        elif k == "sub":        # ToMultiSet(Project(M, PV)); no modifiers in this fragment
            sq = e["q"]
            pv = list(sq["proj"]) if sq["proj"] is not None else sorted(td_star_vars(sq["where"]))
            G = join(G, ("sub", pv, _td_alg(sq["where"])))
        else:
            raise ValueError(k)
    if filt is not None:
        G = ("filter", filt, G)
    return G


def _td_tokens(a, vs):
    k = a[0]
    if k == "bgp":
        out = ["bgp", str(len(a[1]))]
        for s, p, o in a[1]:
            out += [_pt(s, vs), _pt(p, vs), _pt(o, vs)]
        return out
    if k in ("join", "union", "minus"):
        return [k] + _td_tokens(a[1], vs) + _td_tokens(a[2], vs)
    if k == "ljoin":
        return ["ljoin"] + (["none"] if a[1] is None else ["e"] + _expr_tokens(a[1], vs)) \
            + _td_tokens(a[2], vs) + _td_tokens(a[3], vs)
    if k == "filter":
        return ["filter"] + _expr_tokens(a[1], vs) + _td_tokens(a[2], vs)
    if k == "extend":
        return ["extend", _pt(a[1], vs), _pt(a[2], vs)] + _td_tokens(a[3], vs)
    if k == "graph":
        return ["graph", _pt(a[1], vs)] + _td_tokens(a[2], vs)
    if k == "sub":
        return ["sub", str(len(a[1]))] + [str(vs.index(v)) for v in a[1]] + _td_tokens(a[2], vs)
    if k == "values":
        out = ["values", str(len(a[2]))]
        for r in a[2]:
            d = dict(zip(a[1], r))
            out += [("-" if d.get(v) is None else str(TERM_NUM[d[v]])) for v in vs]
        return out
    raise ValueError(k)


def model_lines(case):
    stream = case["stream"]
    if "lazy" in case:
        return []
    if stream == "iri":
        cp = lambda t: ",".join(str(ord(c)) for c in t) or "-"      # noqa: E731
        return ["abs %s %s" % (cp(b), cp(rf)) for b, rf, _plain in case["pairs"]]
    if stream == "td":
        q, data = case["q"], case["data"]
        vs = VARS[: case["nvars"]]
        lits = [TERM_NUM[k] for k in LITS]
        lines = ["reset %d %d %d" % (len(vs), min(lits), max(lits))]
        for s, p, o, c in data:
            lines.append("quad %d %d %d %d" % (TERM_NUM[s], TERM_NUM[p], TERM_NUM[o],
                                               TERM_NUM[GRAPH_IRI[c]] if (c and case.get("ds")) else 0))
        lines.append("p " + " ".join(_td_tokens(_td_alg(q["where"]), vs)))
        for v, t in case.get("inits") or []:
            lines.append("init %d %d" % (vs.index(v), TERM_NUM[t]))
        pv = case["star"] if q["proj"] is None else q["proj"]
        lines.append("evaltd %d %s" % (len(pv), " ".join(str(vs.index(v)) for v in pv)))
        if case.get("tails"):
            inits = case["inits"]
            qv = _copy(q)
            qv["where"]["els"].append({"k": "values", "vs": [v for v, _t in inits], "rows": [[t for _v, t in inits]]})
            lines += ["noinit", "p " + " ".join(_td_tokens(_td_alg(qv["where"]), vs)),
                      "evaltd %d %s" % (len(pv), " ".join(str(vs.index(v)) for v in pv))]
        return lines
    if stream not in ("bgp", "frag", "sel"):
        return []
    q, data = case["q"], case["data"]
    vs = VARS[: case["nvars"]] if stream == "sel" else frag_vars(q)
    lits = [TERM_NUM[k] for k in LITS]
    lines = ["reset %d %d %d" % (len(vs), min(lits), max(lits))]
    if stream == "bgp":
        split = case["split"]
        for (s, p, o, _g), m in zip(data, split):
            ms = m if isinstance(m, list) else [m]
            lines.append("t A %d %d %d %s" % (TERM_NUM[s], TERM_NUM[p], TERM_NUM[o], ",".join(map(str, ms))))
        ts = q["where"]["els"][0]["ts"]
        lines.append("bgp " + " ".join("%s %s %s" % (_pt(s, vs), _pt(p, vs), _pt(o, vs)) for s, p, o in ts))
        init = case.get("init")
        if init:
            lines.append("init %d %d" % (vs.index(init[0]), TERM_NUM[init[1]]))
        perm = list(range(len(ts)))
        random.Random(case.get("seed", 0)).shuffle(perm)
        lines += ["store mem", "eval given", "eval perm " + ",".join(map(str, perm)), "eval plan",
                  "store simple", "eval plan", "store aud", "eval plan", "store agg", "eval plan"]
        return lines
    for s, p, o, _g in data:
        lines.append("t A %d %d %d 0" % (TERM_NUM[s], TERM_NUM[p], TERM_NUM[o]))
    if stream == "sel":
        def tps(ts):
            out = [str(len(ts))]
            for a, b, c in ts:
                out += [_pt(a, vs), _pt(b, vs), _pt(c, vs)]
            return out
        els = q["where"]["els"]
        toks = ["sel"] + tps(els[0]["ts"])
        sub = next((e for e in els if e["k"] == "sub"), None)
        if sub is None:
            toks.append("nosub")
        else:
            sq = sub["q"]
            toks += ["sub", str(len(sq["proj"]))] + [str(vs.index(v)) for v in sq["proj"]] \
                + tps(sq["where"]["els"][0]["ts"])
        filt = next((e for e in els if e["k"] == "filter"), None)
        toks += ["nofilt"] if filt is None else ["filt"] + _expr_tokens(filt["e"], vs)
        toks += ["star"] if q["proj"] is None else ["proj", str(len(q["proj"]))] + [str(vs.index(v)) for v in q["proj"]]
        lines.append(" ".join(toks))
        for v, t in case["inits"]:
            lines.append("init %d %d" % (vs.index(v), TERM_NUM[t]))
        lines += ["store mem", "evalinit", "evalvalues"]
        return lines
    for s, p, o, _g in case["data2"]:
        lines.append("t B %d %d %d 0" % (TERM_NUM[s], TERM_NUM[p], TERM_NUM[o]))
    toks = _group_tokens(q["where"], vs)
    if q["proj"] is not None:
        toks = ["proj", str(len(q["proj"]))] + [str(vs.index(v)) for v in q["proj"]] + toks
    lines.append("q " + " ".join(toks))
    lines += ["use A", "run", "run", "use B", "run", "use A", "run"]
    return lines


def select_model_obs(case, out):
    return [l for l in out if l.startswith("rows") or l.startswith("error") or l.startswith("bad-op") or l.startswith("iri")]


# ---------------------------------------------------------------------------------------------
# shrinking and matchers
# ---------------------------------------------------------------------------------------------

def _shrink_group(g):
    els = g["els"]
    for i in range(len(els)):
        if len(els) > 1:
            yield {"k": "group", "els": els[:i] + els[i + 1:]}
    for i, e in enumerate(els):
        k = e["k"]

        def put(ne, i=i):
            return {"k": "group", "els": els[:i] + [ne] + els[i + 1:]}
        if k == "bgp" and len(e["ts"]) > 1:
            for j in range(len(e["ts"])):
                yield put({"k": "bgp", "ts": e["ts"][:j] + e["ts"][j + 1:]})
        if k == "bgp":
            for j, t in enumerate(e["ts"]):
                if isinstance(t[1], list):
                    yield put({"k": "bgp", "ts": e["ts"][:j] + [[t[0], t[1][1], t[2]]] + e["ts"][j + 1:]})
        if k in ("grp", "optional", "minus", "graph"):
            for sg in _shrink_group(e["g"]):
                yield put({**e, "g": sg})
            if k == "grp":
                yield {"k": "group", "els": els[:i] + e["g"]["els"] + els[i + 1:]}
        if k == "union":
            if len(e["gs"]) > 2:
                for j in range(len(e["gs"])):
                    yield put({"k": "union", "gs": e["gs"][:j] + e["gs"][j + 1:]})
            for j, b in enumerate(e["gs"]):
                yield put({"k": "grp", "g": b})
                for sb in _shrink_group(b):
                    yield put({"k": "union", "gs": e["gs"][:j] + [sb] + e["gs"][j + 1:]})
        if k == "sub":
            for sq in _shrink_select(e["q"]):
                yield put({"k": "sub", "q": sq})
        if k == "values" and len(e["rows"]) > 1:
            for j in range(len(e["rows"])):
                yield put({**e, "rows": e["rows"][:j] + e["rows"][j + 1:]})
        if k == "filter":
            ex = e["e"]
            if isinstance(ex, list) and ex[0] in ("&&", "||"):
                yield put({"k": "filter", "e": ex[1]})
                yield put({"k": "filter", "e": ex[2]})
            if isinstance(ex, list) and ex[0] == "!":
                yield put({"k": "filter", "e": ex[1]})
            if isinstance(ex, list) and ex[0] in ("exists", "notexists"):
                for sg in _shrink_group(ex[1]):
                    yield put({"k": "filter", "e": [ex[0], sg]})


def _shrink_select(q):
    if q["distinct"]:
        yield {**q, "distinct": False}
    if q["order"]:
        yield {**q, "order": None}
    if q["count"]:
        yield {**q, "count": None, "group": None, "proj": q["proj"] or None}
    if q["proj"] is not None and not q["count"]:
        yield {**q, "proj": None}
        if len(q["proj"]) > 1:
            for j in range(len(q["proj"])):
                yield {**q, "proj": q["proj"][:j] + q["proj"][j + 1:]}
    for w in _shrink_group(q["where"]):
        if w["els"]:
            yield {**q, "where": w}


def shrink(case):
    if "lazy" in case:
        yield materialize(case)
        return
    if case["stream"] == "iri":
        ps = case["pairs"]
        for i in range(len(ps)):
            if len(ps) > 1:
                yield {**case, "pairs": ps[:i] + ps[i + 1:]}
        return
    if case["stream"] == "sel":     # keep the shape `BGP [sub-select] [filter]` and at least one binding
        data = case["data"]
        for i in range(len(data)):
            yield {**case, "data": data[:i] + data[i + 1:]}
        if len(case["inits"]) > 1:
            for i in range(len(case["inits"])):
                yield {**case, "inits": case["inits"][:i] + case["inits"][i + 1:]}
        els = case["q"]["where"]["els"]
        for i in range(1, len(els)):
            yield {**case, "q": {**case["q"], "where": {"k": "group", "els": els[:i] + els[i + 1:]}}}
        if case["q"]["proj"] is not None:
            yield {**case, "q": {**case["q"], "proj": None}}
        ts = els[0]["ts"]
        if len(ts) > 1:
            for i in range(len(ts)):
                yield {**case, "q": {**case["q"], "where": {"k": "group", "els": [{"k": "bgp", "ts": ts[:i] + ts[i + 1:]}] + els[1:]}}}
        return
    data = case["data"]
    for i in range(len(data)):
        c = {**case, "data": data[:i] + data[i + 1:]}
        if "split" in case:
            c["split"] = case["split"][:i] + case["split"][i + 1:]
        yield c
    if case.get("data2"):
        d2 = case["data2"]
        for i in range(len(d2)):
            yield {**case, "data2": d2[:i] + d2[i + 1:]}
    if case.get("rw") and len(case["rw"]) > 1:
        for i in range(len(case["rw"])):
            yield {**case, "rw": [case["rw"][i]]}
    if case.get("ds") and not has_kind(case["q"], {"graph"}):
        yield {**case, "ds": False, "data": [t[:3] + [0] for t in data]}
    for q in _shrink_select(case["q"]):
        yield {**case, "q": q}
    if "split" in case and any(isinstance(m, list) for m in case["split"]):
        for i, m in enumerate(case["split"]):
            if isinstance(m, list):
                yield {**case, "split": case["split"][:i] + [m[0]] + case["split"][i + 1:]}


def _tags(result):
    return {v.split(":")[0] for v in result["viol"]}


def _has_zero_mod(p_):
    return isinstance(p_, list) and (p_[0] in ("*", "?") or any(_has_zero_mod(x) for x in p_[1:]))


def _zero_path_end_vars(node):
    """variables at an end of a triple pattern whose predicate is `p*` or `p?`"""
    out = set()
    if isinstance(node, dict):
        if node.get("k") == "bgp":
            for s_, p_, o_ in node["ts"]:
                if isinstance(p_, list) and _has_zero_mod(p_):
                    out |= {x for x in (s_, o_) if is_var(x)}
        for v in node.values():
            out |= _zero_path_end_vars(v)
    elif isinstance(node, list):
        for v in node:
            out |= _zero_path_end_vars(v)
    return out


def _prebindable_nonnode(node, nodes, acc):
    """variables that another part of the query can bind to a term that is not a node of the data:
    a VALUES column holding such a term, a predicate position, a GRAPH name, a BIND target"""
    if isinstance(node, dict):
        k = node.get("k")
        if k == "values":
            for j, v in enumerate(node["vs"]):
                if any(r[j] is not None and r[j] not in nodes for r in node["rows"]):
                    acc.add(v)
        elif k == "bgp":
            for _s, p_, _o in node["ts"]:
                if is_var(p_):
                    acc.add(p_)
        elif k == "graph" and is_var(node["t"]):
            acc.add(node["t"])
        elif k == "bind":
            acc.add(node["v"])
        for v in node.values():
            _prebindable_nonnode(v, nodes, acc)
    elif isinstance(node, list):
        for v in node:
            _prebindable_nonnode(v, nodes, acc)


def _m_zero_path_nonnode(case, result):
    """C15-K1: a `p*` / `p?` pattern one end of which is pre-bound (initBindings, or by the part of the query
    evaluated first) to a term that is not a node of the graph: top-down evaluation yields the zero-length
    pair (t, t), bottom-up evaluation (VALUES joined afterwards, the other operand order) does not."""
    case = materialize(case)
    ends = _zero_path_end_vars(case["q"])
    if not ends:
        return False
    nodes = {t[0] for t in case["data"]} | {t[2] for t in case["data"]}
    tags = _tags(result)
    if case["stream"] == "init":
        return tags == {"init"} and bool(case.get("init")) and case["init"][0] in ends and case["init"][1] not in nodes
    if case["stream"] == "rewrite":
        acc = set()
        _prebindable_nonnode(case["q"], nodes, acc)
        return bool(ends & acc) and all(t.startswith("rewrite-") for t in tags)
    return False


def _nested_expr_vars(group, depth=0):
    """variables mentioned by FILTER / BIND expressions of groups nested inside `group`"""
    out = set()
    for e in group["els"]:
        k = e["k"]
        if k in ("filter", "bind") and depth > 0:
            out |= all_vars(e["e"])
        if k == "filter":       # groups nested inside an EXISTS pattern (its own filters see the outer row by design)
            for g in _exists_groups(e["e"]):
                out |= _nested_expr_vars(g, depth)
        if k in ("grp", "optional", "minus", "graph"):
            out |= _nested_expr_vars(e["g"], depth + 1)
        elif k == "union":
            for b in e["gs"]:
                out |= _nested_expr_vars(b, depth + 1)
    return out


def _m_init_nested_expr(case, result):
    """C15-K2: the initBindings variable is used by a FILTER / BIND expression of a nested group: initBindings
    are never forgotten, so the expression sees the value; a VALUES row of the outer group is out of its scope."""
    case = materialize(case)
    return (case["stream"] == "init" and _tags(result) == {"init"} and bool(case.get("init"))
            and case["init"][0] in _nested_expr_vars(case["q"]["where"]))


def _tp_vars(ts):
    out = set()
    for t in ts:
        out |= {x for x in t if is_var(x)}
    return out


def certain_vars(group):
    """variables every solution of the group binds (BGPs, joined groups, VALUES columns without UNDEF,
    sub-select columns, the intersection over UNION branches); OPTIONAL / MINUS / BIND give none"""
    out = set()
    for e in group["els"]:
        k = e["k"]
        if k == "bgp":
            out |= _tp_vars(e["ts"])
        elif k == "grp":
            out |= certain_vars(e["g"])
        elif k == "graph":
            out |= certain_vars(e["g"]) | ({e["t"]} if is_var(e["t"]) else set())
        elif k == "union":
            bs = [certain_vars(b) for b in e["gs"]]
            out |= set.intersection(*bs) if bs else set()
        elif k == "values":
            out |= {v for j, v in enumerate(e["vs"]) if all(r[j] is not None for r in e["rows"])}
        elif k == "sub" and not e["q"]["count"]:
            out |= set(e["q"]["proj"] or [])
    return out


def _maybe_bound_expr_hazard(group, depth=0):
    """is there a nested group with a FILTER / BIND expression on a variable the group may bind but need not
    (OPTIONAL part, one UNION branch, …)?"""
    for e in group["els"]:
        k = e["k"]
        if k in ("filter", "bind") and depth > 0:
            maybe = visible_vars(group) - certain_vars(group)
            if all_vars(e["e"]) & maybe:
                return True
        if k == "minus" and depth > 0:      # MINUS compares on the variables its left side *may* bind
            maybe = visible_vars(group) - certain_vars(group)
            if all_vars(e["g"]) & maybe:
                return True
        subs = [e["g"]] if k in ("grp", "optional", "minus", "graph") else (e["gs"] if k == "union" else [])
        if k == "sub":
            subs = [e["q"]["where"]]
        for g in subs:
            if _maybe_bound_expr_hazard(g, depth + 1):
                return True
        if k == "filter" and isinstance(e["e"], list):
            for g in _exists_groups(e["e"]):
                if _maybe_bound_expr_hazard(g, depth + 1):
                    return True
    return False


def _exists_groups(ex):
    if isinstance(ex, list):
        if ex and ex[0] in ("exists", "notexists"):
            yield ex[1]
        else:
            for x in ex[1:]:
                yield from _exists_groups(x)


def _m_maybe_bound_filter(case, result):
    """C15-K3: a FILTER / BIND / MINUS of a nested group uses a variable its group binds only optionally and an
    enclosing join has already bound: pushed down, the expression sees the outer value (forget() keeps every
    variable the group *may* bind); evaluated bottom-up (other operand order) the variable is unbound."""
    case = materialize(case)
    return (case["stream"] == "rewrite" and all(t.startswith("rewrite-") for t in _tags(result))
            and _maybe_bound_expr_hazard(case["q"]["where"]))


def _optional_hazard(group, v, depth=0):
    """an OPTIONAL whose group mentions v while the part of its own group before it does not surely bind v
    (only nested groups count: at the top level the outermost BGP binds v)"""
    seen = {"k": "group", "els": []}
    for e in group["els"]:
        k = e["k"]
        if k == "optional" and depth > 0 and v in all_vars(e["g"]) and v not in certain_vars(seen):
            return True
        subs = [e["g"]] if k in ("grp", "optional", "minus", "graph") else (e["gs"] if k == "union" else [])
        for g in subs:
            if _optional_hazard(g, v, depth + 1):
                return True
        seen["els"].append(e)
    return False


def _m_init_nested_optional(case, result):
    """C15-K4: the initBindings variable occurs in the OPTIONAL part of a nested group whose mandatory part does
    not bind it: evalLeftJoin's "no match even without prior bindings" test re-seeds the initBindings
    (QueryContext.clone), so an unmatched row survives that a VALUES row would remove."""
    case = materialize(case)
    return (case["stream"] == "init" and _tags(result) == {"init"} and bool(case.get("init"))
            and _optional_hazard(case["q"]["where"], case["init"][0]))


def _matches_in_empty_graph(group):
    """can the group have a solution over an empty graph? (zero-length path, or nothing but VALUES/BIND/FILTER)"""
    if has_kind(group, {"*", "?"}):
        return True
    return all(e["k"] in ("values", "bind", "filter") for e in group["els"])


def _graph_var_hazard(node, whole):
    if isinstance(node, dict):
        if node.get("k") == "graph" and is_var(node["t"]) and _matches_in_empty_graph(node["g"]):
            rest = json_without(whole, node)
            if node["t"] in all_vars(rest):
                return True
        return any(_graph_var_hazard(v, whole) for v in node.values())
    if isinstance(node, list):
        return any(_graph_var_hazard(v, whole) for v in node)
    return False


def json_without(node, drop):
    if node is drop:
        return None
    if isinstance(node, dict):
        return {k: json_without(v, drop) for k, v in node.items()}
    if isinstance(node, list):
        return [json_without(v, drop) for v in node]
    return node


def _m_graph_var_nongraph(case, result):
    """C15-K5: GRAPH ?g { P } where ?g is bound first (operand order) to an IRI that names no graph of the
    dataset: rdflib evaluates P over an empty graph instead of giving no solution, which shows when P matches
    in an empty graph (zero-length path with a constant end, VALUES/BIND only)."""
    case = materialize(case)
    return (case["stream"] == "rewrite" and all(t.startswith("rewrite-") for t in _tags(result))
            and _graph_var_hazard(case["q"], case["q"]))


def _values_vars(node):
    out = set()
    if isinstance(node, dict):
        if node.get("k") == "values":
            out |= set(node["vs"])
        for v in node.values():
            out |= _values_vars(v)
    elif isinstance(node, list):
        for v in node:
            out |= _values_vars(v)
    return out


def _subselect_local_vars(node):
    """variables some sub-SELECT uses without projecting them"""
    out = set()
    if isinstance(node, dict):
        if node.get("k") == "sub":
            sq = node["q"]
            if not (sq["proj"] is None and not sq["count"]):
                out |= all_vars(sq) - set(select_columns(sq))
        for v in node.values():
            out |= _subselect_local_vars(v)
    elif isinstance(node, list):
        for v in node:
            out |= _subselect_local_vars(v)
    return out


def _m_values_var_masked(case, result):
    """C15-K6 (a manifestation of C04-K2 seen through C04-K1): a variable bound by a VALUES block is missing from
    `_vars`, unless a sub-select elsewhere in the same operand happens to use the same name without projecting it
    (its local variables are listed in `_vars`): MINUS / the OPTIONAL re-check then keep or drop the VALUES
    binding depending on that name, so renaming the sub-select's local variable changes the answer."""
    case = materialize(case)
    if case["stream"] != "rewrite" or _tags(result) != {"rewrite-rename_local"}:
        return False
    q = case["q"]
    return bool(_values_vars(q) & _subselect_local_vars(q)) and has_kind(q, {"minus", "optional"})


def _optional_recheck_hazard(group, depth=0):
    """a nested group with an OPTIONAL that mentions a variable the part of the group before it may bind but need
    not (an earlier OPTIONAL, one UNION branch)"""
    prefix = {"k": "group", "els": []}
    for e in group["els"]:
        k = e["k"]
        if k == "optional" and depth > 0:
            maybe = visible_vars(prefix) - certain_vars(prefix)
            if all_vars(e["g"]) & maybe:
                return True
        subs = [e["g"]] if k in ("grp", "optional", "minus", "graph") else (e["gs"] if k == "union" else [])
        if k == "sub":
            subs = [e["q"]["where"]]
        for g in subs:
            if _optional_recheck_hazard(g, depth + 1):
                return True
        prefix["els"].append(e)
    return False


def _m_optional_recheck(case, result):
    """C15-K7 (C04-K1, the OPTIONAL re-check form): `{ OPTIONAL {..?w..} OPTIONAL { ?w … } }` as right operand of a
    lazy join whose left operand binds ?w: the no-match re-check of the second OPTIONAL keeps the outer ?w because
    ?w is in `_vars` of the first OPTIONAL although that one did not match; other operand order: ?w free."""
    case = materialize(case)
    return (case["stream"] == "rewrite" and all(t.startswith("rewrite-") for t in _tags(result))
            and _optional_recheck_hazard(case["q"]["where"]))


def _values_scope_hazard(group, depth=0):
    """a nested group that binds a variable by VALUES (directly) and uses it in a FILTER / BIND / MINUS of its own"""
    if depth > 0:
        vv = set()
        for e in group["els"]:
            if e["k"] == "values":
                vv |= set(e["vs"])
        if vv:
            for e in group["els"]:
                if e["k"] in ("filter", "bind") and all_vars(e["e"]) & vv:
                    return True
                if e["k"] == "minus" and all_vars(e["g"]) & vv:
                    return True
    for e in group["els"]:
        k = e["k"]
        subs = [e["g"]] if k in ("grp", "optional", "minus", "graph") else (e["gs"] if k == "union" else [])
        if k == "sub":
            subs = [e["q"]["where"]]
        for g in subs:
            if _values_scope_hazard(g, depth + 1):
                return True
    return False


def _m_values_filter_pushed(case, result):
    """C15-K8 (C04-K2): `{ VALUES (?z ..) {..} FILTER(..?z..) }` as right operand of a lazy join whose left operand
    binds ?z: `_vars` of VALUES is empty, so the filter forgets the pushed-in ?z although the VALUES row binds it too;
    with the operands swapped the filter sees it."""
    case = materialize(case)
    return (case["stream"] == "rewrite" and all(t.startswith("rewrite-") for t in _tags(result))
            and _values_scope_hazard(case["q"]["where"]))


def _minus_values_vars(node, inside=False):
    """variables bound by a VALUES block somewhere inside the right-hand side of a MINUS"""
    out = set()
    if isinstance(node, dict):
        if inside and node.get("k") == "values":
            out |= set(node["vs"])
        for k, v in node.items():
            out |= _minus_values_vars(v, inside or (node.get("k") == "minus" and k == "g"))
    elif isinstance(node, list):
        for v in node:
            out |= _minus_values_vars(v, inside)
    return out


def _m_init_minus_values(case, result):
    """C15-K9 (C04-K2 reached through the initBindings clause): the initBindings variable is bound by a VALUES
    block inside the right-hand side of a MINUS: `_vars` of that side lacks it, so with an outer VALUES row MINUS
    compares without it and removes a solution whose ?v disagrees; with initBindings the right-hand side is
    evaluated in a context re-seeded with ?v and the disagreeing VALUES row never arises."""
    case = materialize(case)
    return (case["stream"] == "init" and _tags(result) == {"init"} and bool(case.get("init"))
            and case["init"][0] in _minus_values_vars(case["q"]["where"]))


MATCHERS = {"init_minus_values": _m_init_minus_values, "values_filter_pushed": _m_values_filter_pushed, "optional_recheck": _m_optional_recheck, "values_var_masked": _m_values_var_masked, "init_nested_optional": _m_init_nested_optional, "graph_var_nongraph": _m_graph_var_nongraph,
            "maybe_bound_filter": _m_maybe_bound_filter, "zero_path_nonnode": _m_zero_path_nonnode, "init_nested_expr": _m_init_nested_expr,
            # matchers of repaired defects (their witnesses must pass; kept for documentation)
            "fixed": lambda case, result: False}
