"""C02 — Dataset keeps named graphs isolated; the union view is the union of its graphs.

A case is a script in the line protocol of lean/RV/C02/Drive.lean (same text is fed to the
compiled Lean model and interpreted here against the real rdflib):

    {"cgid": "iri"|"bnode", "lines": ["reset 0 1", "add d 1 10 20 i90", "quads d nil", ...]}

One Memory store; `d` = Dataset(store, default_union=duD) (default graph key 99),
`c` = ConjunctiveGraph(store, identifier=…) (default graph key 98, default_union=duC),
`v…` lines = independently constructed Graph(store, name) views.
Graph arguments: `-` absent, `N` None, `i<k>` identifier, `v<k>` Graph object on the same store
(taken from a pool of views obtained at different times: constructed up front, returned by
ds.graph()/get_context(), yielded by ds.graphs()), `f<k>:s.p.o;…` Graph object of *another* store.

obs  = the answer of the implementation to every line (canonical: sorted ids).
viol = the property's clauses evaluated on the implementation with a dict-of-sets oracle
       (graph name -> set of triples, plus the set of created names), see `_Oracle`.
"""
import re
import warnings

import core  # noqa: F401
from rdflib import BNode, ConjunctiveGraph, Dataset, Graph, Literal, URIRef
from rdflib.graph import DATASET_DEFAULT_GRAPH_ID
from rdflib.paths import Path
from rdflib.plugins.stores.memory import Memory

warnings.filterwarnings("ignore", category=DeprecationWarning)
warnings.filterwarnings("ignore", category=UserWarning)

ID = "C02"
LEAN_TARGETS = ["RV.C02.Props", "RV.C02.PropsConc", "RV.C02.Audit"]
LEAN_EXTRA_DIRS = ("C01",)    # the driver and the composition theorems import C01's Memory model
AUDIT = "RV/C02/Audit.lean"
DRIVER = "drv_c02"
CASES = {"quick": 3000, "thorough": 50000, "search": 20000}
RULE = ("random scripts (3-12 mutating calls quick / 3-16 thorough, each followed by an observation block and 2-5 probes) over one Memory "
        "store seen through a Dataset (default_union on/off), a ConjunctiveGraph and independent Graph(store, name) "
        "views, default_union switched at run time, reads including triples_choices (each list position) and property-path quad patterns (p/q, p|q, ^p, p*); graph names: IRI, blank node with the same label, IRI, blank node, one never created, one created but "
        "empty, the two default graphs; non-trivial = at some point two graphs held a common triple or a restricted "
        "query hit an empty/unknown graph while another graph matched, and at least one removal happened; "
        "distinct = distinct scripts")
ASSUMPTIONS = ["the Memory model the layer is composed with is C01's (lean/RV/C01/NModel.lean + Model.lean, the nested-dictionary model NMem, imported, proved there to "
               "represent a set of (triple, graph) pairs plus a set of registered graphs; composed here by conc_refines_abstract)",
               "graph(None): the name BNode().skolemize() returns is fresh (uuid-based); the harness checks it on every call",
               "parse, serialisation and pickling are outside the model"]
TRUSTED = ["harness/c02.py generators, interpreter and canonicalisation", "lean/RV/C02/Drive.lean line protocol",
           "lean/RV/C01/NModel.lean (+ the context bookkeeping of Model.lean) as a model of memory.py (C01's own correspondence check; here every line of every script "
           "is answered by the Dataset layer composed with that model and compared with rdflib)"]

SUBJ = {1: URIRef("http://e/s1"), 2: BNode("s2"), 3: URIRef("http://e/s3")}
PRED = {10: URIRef("http://e/p"), 11: URIRef("http://e/q")}
OBJ = {20: Literal(""), 21: Literal(0), 22: Literal(False), 23: URIRef("http://e/s1"), 24: Literal("x", lang="en"),
       25: BNode("s2")}
TERM = {**SUBJ, **PRED, **OBJ}
SUBJ_REV = {v: k for k, v in SUBJ.items()}
PRED_REV = {v: k for k, v in PRED.items()}
OBJ_REV = {v: k for k, v in OBJ.items()}

D_DEF, C_DEF, UNKNOWN, EMPTY = 99, 98, 94, 95
NAMED = [90, 91, 92, 93]
ALLKEYS = NAMED + [UNKNOWN, EMPTY, C_DEF, D_DEF]
FRESH0 = 200      # key of the n-th graph created by ds.graph() / graph(None) is FRESH0 + n


class _Names(dict):
    """key -> graph identifier; a fresh key that was never created (its `graphnew` line was shrunk away)
    names a graph nobody ever heard of"""

    def __missing__(self, k):
        if k >= FRESH0:
            self[k] = URIRef("urn:never-created-%d" % k)
            return self[k]
        raise KeyError(k)


def _names(cgid):
    return {90: URIRef("urn:g0"), 91: BNode("urn:g0"), 92: URIRef("urn:g2"), 93: BNode("b3"),
            94: URIRef("urn:never"), 95: URIRef("urn:empty"),
            98: URIRef("urn:cgdefault") if cgid == "iri" else BNode("cgdefault"),
            99: DATASET_DEFAULT_GRAPH_ID}


# ------------------------------------------------------------------ the property's own oracle


def _match(pat, t):
    return all(p is None or p == x for p, x in zip(pat, t))


class _Oracle:
    """Graph name -> set of triples, and the set of created names: the mapping the statement talks about."""

    def __init__(self):
        self.D = {}
        self.K = set()

    def g(self, k):
        return self.D.get(k, set())

    def union(self):
        out = set()
        for v in self.D.values():
            out |= v
        return out

    def add(self, t, k):
        self.D.setdefault(k, set()).add(t)
        self.K.add(k)

    def merge(self, k, ts):
        for t in ts:
            self.add(t, k)

    def remove(self, pat, k):
        for kk in list(self.D) if k is None else [k]:
            self.D[kk] = {t for t in self.g(kk) if not _match(pat, t)}

    def create(self, k):
        self.K.add(k)

    def remove_graph(self, k):
        self.D[k] = set()
        self.K.discard(k)

    def shared(self):
        seen = set()
        for v in self.D.values():
            if seen & v:
                return True
            seen |= v
        return False


# ------------------------------------------------------------------ parsing of protocol tokens


def _p(w):
    return None if w == "*" else int(w)


def _garg(w):
    """-> ('-',) | ('N',) | ('i', k) | ('v', k) | ('f', k, [triples])"""
    if w == "-":
        return ("-",)
    if w == "N":
        return ("N",)
    if w[0] in "ivo":
        return (w[0], int(w[1:]))
    if w[0] == "f":
        k, ts = w[1:].split(":")
        return ("f", int(k), [tuple(int(x) for x in t.split(".")) for t in ts.split(";")] if ts else [])
    raise ValueError(w)


def _gkey(g):
    return None if g[0] in "-N" else g[1]


def _fmt_t(ts):
    return " ".join(",".join(map(str, t)) for t in sorted(ts))


# ------------------------------------------------------------------ property paths


class _ProbePath(Path):
    """A path that records the graph it is evaluated against and delegates to a real path."""

    def __init__(self, inner, log):
        self.inner, self.log = inner, log

    def eval(self, graph, subj=None, obj=None):
        self.log.append(graph)
        return self.inner.eval(graph, subj, obj)

    def n3(self, namespace_manager=None):
        return self.inner.n3(namespace_manager)

    def __repr__(self):
        return "Probe(%r)" % (self.inner,)


def _mkpath(kind):
    p, q = PRED[10], PRED[11]
    return {"seq": p / q, "alt": p | q, "inv": ~p, "star": p * "*"}[kind]


def _path_pairs(kind, triples, s, o):
    """The relation the path denotes over a plain set of (term) triples, restricted to bound ends.
    seq / alt / inv by relational algebra; star through rdflib's evaluator on a scratch plain Graph
    (Graph.triples, not the ConjunctiveGraph code under test)."""
    p, q = PRED[10], PRED[11]
    if kind == "seq":
        rel = {(a, d) for (a, x, b) in triples if x == p for (c, y, d) in triples if y == q and c == b}
    elif kind == "alt":
        rel = {(a, b) for (a, x, b) in triples if x in (p, q)}
    elif kind == "inv":
        rel = {(b, a) for (a, x, b) in triples if x == p}
    else:
        g = Graph()
        for t in triples:
            g.add(t)
        return {(a, b) for a, _p, b in g.triples((s, _mkpath(kind), o))}
    return {(a, b) for (a, b) in rel if (s is None or a == s) and (o is None or b == o)}


NODE = {**SUBJ, **OBJ}


# ------------------------------------------------------------------ running the implementation


class _Impl:
    def __init__(self, case, du_d, du_c):
        self.names = _Names(_names(case.get("cgid", "iri")))
        self.keys = list(ALLKEYS) + sorted({int(x) for l in case["lines"] for x in re.findall(r"\b[ivf]?(2\d\d)\b", l)
                                            if l.split()[0] != "graphnew"} |
                                           {FRESH0 + int(l.split()[2]) for l in case["lines"] if l.startswith("graphnew ")})
        self.store = Memory()
        self.d = Dataset(store=self.store, default_union=du_d)
        self.c = ConjunctiveGraph(store=self.store, identifier=self.names[C_DEF])
        self.c.default_union = du_c
        self.du = {"d": du_d, "c": du_c}
        # views obtained at different times; the first ones before anything happened
        self.pool = {k: [Graph(store=self.store, identifier=self.names[k])] for k in ALLKEYS}
        self.rot = 0

    @property
    def rev(self):
        return {v: k for k, v in self.names.items()}

    def top(self, w):
        return self.d if w == "d" else self.c

    def view(self, k):
        vs = self.pool.setdefault(k, [])
        if not vs:
            vs.append(Graph(store=self.store, identifier=self.names[k]))
        self.rot += 1
        return vs[self.rot % len(vs)]

    def term(self, x):
        return None if x is None else TERM[x]

    def triple(self, t):
        return tuple(self.term(x) for x in t)

    def ids(self, t):
        return (SUBJ_REV[t[0]], PRED_REV[t[1]], OBJ_REV[t[2]])

    def gobj(self, g, top):
        """the Python object for a graph argument"""
        if g[0] in "-N":
            return None
        if g[0] == "i":
            n = self.names[g[1]]
            self.rot += 1
            if isinstance(n, URIRef) and self.rot % 4 == 0:
                return str(n)          # a plain str is accepted as a graph identifier too
            return n
        if g[0] == "v":
            if self.rot % 3 == 0:
                v = self.top(top).get_context(self.names[g[1]])  # a view obtained just now
                self.pool.setdefault(g[1], []).append(v)
                self.rot += 1
                return v
            return self.view(g[1])
        if g[0] == "o":
            # a ConjunctiveGraph OBJECT whose identifier is the graph's name: `_graph` returns it as is (no get_graph
            # scan, no copy) - the very ConjunctiveGraph of the script, one on this store, or one on ANOTHER store that
            # holds a triple of its own (which must not leak into this store)
            self.rot += 1
            if g[1] == C_DEF and self.rot % 3 == 0:
                return self.c
            if self.rot % 2:
                return ConjunctiveGraph(store=self.store, identifier=self.names[g[1]])
            o = ConjunctiveGraph(identifier=self.names[g[1]])
            o.add((SUBJ[3], PRED[11], OBJ[24]))
            return o
        f = Graph(identifier=self.names[g[1]])  # own store
        for t in g[2]:
            f.add(self.triple(t))
        return f

    def gid(self, c):
        if c is None:
            return D_DEF
        if isinstance(c, Graph):
            c = c.identifier
        return self.rev.get(c, 0)      # 0 = a graph under a name nobody ever used

    def snapshot(self):
        return {k: {self.ids(t) for t in Graph(store=self.store, identifier=self.names[k])} for k in self.keys}


def _tq_obj(im, pat, g, top):
    tp = tuple(im.term(x) for x in pat)
    if g[0] == "-":
        return tp
    return tp + (im.gobj(g, top),)


def run_impl(case):
    lines = case["lines"]
    head = lines[0].split()
    assert head[0] == "reset"
    im = _Impl(case, head[1] == "1", head[2] == "1")
    orc = _Oracle()
    obs, viol = ["ok"], []
    stats = {"lines": len(lines)}
    flags = {"shared": False, "fallback_probe": False, "removal": False}

    def bump(k):
        stats[k] = stats.get(k, 0) + 1

    def bad(tag, k, text):
        viol.append(f"{tag}: line {k} `{lines[k]}`: {text}")

    def dflt(top):
        return D_DEF if top == "d" else C_DEF

    def foreign_effect(g):
        if g[0] == "f":
            orc.merge(g[1], g[2])
            bump("foreign_args")

    def affected(g):
        return {g[1]} if g[0] == "f" else set()

    for k in range(1, len(lines)):
        w = lines[k].split()
        op = w[0]
        bump("op_" + op)
        mutating = op in ("add", "addn", "iadd", "remove", "graph", "graphnew", "rmgraph", "rmgraphnone", "rmctx", "vadd", "vremove", "setdu")
        before = im.snapshot() if mutating else None
        touched = None     # set of graph keys the op may change (None = all)
        reg_before = {im.gid(g) for g in im.store.contexts()}
        # graphs whose registry entry the line may change: graphs carried in by a foreign Graph object, plus per op
        reg_touched = {int(x) for x in re.findall(r"f(\d+):", lines[k])}
        add_target = None
        try:
            if op == "add":
                top, t, g = w[1], tuple(map(int, w[2:5])), _garg(w[5])
                arg = im.triple(t) if g[0] == "-" else im.triple(t) + (im.gobj(g, top),)
                im.top(top).add(arg)
                foreign_effect(g)
                tk = _gkey(g) if _gkey(g) is not None else dflt(top)
                orc.add(t, tk)
                add_target = tk
                reg_touched.add(tk)
                touched = {tk} | affected(g)
                bump("add_" + g[0])
                out = "ok"
            elif op in ("addn", "iadd"):
                top = w[1]
                qs = []
                touched = set()
                ok = True
                for item in w[2:]:
                    a, b, c, gw = item.split(",")
                    g = _garg(gw)
                    qs.append((im.term(int(a)), im.term(int(b)), im.term(int(c)), im.gobj(g, top)))
                for item in w[2:]:          # oracle: quads are added in order until one has no graph
                    a, b, c, gw = item.split(",")
                    g = _garg(gw)
                    foreign_effect(g)
                    touched |= affected(g)
                    if _gkey(g) is None:
                        ok = False
                        break
                    orc.add((int(a), int(b), int(c)), _gkey(g))
                    touched.add(_gkey(g))
                    reg_touched.add(_gkey(g))
                try:
                    if op == "iadd" or (k % 2 == 0 and top == "d"):
                        im.d += qs if k % 3 else iter(qs)     # Dataset.__iadd__ (a list or any iterable of quads)
                    else:
                        im.top(top).addN(qs)
                    out = "ok"
                except AssertionError:
                    out = "AssertionError"
                if (out == "ok") != ok:
                    bad("addn", k, f"returned {out} but a quad without graph was {'not ' if ok else ''}given")
            elif op == "remove":
                top, pat, g = w[1], tuple(map(_p, w[2:5])), _garg(w[5])
                im.top(top).remove(_tq_obj(im, pat, g, top))
                foreign_effect(g)
                orc.remove(pat, _gkey(g))
                touched = None if _gkey(g) is None else {_gkey(g)} | affected(g)
                flags["removal"] = True
                bump("remove_all" if _gkey(g) is None else "remove_in_graph")
                out = "ok"
            elif op == "graph":
                top, g = w[1], _garg(w[2])
                v = (im.d.graph if k % 2 else im.d.add_graph)(im.gobj(g, top))
                if type(v) is Graph and v.store is im.store:      # (given a ConjunctiveGraph object, graph() returns that object)
                    im.pool.setdefault(g[1], []).append(v)
                foreign_effect(g)
                orc.create(g[1])
                touched = affected(g)
                reg_touched.add(g[1])
                out = "ok"
            elif op == "graphnew":
                # ds.graph() / ds.graph(None): a graph under a fresh (skolemised blank node) name
                gk = FRESH0 + int(w[2])
                known_before = set(im.names.values()) | {g.identifier for g in im.store.contexts()}
                v = im.d.graph() if k % 2 else im.d.add_graph(None)
                out = "ok"
                if v.identifier in known_before:
                    bad("fresh", k, f"graph() returned the name {v.identifier!r}, which was already in use")
                    out = "not-fresh"
                if not isinstance(v.identifier, URIRef) or v.store is not im.store:
                    bad("fresh", k, f"graph() returned {v!r}: not a skolem IRI named graph on this store")
                im.names[gk] = v.identifier
                im.pool.setdefault(gk, []).append(v)
                if gk not in im.keys:
                    im.keys.append(gk)
                if len(v) != 0:
                    bad("fresh", k, f"the fresh graph holds {len(v)} triples")
                orc.create(gk)
                touched = set()
                reg_touched.add(gk)
                bump("graphnew")
            elif op == "rmgraphnone":
                # ds.remove_graph(None): get_context(None) is a graph under a brand-new blank-node name; removing it is a
                # no-op for every graph and for the registry (as coded; the default graph is NOT what None denotes here)
                im.d.remove_graph(None)
                touched = set()
                bump("rmgraphnone")
                out = "ok"
            elif op == "rmgraph":
                gk = int(w[2])
                # by identifier, by a same-store view, or by a Graph object of ANOTHER store bearing the name (no merge here:
                # remove_graph does not go through _graph; the store identifies a graph by its identifier)
                im.d.remove_graph(im.names[gk] if k % 2 else (Graph(identifier=im.names[gk]) if k % 4 == 0 else im.view(gk)))
                orc.remove_graph(gk)
                touched = {gk}
                reg_touched.add(gk)
                flags["removal"] = True
                out = "ok"
            elif op == "rmctx":
                gk = int(w[2])
                im.top(w[1]).remove_context(Graph(identifier=im.names[gk]) if k % 4 == 3 else im.view(gk))
                orc.remove((None, None, None), gk)
                touched = {gk}
                flags["removal"] = True
                out = "ok"
            elif op == "vadd":
                gk, t = int(w[1]), tuple(map(int, w[2:5]))
                im.view(gk).add(im.triple(t))
                orc.add(t, gk)
                touched = {gk}
                reg_touched.add(gk)
                out = "ok"
            elif op == "vremove":
                gk, pat = int(w[1]), tuple(map(_p, w[2:5]))
                im.view(gk).remove(tuple(im.term(x) for x in pat))
                orc.remove(pat, gk)
                touched = {gk}
                flags["removal"] = True
                out = "ok"
            elif op == "triples":
                top, pat, g, c = w[1], tuple(map(_p, w[2:5])), _garg(w[5]), _garg(w[6])
                cobj = im.gobj(c, top)
                res = [im.ids(t) for t in im.top(top).triples(_tq_obj(im, pat, g, top), context=cobj)]
                foreign_effect(g)
                foreign_effect(c)
                e = _gkey(c) if _gkey(c) is not None else _gkey(g)
                out = _fmt_t(res)
                if len(res) != len(set(res)):
                    bad("dup", k, "a triple is yielded twice")
                if e is None:
                    want = orc.union() if im.du[top] else orc.g(dflt(top))
                    want = {t for t in want if _match(pat, t)}
                    if set(res) != want:
                        bad("union", k, f"query without graph (default_union={im.du[top]}) returned {sorted(set(res))}, "
                                        f"the mapping gives {sorted(want)}")
                    # the same clause on the implementation's own per-graph views (no oracle involved)
                    snap = im.snapshot()
                    own = set().union(*snap.values()) if im.du[top] else snap[dflt(top)]
                    own = {t for t in own if _match(pat, t)}
                    if set(res) != own:
                        bad("union-self", k, f"query without graph (default_union={im.du[top]}) returned {sorted(set(res))} "
                                             f"but the graphs, read one by one, hold {sorted(own)}")
                    bump("probe_nograph")
                elif e == dflt(top) and im.du[top]:
                    want = {t for t in orc.union() if _match(pat, t)}
                    if set(res) != want:
                        bad("union", k, f"default graph under default_union returned {sorted(set(res))}, union is {sorted(want)}")
                    bump("probe_default_du")
                else:
                    want = {t for t in orc.g(e) if _match(pat, t)}
                    elsewhere = any(_match(pat, t) for t in orc.union())
                    if not orc.g(e):
                        bump("probe_empty_or_unknown")
                        if elsewhere:
                            flags["fallback_probe"] = True
                        if res:
                            bad("fallback", k, f"graph {e} is empty/unknown but the restricted query returned {sorted(set(res))}")
                    elif set(res) != want:
                        bad("restricted", k, f"graph {e}: returned {sorted(set(res))}, the mapping gives {sorted(want)}")
                    else:
                        bump("probe_nonempty_graph")
            elif op == "contains":
                top, pat, g = w[1], tuple(map(_p, w[2:5])), _garg(w[5])
                res = _tq_obj(im, pat, g, top) in im.top(top)
                foreign_effect(g)
                e = _gkey(g)
                out = "True" if res else "False"
                if e is None or (e == dflt(top) and im.du[top]):
                    src = orc.union() if im.du[top] else orc.g(dflt(top))
                    want = any(_match(pat, t) for t in src)
                    if res != want:
                        bad("member", k, f"membership without graph / in the merged view is {res}, the mapping says {want}")
                else:
                    want = any(_match(pat, t) for t in orc.g(e))
                    if not orc.g(e):
                        bump("member_empty_or_unknown")
                        if any(_match(pat, t) for t in orc.union()):
                            flags["fallback_probe"] = True
                        if res:
                            bad("fallback", k, f"graph {e} is empty/unknown but the quad is reported present")
                    elif res != want:
                        bad("member", k, f"quad membership in graph {e} is {res}, the mapping says {want}")
                    bump("member_true" if res else "member_false")
            elif op == "quads":
                top = w[1]
                if w[2] == "nil":
                    res = [(im.ids(q[:3]) + (im.gid(q[3]),)) for q in (im.top(top).quads() if k % 2 else im.top(top).quads(None))]
                    want = {t + (gk,) for gk, ts in orc.D.items() for t in ts}
                    if set(res) != want:
                        bad("quads", k, f"quads() = {sorted(set(res))}, the mapping gives {sorted(want)}")
                else:
                    pat, g = tuple(map(_p, w[2:5])), _garg(w[5])
                    res = [(im.ids(q[:3]) + (im.gid(q[3]),)) for q in im.top(top).quads(_tq_obj(im, pat, g, top))]
                    foreign_effect(g)
                    e = _gkey(g)
                    for q in res:
                        if q[:3] not in orc.g(q[3]) or not _match(pat, q[:3]):
                            bad("quads", k, f"quads(pattern) yields {q} which is not in the mapping / does not match")
                    if e is not None:
                        got = {q[:3] for q in res if q[3] == e}
                        want = {t for t in orc.g(e) if _match(pat, t)}
                        if got != want:
                            bad("quads", k, f"quads(pattern in graph {e}) lists {sorted(got)} for that graph, mapping gives {sorted(want)}")
                        if not orc.g(e) and res:
                            bad("fallback", k, f"graph {e} is empty/unknown but quads(pattern) returned {res}")
                if len(res) != len(set(res)):
                    bad("dup", k, "a quad is yielded twice")
                out = " ".join(",".join(map(str, q)) for q in sorted(res))
            elif op == "graphs":
                top = w[1]
                if top == "d":
                    gs = list(im.d.graphs() if k % 3 else im.d.contexts())   # contexts(): deprecated alias
                else:
                    gs = list(im.c.contexts())
                res = sorted(im.gid(g) for g in gs)
                for g in gs:
                    if type(g) is Graph and g.store is im.store:
                        im.pool.setdefault(im.gid(g), []).append(g)   # a view obtained now, read later
                if len(res) != len(set(res)):
                    bad("dup", k, "a graph is listed twice")
                if top == "d":
                    if D_DEF not in res:
                        bad("default", k, "the default graph is not listed by graphs()")
                    if set(res) != orc.K | {D_DEF}:
                        bad("graphs", k, f"graphs() = {res}, created and not removed = {sorted(orc.K | {D_DEF})}")
                elif set(res) - {D_DEF} != orc.K - {D_DEF}:
                    bad("graphs", k, f"contexts() = {res}, created and not removed = {sorted(orc.K)}")
                # the merged view is the union of the *listed* graphs: a graph that holds triples is listed
                for gk, ts in im.snapshot().items():
                    if ts and gk not in res:
                        bad("unlisted", k, f"graph {gk} holds {sorted(ts)} but is not listed")
                out = " ".join(map(str, res))
            elif op == "setdu":
                top, b = w[1], w[2] == "1"
                n_before = len(im.top(top))
                im.top(top).default_union = b
                im.du[top] = b
                touched = set()
                if len(im.top(top)) != n_before:
                    bad("switch", k, "len() changed when default_union was switched")
                bump("setdu")
                out = "ok"
            elif op == "iter":
                res = [(im.ids(q[:3]) + (im.gid(q[3]),)) for q in (iter(im.d) if k % 2 else im.d.__iter__())]
                want = {t + (gk,) for gk, ts in orc.D.items() for t in ts}
                if set(res) != want:
                    bad("quads", k, f"iterating the dataset gives {sorted(set(res))}, the mapping gives {sorted(want)}")
                if len(res) != len(set(res)):
                    bad("dup", k, "a quad is yielded twice")
                out = " ".join(",".join(map(str, q)) for q in sorted(res))
            elif op == "graphsof":
                top, t = w[1], tuple(map(int, w[2:5]))
                if top == "d":
                    gs = list(im.d.graphs(im.triple(t)) if k % 3 else im.d.contexts(im.triple(t)))
                else:
                    gs = list(im.c.contexts(im.triple(t)))
                res = sorted(im.gid(g) for g in gs)
                want = sorted(gk for gk, ts in orc.D.items() if t in ts)
                if res != want:
                    bad("graphsof", k, f"graphs(triple) = {res}, the triple is in {want}")
                out = " ".join(map(str, res))
            elif op == "len":
                res = len(im.top(w[1]))
                if res != len(orc.union()):
                    bad("len", k, f"len = {res}, the graphs hold {len(orc.union())} distinct triples")
                out = str(res)
            elif op == "vtriples":
                gk, pat = int(w[1]), tuple(map(_p, w[2:5]))
                tp = tuple(im.term(x) for x in pat)
                res = [im.ids(t) for t in im.view(gk).triples(tp)]
                want = {t for t in orc.g(gk) if _match(pat, t)}
                if set(res) != want:
                    bad("view", k, f"view of graph {gk} shows {sorted(set(res))}, the mapping gives {sorted(want)}")
                if len(res) != len(set(res)):
                    bad("dup", k, "a triple is yielded twice")
                if pat == (None, None, None):
                    for v in im.pool.get(gk, []):
                        if {im.ids(t) for t in v} != set(res):
                            bad("view", k, f"two views of graph {gk} obtained at different times disagree")
                            break
                out = _fmt_t(res)
            elif op == "vcontains":
                gk, pat = int(w[1]), tuple(map(_p, w[2:5]))
                res = tuple(im.term(x) for x in pat) in im.view(gk)
                if res != any(_match(pat, t) for t in orc.g(gk)):
                    bad("view", k, f"membership through the view of graph {gk} is {res}")
                out = "True" if res else "False"
            elif op == "vlen":
                gk = int(w[1])
                res = len(im.view(gk))
                if res != len(orc.g(gk)):
                    bad("len", k, f"len(view {gk}) = {res}, the mapping gives {len(orc.g(gk))}")
                out = str(res)
            elif op in ("choices", "vchoices"):
                if op == "choices":
                    top, pos, lw, x, y, c = w[1], w[2], w[3], _p(w[4]), _p(w[5]), _garg(w[6])
                else:
                    gk, pos, lw, x, y = int(w[1]), w[2], w[3], _p(w[4]), _p(w[5])
                lst = [] if lw == "e" else [int(v) for v in lw.split(",")]
                tl = [im.term(v) for v in lst]
                if k % 2:
                    tl = tuple(tl)
                arg = {"s": (tl, im.term(x), im.term(y)), "p": (im.term(x), tl, im.term(y)),
                       "o": (im.term(x), im.term(y), tl)}[pos]
                if op == "choices":
                    cobj = im.gobj(c, top)
                    res = [im.ids(t) for t in (im.top(top).triples_choices(arg, context=cobj) if cobj is not None or k % 3
                                               else im.top(top).triples_choices(arg))]
                    foreign_effect(c)
                    e = _gkey(c)
                else:
                    res = [im.ids(t) for t in im.view(gk).triples_choices(arg)]
                    e = gk
                i = "spo".index(pos)
                rest = [x, y]
                rest.insert(i, None)

                def cm(t):
                    return (not lst or t[i] in lst) and _match(tuple(rest), t)
                out = _fmt_t(res)
                if len(set(lst)) == len(lst) and len(res) != len(set(res)):
                    bad("dup", k, "a triple is yielded twice")
                if op == "vchoices":
                    want = {t for t in orc.g(e) if cm(t)}
                    if set(res) != want:
                        bad("view", k, f"triples_choices through the view of graph {e}: {sorted(set(res))}, mapping gives {sorted(want)}")
                elif e is None:
                    want = {t for t in (orc.union() if im.du[top] else orc.g(dflt(top))) if cm(t)}
                    if set(res) != want:
                        bad("union", k, f"triples_choices without graph (default_union={im.du[top]}) returned {sorted(set(res))}, "
                                        f"the mapping gives {sorted(want)}")
                    bump("choices_nograph")
                else:
                    want = {t for t in orc.g(e) if cm(t)}
                    if not orc.g(e):
                        bump("choices_empty_or_unknown")
                        if any(cm(t) for t in orc.union()):
                            flags["fallback_probe"] = True
                        if res:
                            bad("fallback", k, f"graph {e} is empty/unknown but triples_choices restricted to it returned {sorted(set(res))}")
                    elif set(res) != want and not (e == dflt(top) and im.du[top]
                                                   and set(res) == {t for t in orc.union() if cm(t)}):
                        # (for the default graph under default_union either reading - the graph itself, as coded,
                        #  or the merged view, as `triples` does - describes the mapping)
                        bad("restricted", k, f"triples_choices in graph {e}: returned {sorted(set(res))}, the mapping gives {sorted(want)}")
                    else:
                        bump("choices_nonempty_graph")
            elif op in ("path", "pathin", "vpath"):
                log = []
                if op == "vpath":
                    gk, kind, ps, po = int(w[1]), w[2], _p(w[3]), _p(w[4])
                    top = None
                else:
                    top, kind, ps, po, g = w[1], w[2], _p(w[3]), _p(w[4]), _garg(w[5])
                    c = _garg(w[6]) if op == "path" else ("-",)
                pp = _ProbePath(_mkpath(kind), log)
                ts, to = (None if ps is None else NODE[ps]), (None if po is None else NODE[po])
                if op == "vpath":
                    res = {(a, b) for a, _x, b in im.view(gk).triples((ts, pp, to))}
                    e = gk
                elif op == "path":
                    cobj = im.gobj(c, top)
                    pat = (ts, pp, to) if g[0] == "-" else (ts, pp, to, im.gobj(g, top))
                    res = {(a, b) for a, _x, b in im.top(top).triples(pat, context=cobj)}
                    foreign_effect(g)
                    foreign_effect(c)
                    e = _gkey(c) if _gkey(c) is not None else _gkey(g)
                else:
                    pat = (ts, pp, to) if g[0] == "-" else (ts, pp, to, im.gobj(g, top))
                    res = pat in im.top(top)
                    foreign_effect(g)
                    e = _gkey(g)
                # obs: the graph the path was evaluated against
                if not log:
                    out = "none"
                else:
                    gr = log[0]
                    if top is not None and gr is im.top(top):
                        out = "*" if im.du[top] else str(dflt(top))
                    else:
                        out = str(im.gid(gr))
                    if any(x is not gr and not (isinstance(x, Graph) and isinstance(gr, Graph) and x.identifier == gr.identifier
                                                 and type(x) is type(gr)) for x in log):
                        out += " (and others)"
                # oracle: the relation over the graph the query names
                if top is not None and (e is None or (e == dflt(top) and im.du[top])):
                    src = orc.union() if im.du[top] else orc.g(dflt(top))
                    tag = "union"
                else:
                    src = orc.g(e)
                    tag = "path"
                want = _path_pairs(kind, {im.triple(t) for t in src}, ts, to)
                elsewhere = _path_pairs(kind, {im.triple(t) for t in orc.union()}, ts, to)
                got = res if op != "pathin" else None
                if tag == "path" and not want and elsewhere:
                    flags["fallback_probe"] = True
                    bump("path_probe_absent_here_present_elsewhere")
                if op == "pathin":
                    if res != bool(want):
                        bad("fallback" if (tag == "path" and not orc.g(e)) else tag, k,
                            f"membership of the path pattern in graph {e} is {res}, the graph's relation says {bool(want)}")
                elif got != want:
                    bad("fallback" if (tag == "path" and not orc.g(e) and got) else tag, k,
                        f"path {kind} restricted to graph {e} returned {len(got)} pairs {sorted(map(str, got))[:3]}, "
                        f"the graph's own relation has {len(want)} {sorted(map(str, want))[:3]}")
                bump("path_nonempty" if want else "path_empty")
            elif op == "sctx":
                got = [im.gid(g) for g in im.store.contexts()]
                if len(got) != len(set(got)):
                    bad("dup", k, "store.contexts() lists a graph twice")
                # store.contexts() = the created-and-not-removed graphs, up to the lazily re-created default graph
                if set(got) - {D_DEF} != orc.K - {D_DEF}:
                    bad("graphs", k, f"store.contexts() = {sorted(got)}, created and not removed = {sorted(orc.K)}")
                out = " ".join(map(str, sorted(got)))
            elif op == "cerr":
                out = "ok"        # reaching this line means no call of the script raised
            else:
                out = "bad-op"
        except Exception as e:      # no call of a script may raise (the concrete store model's `err` flag stays false)
            bad("raise", k, f"{type(e).__name__}: {str(e)[:120]}")
            obs.append("raised " + type(e).__name__)
            break
        obs.append(out)
        # registry isolation, on the implementation's own store.contexts(): only the graphs the line addresses
        # may appear / disappear (the default graph of the Dataset is re-created lazily: exempt)
        reg_after = {im.gid(g) for g in im.store.contexts()}
        for gk in (reg_before ^ reg_after) - reg_touched - {D_DEF}:
            bad("registry", k, f"graph {gk} was {'listed' if gk in reg_before else 'not listed'} by the store before the call and is "
                               f"{'listed' if gk in reg_after else 'not listed'} after it, although the call addresses {sorted(reg_touched)}")
        if orc.shared():
            flags["shared"] = True
        if mutating:
            after = im.snapshot()
            if op == "remove" and touched is None:
                pat = tuple(map(_p, w[2:5]))
                for gk in before:
                    if after[gk] != {t for t in before[gk] if not _match(pat, t)}:
                        bad("removeall", k, f"graph {gk} was {sorted(before[gk])}, now {sorted(after[gk])}")
            else:
                for gk in before:
                    if gk not in touched and after[gk] != before[gk]:
                        bad("isolation", k, f"graph {gk} changed from {sorted(before[gk])} to {sorted(after[gk])} "
                                            f"although the operation names graph(s) {sorted(touched)}")
                if op in ("rmgraph", "rmctx"):
                    gk = int(w[2])
                    if after[gk]:
                        bad("rmgraph", k, f"graph {gk} still holds {sorted(after[gk])}")
                if op == "rmgraph":
                    # (that the default graph is still listed is checked at every `graphs d` line;
                    #  calling graphs() here would itself re-create it)
                    listed = {im.gid(g) for g in im.store.contexts()}
                    if gk != D_DEF and gk in listed:
                        bad("rmgraph", k, f"graph {gk} still listed after remove_graph")
                if op == "add":
                    t = tuple(map(int, w[2:5]))
                    if t not in after[add_target]:
                        bad("add", k, f"the quad is not in graph {add_target} after add")
    nontrivial = (flags["shared"] or flags["fallback_probe"]) and flags["removal"]
    stats["nontrivial"] = int(nontrivial)
    stats["shared_triple"] = int(flags["shared"])
    stats["fallback_probe"] = int(flags["fallback_probe"])
    return {"obs": obs, "viol": viol, "nontrivial": nontrivial, "key": "\n".join(lines) + case.get("cgid", ""),
            "stats": stats}


def model_lines(case):
    return list(case["lines"])


# ------------------------------------------------------------------ generator


def _w(x):
    return "*" if x is None else str(x)


def _rtriple(rng, chainy=False):
    if chainy:   # objects that are subjects too, so that p/q, p* have something to follow
        return (rng.choice([1, 2, 3]), rng.choice([10, 11]), rng.choice([23, 25, 23, 25, 20]))
    return (rng.choice([1, 1, 2, 3]), rng.choice([10, 10, 11]), rng.choice([20, 20, 21, 22, 23, 24, 25][: rng.choice([2, 3, 7])]))


def _rpat(rng, t):
    mask = rng.choice([0, 0, 1, 2, 3, 4, 5, 6, 7, 7])
    return tuple(None if mask >> i & 1 else x for i, x in enumerate(t))


def gen_case(rng, tier, i):
    du_d, du_c = rng.random() < 0.5, rng.random() < 0.75
    mode = rng.choice(["d", "d", "d", "c", "both"])
    foreign = rng.random() < 0.2
    chainy = rng.random() < 0.4
    tops = {"d": ["d"], "c": ["c"], "both": ["d", "c"]}[mode]
    lines = [f"reset {int(du_d)} {int(du_c)}"]
    spec = _Oracle()     # steers the generator only

    def garg(k, allow_plain=False):
        r = rng.random()
        if foreign and r < 0.35:
            ts = [_rtriple(rng, chainy) for _ in range(rng.randint(0, 2))]
            spec.merge(k, ts)
            return f"f{k}:" + ";".join(".".join(map(str, t)) for t in ts)
        if not foreign and 0.58 <= r < 0.66:
            return f"o{k}"      # a ConjunctiveGraph object named k (never together with foreign Graph objects: which object
            #                     get_graph() then finds for the name - and so where a foreign Graph is merged - is history-dependent)
        return f"i{k}" if r < 0.65 else f"v{k}"

    def nov(w):      # path patterns: a graph object argument is always a plain same-store view
        return "v" + w[1:] if w[0] == "o" else w

    def known_triple():
        u = sorted(spec.union())
        return rng.choice(u) if u and rng.random() < (0.6 if chainy else 0.75) else _rtriple(rng, chainy)

    fresh = []           # keys of the graphs created by ds.graph() so far

    def gkey():
        return rng.choice(NAMED + NAMED + [D_DEF, C_DEF] + fresh + fresh)

    def block():
        out = ["sctx"]
        for t in tops:
            out += ["iter d" if t == "d" and rng.random() < 0.3 else f"quads {t} nil", f"graphs {t}", f"len {t}"]
        for k in ALLKEYS + fresh:
            out.append(f"vtriples {k} * * *")
        out.append("cerr")
        return out

    def probes():
        out = []
        for _ in range(rng.randint(2, 5)):
            top = rng.choice(tops)
            t = known_triple()
            pat = _rpat(rng, t)
            holders = [kk for kk in ALLKEYS + fresh if t in spec.g(kk)]
            if holders and rng.random() < 0.5:
                k = rng.choice(holders)
            else:
                k = rng.choice(NAMED + [UNKNOWN, EMPTY, UNKNOWN, EMPTY, D_DEF, C_DEF] + fresh)
            r = rng.random()
            ps = " ".join(_w(x) for x in pat)
            if rng.random() < 0.2:      # triples_choices
                pos = rng.choice("spo")
                i = "spo".index(pos)
                pool = {"s": [1, 2, 3], "p": [10, 11], "o": [20, 21, 22, 23, 24, 25]}[pos]
                r3 = rng.random()
                if r3 < 0.12:
                    lw = "e"
                else:
                    lst = sorted(set([t[i]] + rng.sample(pool, rng.randint(0, 2)))) if r3 < 0.8 else rng.sample(pool, rng.randint(1, 2))
                    if r3 > 0.95:
                        lst = lst + lst[:1]
                    lw = ",".join(map(str, lst))
                rest = [_w(x) for j, x in enumerate(pat) if j != i]
                if rng.random() < 0.85:
                    out.append(f"choices {top} {pos} {lw} {rest[0]} {rest[1]} {garg(k) if rng.random() < 0.8 else rng.choice(['-', 'N'])}")
                else:
                    out.append(f"vchoices {k} {pos} {lw} {rest[0]} {rest[1]}")
                continue
            if rng.random() < (0.3 if chainy else 0.08):      # property-path patterns
                kind = rng.choice(["seq", "seq", "alt", "inv", "star"])
                a = _w(t[0]) if rng.random() < 0.4 else "*"
                b = _w(rng.choice([1, 2, 3, 23, 25, t[2]])) if rng.random() < 0.25 else "*"
                r3 = rng.random()
                if r3 < 0.4:
                    out.append(f"path {top} {kind} {a} {b} {nov(garg(k))} -")
                elif r3 < 0.6:
                    out.append(f"path {top} {kind} {a} {b} - {nov(garg(k))}")
                elif r3 < 0.7:
                    out.append(f"path {top} {kind} {a} {b} {nov(rng.choice(['-', 'N', garg(gkey())]))} {nov(rng.choice(['-', 'N', garg(k)]))}")
                elif r3 < 0.9:
                    out.append(f"pathin {top} {kind} {a} {b} {nov(garg(k)) if rng.random() < 0.85 else '-'}")
                else:
                    out.append(f"vpath {k} {kind} {a} {b}")
                continue
            if r < 0.3:
                out.append(f"triples {top} {ps} - {garg(k)}")
            elif r < 0.4:
                out.append(f"triples {top} {ps} {garg(k)} -")
            elif r < 0.45:
                out.append(f"triples {top} {ps} {garg(gkey())} {garg(k)}")
            elif r < 0.52:
                out.append(f"triples {top} {ps} {rng.choice(['-', 'N'])} {rng.choice(['-', 'N'])}")
            elif r < 0.8:
                g = garg(k) if rng.random() < 0.85 else rng.choice(["-", "N"])
                out.append(f"contains {top} {ps if rng.random() < 0.4 else ' '.join(map(str, t))} {g}")
            elif r < 0.87:
                out.append(f"quads {top} {ps} {garg(k) if rng.random() < 0.8 else rng.choice(['-', 'N'])}")
            elif r < 0.92:
                out.append(f"graphsof {top} {' '.join(map(str, t))}")
            elif r < 0.95:
                out.append(f"vcontains {k} {ps}")
            elif r < 0.98:
                out.append(f"vtriples {k} {ps}")      # a view read with a bound pattern: the store's index dispatch
            else:
                out.append(f"vlen {k}")
        return out

    # a graph that exists but is empty
    if "d" in tops and rng.random() < 0.8:
        lines.append("graph d i95")
        spec.create(95)
    else:
        lines += ["vadd 95 1 10 20", "vremove 95 * * *"]
        spec.create(95)
    n = rng.randint(3, 12) if tier == "quick" else rng.randint(3, 16)
    for _ in range(n):
        top = rng.choice(tops)
        r = rng.random()
        if r < 0.36:
            t = known_triple()
            ts = " ".join(map(str, t))
            r2 = rng.random()
            if r2 < 0.2:
                lines.append(f"add {top} {ts} {rng.choice(['-', '-', 'N'])}")
                spec.add(t, D_DEF if top == "d" else C_DEF)
            elif r2 < 0.7:
                k = gkey()
                lines.append(f"add {top} {ts} {garg(k)}")
                spec.add(t, k)
            else:
                k = gkey()
                lines.append(f"vadd {k} {ts}")
                spec.add(t, k)
        elif r < 0.44:
            items = []
            for _j in range(rng.randint(1, 3)):
                t, k = known_triple(), gkey()
                g = "N" if rng.random() < 0.06 else garg(k)
                items.append(",".join(map(str, t)) + "," + g)
                if g == "N":
                    break
                spec.add(t, k)
            lines.append((f"iadd d " if "d" in tops and rng.random() < 0.35 else f"addn {top} ") + " ".join(items))
        elif r < 0.74:
            t = known_triple()
            pat = _rpat(rng, t)
            ps = " ".join(_w(x) for x in pat)
            r2 = rng.random()
            if r2 < 0.3:
                lines.append(f"remove {top} {ps} {rng.choice(['-', 'N'])}")
                spec.remove(pat, None)
            elif r2 < 0.75:
                holders = [k for k in ALLKEYS + fresh if t in spec.g(k)]
                k = rng.choice(holders) if holders and rng.random() < 0.7 else rng.choice(NAMED + [D_DEF, C_DEF, UNKNOWN, EMPTY])
                lines.append(f"remove {top} {ps} {garg(k)}")
                spec.remove(pat, k)
            else:
                k = gkey()
                lines.append(f"vremove {k} {ps}")
                spec.remove(pat, k)
        elif r < 0.78 and "d" in tops:
            if rng.random() < 0.45 and len(fresh) < 3:
                lines.append(f"graphnew d {len(fresh)}")      # ds.graph(): a fresh skolem-named graph
                fresh.append(FRESH0 + len(fresh))
                spec.create(fresh[-1])
            else:
                k = rng.choice(NAMED + [D_DEF] + fresh)
                lines.append(f"graph d {garg(k)}")
                spec.create(k)
        elif r < 0.83:
            lines.append(f"setdu {top} {rng.randint(0, 1)}")     # default_union switched at run time
        elif r < 0.93 and "d" in tops:
            if rng.random() < 0.08:
                lines.append(f"rmgraphnone d {rng.randint(0, 9)}")
                lines += block()
                lines += probes()
                continue
            k = rng.choice(NAMED + NAMED + [D_DEF, C_DEF, UNKNOWN] + fresh)
            lines.append(f"rmgraph d {k}")
            spec.remove_graph(k)
            if rng.random() < 0.35:      # remove_graph, then the same name again: nothing of the old content may return
                lines += block()
                if rng.random() < 0.5:
                    t = known_triple()
                    lines.append(f"add d {' '.join(map(str, t))} {garg(k)}")
                    spec.add(t, k)
                else:
                    lines.append(f"graph d {garg(k)}")
                    spec.create(k)
        else:
            k = gkey()
            lines.append(f"rmctx {top} {k}")
            spec.remove((None, None, None), k)
        lines += block()
        lines += probes()
    return {"cgid": rng.choice(["iri", "bnode"]), "lines": lines}


READS = ("sctx", "quads", "graphs", "len", "vtriples", "triples", "contains", "graphsof", "vcontains", "vlen",
         "choices", "vchoices", "path", "pathin", "vpath", "iter", "cerr")


def shrink(case):
    lines = case["lines"]
    # drop reads first (cheap), then any single line; keep the reset line
    idx_reads = [i for i in range(1, len(lines)) if lines[i].split()[0] in READS]
    if len(idx_reads) > 4:
        half = set(idx_reads[: len(idx_reads) // 2])
        yield {**case, "lines": [l for i, l in enumerate(lines) if i not in half]}
        half = set(idx_reads[len(idx_reads) // 2:])
        yield {**case, "lines": [l for i, l in enumerate(lines) if i not in half]}
    for i in range(len(lines) - 1, 0, -1):
        yield {**case, "lines": lines[:i] + lines[i + 1:]}


def _m_empty_falsy(case, result):
    """a restricted read on an empty/unknown graph answered from another graph"""
    return bool(result["viol"]) and all(v.startswith("fallback") for v in result["viol"])


def _m_add_none(case, result):
    return any(l.startswith("add ") and l.endswith(" N") for l in case["lines"]) and bool(result["viol"])


def _m_graphsof(case, result):
    return bool(result["viol"]) and all(v.startswith("graphsof") for v in result["viol"])


MATCHERS = {"empty_graph_falsy_fallback": _m_empty_falsy, "add_quad_none_graph": _m_add_none,
            "graphs_of_triple_lists_default": _m_graphsof}
