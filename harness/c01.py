"""C01 — a Graph is exactly the set of triples its history implies, under every pattern.  DESIGN §6 C01.

Case (JSON):
  {"store": "mem" | "simple", "pool": [[s,p,o]…], "ops": [op…]}
  terms are indexes into TERMS (falsy and look-alike terms included); any term may stand in any position.

  store = "mem": graphs 0..2 live on ONE `Memory`; every graph has two Python objects, the primary (via=0) and a
  twin (via=1) whose identifier is an equal but distinct object.  Ops:
    ["add", g, via, s, p, o]            ["remove", g, via, s|None, p|None, o|None]      ["set", g, via, s, p, o]
    ["addN", g, via, [[s,p,o,c,kind]…]]   kind: "obj" (self when c == g, else graph c's primary object),
                                               "twin" (the other object of graph c), "ident" (bare identifier, not a Graph)
    ["iadd", g, via, src]  ["isub", g, via, src]   src = ["list", ts] | ["gen", ts] | ["ext", ts] (Graph on another store)
                                                        | ["extsame", ts] (Graph on ANOTHER store carrying the SAME identifier
                                                          as the receiving graph: `other == self` although they are distinct)
                                                        | ["graph", h, via_h] (graph of the same store, may be g itself)
    ["bin", op, g, via, h, via_h]        op = add | sub | mul | xor      (observed: the new graph; operands unchanged)
    ["binx", op, g, via, ts, side]       the other operand is a same-identifier graph of another store holding ts
                                         (side "R": g OP other, "L": other OP g); ["sbinx", op, i, ts, side] likewise
    quad kind "xtwin" = a same-identifier Graph object of another store; via = 2 in st_* ops = such an object as context
    store API called directly on the shared `Memory` (contexts = the Graph objects of graphs 0..2):
    ["st_add", c, via, s, p, o]          store.add(triple, graph_obj)
    ["st_remove", c|None, via, s|None, p|None, o|None]     store.remove(pattern, graph_obj | None)
    ["st_addg", c, via]  ["st_rmg", c, via]                store.add_graph / store.remove_graph
    ["iopen", k, g, via, s|None, p|None, o|None]   create generator k = g.triples(pattern)
    ["istep", k, n]                      n × next(generator k)   (the generator "begins" at its first next())
  What the statement demands of an iteration that overlaps writes (and all the oracle demands): no exception, and
  every yielded triple matches the pattern and was in the ITERATED graph in at least one of the states the graph went
  through from the first next() to the yield.  Not demanded: snapshot semantics, completeness, or absence of repeats.
  store = "simple": two `SimpleMemory` stores i ∈ {0,1}, one graph each (identifier 50+i), ops
    ["sadd", i, via, s,p,o] ["sremove", i, via, s,p,o] ["sset", …] ["saddN", i, via, quads] ["siadd", i, via, src]
    ["sisub", i, via, src]  src additionally ["store", j]  (the graph of the other simple store)   ["sbin", op, i, j]

After EVERY op the harness observes, for every graph: len, list(g), the 7 other pattern shapes obtained by
wild-carding one pool triple, and `t in g` for every pool triple, and (default store) the store's union view
len(store) / store.triples(pattern, None) for the 8 shapes; the same lines are asked of the Lean model.
The property's own oracle is a Python dict graph -> set of triples, written from the statement.
"""
import itertools
import subprocess
import sys
import warnings

import core
from rdflib import BNode, Graph, Literal, URIRef, Variable
from rdflib.plugins.stores.memory import Memory, SimpleMemory

warnings.filterwarnings("ignore")

ID = "C01"
LEAN_TARGETS = ["RV.C01.Props", "RV.C01.Audit"]
AUDIT = "RV/C01/Audit.lean"
DRIVER = "drv_c01"
N_ENUM = 11110  # histories of length 1..4 over an alphabet of 10 ops (2 triples x 2 graphs), thorough tier only
CASES = {"quick": 2000, "thorough": N_ENUM * 2 + 10000, "search": 6000}
RULE = ("random histories (1-24 ops) of add/addN/remove(wildcards)/set/+=/-=/+ - * ^ through Graph objects (primary and "
        "equal-identifier twin) over one shared Memory (3 graphs) or two SimpleMemory stores, terms drawn from a vocabulary "
        "with falsy and look-alike terms in every position, up to 3 open triples() generators stepped between mutations; "
        "a further stream calls the Memory API directly (store.add, store.remove(pattern, graph | None), add_graph, remove_graph) "
        "interleaved with Graph calls; after every op len / list(g) / 7 wild-carded shapes / membership per graph and the store API "
        "(store.triples(pattern, None | graph) with the graphs reported per triple, len(store), store.contexts(), store.contexts(t)) "
        "and Graph.triples_choices (a list of 0-3 terms in one rotating position; and its whole dispatch: no / one / two / three list positions) "
        "are compared with the model (the compiled NESTED-dictionary model; pattern observations = its generator machine run to "
        "exhaustion) and with a set-of-quads + set-of-graph-keys oracle; every real generator is also replayed next() by next() "
        "on the concrete generator machine (statistics gen_exact / gen_diverge). "
        "non-trivial = some remove deleted a triple and (mem) some triple was in two graphs at once; distinct = distinct op lists")
ASSUMPTIONS = ["quoted statements (QuotedGraph / formula-aware add) are outside the property; quoted=False everywhere",
               "single thread; event dispatch of Store.add/remove has no subscribers",
               "on SimpleMemory the operand of -= is never a live view of the same store (the statement grants "
               "iteration-under-mutation safety on the default store only; `g -= g` on SimpleMemory raises RuntimeError)",
               "graph identifiers are truthy IdentifiedNodes (a falsy identifier is replaced by Graph.__init__; C02's ground)"]
TRUSTED = ["harness/c01.py generators, set oracle and canonicalisation", "lean/RV/C01/Drive.lean line protocol",
           "a Python dict is an insertion-ordered association list; dictionaries referenced by a suspended generator are "
           "never replaced (reference = lookup by path); the hash order of the set copied by the all-unbound fast path is not modelled"]

TERMS = [Literal(""), Literal(0), Literal(False), URIRef(""), URIRef("http://e/x"), BNode("x"), Literal("x"),
         Literal("x", lang="en"), Literal("1"), Literal(1), Variable("x"), Literal(0.0)]
assert all(a != b and not (a == b) for a, b in itertools.combinations(TERMS, 2)), "vocabulary must be pairwise unequal"  # (some hashes collide on purpose: Literal("x") / BNode("x") / Variable("x"))
TERM_ID = {t: i for i, t in enumerate(TERMS)}
GIDS = {0: URIRef("http://e/g"), 1: BNode("http://e/g"), 2: URIRef("http://e/h"),
        50: URIRef("http://e/s0"), 51: BNode("http://e/s0")}
KEY_OF = {v: k for k, v in GIDS.items()}
SHAPES = [m for m in range(1, 8)]  # bit 1: s wild, bit 2: p wild, bit 4: o wild (0 = fully bound, 7 = all wild)


def _fresh_ident(i):
    x = GIDS[i]
    y = type(x)(str(x))
    assert y == x and y is not x
    return y


# ------------------------------------------------------------------------------------------------ generation


def _enum_case(i):
    """thorough tier: every history of length 1..4 over 2 triples x 2 graphs, alphabet of 10 ops, on both stores"""
    store = "mem" if i < N_ENUM else "simple"
    i %= N_ENUM
    n, base = 1, 0
    while i >= base + 10 ** n:
        base += 10 ** n
        n += 1
    j = i - base
    T = [[4, 4, 0], [4, 4, 1]]
    ops = []
    for _ in range(n):
        a, j = j % 10, j // 10
        if store == "mem":
            alpha = ([["add", g, 0] + t for g in (0, 1) for t in T] + [["remove", g, 0] + t for g in (0, 1) for t in T]
                     + [["remove", g, 0, 4, 4, None] for g in (0, 1)])
        else:
            alpha = ([["sadd", g, 0] + t for g in (0, 1) for t in T] + [["sremove", g, 0] + t for g in (0, 1) for t in T]
                     + [["sremove", g, 0, 4, 4, None] for g in (0, 1)])
        ops.append(alpha[a])
    return {"store": store, "pool": T, "ops": ops}


def gen_case(rng, tier, i):
    if tier == "thorough" and i < 2 * N_ENUM:
        return _enum_case(i)
    store = "mem" if rng.random() < 0.72 else "simple"
    ids = list(range(len(TERMS)))
    falsy = [0, 1, 2, 3, 11]
    S = rng.sample(ids, rng.randint(1, 3))
    P = rng.sample(ids, rng.randint(1, 2))
    O = rng.sample(ids, rng.randint(1, 3))
    if rng.random() < 0.8:  # make sure falsy terms occur in every position over the run
        S[0] = rng.choice(falsy)
        O[0] = rng.choice(falsy)
    if rng.random() < 0.5:
        P[0] = rng.choice(falsy)
    if rng.random() < 0.4:
        O.append(S[0])  # same term as subject and object

    def tr():
        return [rng.choice(S), rng.choice(P), rng.choice(O)]

    pool = []
    for _ in range(rng.randint(3, 7)):
        t = tr()
        if t not in pool:
            pool.append(t)

    def pick():
        return list(rng.choice(pool)) if rng.random() < 0.85 else tr()

    def pat():
        t = pick()
        m = rng.choice([0, 0, 1, 2, 3, 4, 5, 6, 7, 7])
        return [None if m & 1 else t[0], None if m & 2 else t[1], None if m & 4 else t[2]]

    def tlist(k=4):
        return [pick() for _ in range(rng.randint(0, k))]

    n = rng.randint(1, 24 if tier == "quick" else 40)
    ops = []
    if store == "mem" and rng.random() < 0.4:
        # interleaving scenario: a few adds, generators with wild-carded patterns, then single steps between mutations
        G = [0, 1, 2]
        # "writer" variant: the iterated graph A is the ONLY graph of the store with any data when the iteration
        # starts; while it is suspended the other graphs receive their first triples (sharing subjects /
        # predicates / objects with A's), are emptied again, …  The iteration must still yield A's triples only.
        writer = rng.random() < 0.4
        ga = rng.choice(G)
        # "deep" variant (round g): one subject with up to 3 predicates x 2 objects in the iterated graph, generators over
        # the TWO-LEVEL shapes, and between single next() steps whole second-level groups are removed (emptying an inner
        # dictionary whose key the suspended generator has already copied) and re-added under old and new keys
        deep = rng.random() < 0.35
        dts = []
        if deep:
            s0, dp, do = rng.choice(S), rng.sample(ids, 3), rng.sample(ids, 2)
            dts = [[s0, p_, o_] for p_ in dp for o_ in do if rng.random() < 0.8] or [[s0, dp[0], do[0]]]
            for t in dts:
                if t not in pool:
                    pool.append(t)
                ops.append(["add", ga, rng.randint(0, 1)] + t)
        for _ in range(rng.randint(0 if deep else 2, 3 if deep else 8)):
            ops.append(["add", ga if writer else rng.choice(G), rng.randint(0, 1)] + pick())
        first_g = ops[0][1]
        nit = rng.randint(1, 3)
        for k in range(nit):
            t = rng.choice(dts) if deep else pick()
            m = rng.choice([6, 6, 2, 2, 5, 3]) if deep else rng.choice([1, 2, 3, 4, 4, 5, 6, 6, 7])
            gi = first_g if rng.random() < (0.9 if writer else 0.6) else rng.choice(G)
            ops.append(["iopen", k, gi, rng.randint(0, 1)] + [None if m & 1 else t[0], None if m & 2 else t[1], None if m & 4 else t[2]])
        for _ in range(rng.randint(3, 12)):
            ops.append(["istep", rng.randrange(nit), 1])
            for _ in range(rng.randint(0, 2)):
                g, via, r = rng.choice(G), rng.randint(0, 1), rng.random()
                if deep and r < 0.65:
                    t = rng.choice(dts)
                    if rng.random() < 0.6:   # remove a whole second-level group of the iterated graph / of every graph
                        m = rng.choice([4, 4, 4, 5, 0, 1, 2])
                        pt = [None if m & 1 else t[0], None if m & 2 else t[1], None if m & 4 else t[2]]
                        ops.append(["remove", first_g, via] + pt if rng.random() < 0.8 else ["st_remove", None, via] + pt)
                    else:                    # put something back under an old or a new key
                        t2 = list(t) if rng.random() < 0.5 else [t[0], rng.choice(ids), rng.choice(ids)]
                        ops.append(["add", first_g if rng.random() < 0.7 else g, via] + t2)
                elif writer and r < 0.6:
                    gb = rng.choice([x for x in G if x != ga])
                    t = pick() if rng.random() < 0.5 else tr()
                    w_ = rng.random()
                    if w_ < 0.5:
                        ops.append(["add", gb, via] + t)
                    elif w_ < 0.75:
                        ops.append(["st_add", gb, rng.choice([via, 2])] + t)
                    elif w_ < 0.9:
                        ops.append(["iadd", gb, via, ["list", [t, tr()]]])
                    else:
                        ops.append(["addN", gb, via, [t + [gb, "twin"]]])
                elif r < 0.55:
                    ops.append(["remove", g, via] + pick())
                elif r < 0.7:
                    ops.append(["remove", g, via] + pat())
                elif r < 0.9:
                    ops.append(["add", g, via] + pick())
                elif r < 0.93:
                    ops.append(["set", g, via] + pick())
                elif r < 0.96:
                    ops.append(["st_remove", None, via] + pick())
                elif r < 0.98:
                    ops.append(["st_rmg", g, rng.choice([via, via, 2])])
                else:
                    ops.append(["isub", g, via, ["graph", rng.choice(G), 0]])
        for k in range(nit):
            ops.append(["istep", k, 50])
    elif store == "mem" and rng.random() < 0.45:
        # store-API stream: the Memory instance is driven directly, interleaved with Graph-level calls
        G = [0, 1, 2]
        for _ in range(n):
            g, via, r = rng.choice(G), rng.randint(0, 1), rng.random()
            if r < 0.30:
                t = pick()
                ops.append(["st_add", g, rng.choice([via, via, 2])] + t)
                if rng.random() < 0.4:
                    ops.append(["st_add", rng.choice(G), rng.randint(0, 1)] + t)
            elif r < 0.42:
                ops.append(["st_remove", None, via] + pat())
            elif r < 0.55:
                ops.append(["st_remove", g, rng.choice([via, via, 2])] + pat())
            elif r < 0.60:
                ops.append(["st_addg", g, rng.choice([via, via, 2])])
            elif r < 0.68:
                ops.append(["st_rmg", g, via])
            elif r < 0.78:
                ops.append(["add", g, via] + pick())
            elif r < 0.86:
                ops.append(["remove", g, via] + pat())
            elif r < 0.89:
                ops.append(["set", g, via] + pick())
            elif r < 0.93:
                qs = [pick() + [g if rng.random() < 0.7 else rng.choice(G), rng.choice(["obj", "twin", "xtwin", "ident"])]
                      for _ in range(rng.randint(0, 3))]
                ops.append(["addN", g, via, qs])
            else:
                kind = rng.choice(["list", "gen", "graph", "extsame"])
                src = ["graph", rng.choice(G), rng.randint(0, 1)] if kind == "graph" else [kind, tlist(3)]
                ops.append([rng.choice(["iadd", "isub"]), g, via, src])
    elif store == "mem":
        G = [0, 1, 2]
        first = None
        iters = []
        with_iters = rng.random() < 0.45
        for _ in range(n):
            g, via = rng.choice(G), rng.randint(0, 1)
            r = rng.random()
            if with_iters and r < 0.10 and len(iters) < 3:
                k = len(iters)
                iters.append(k)
                # iterate the first-used graph more often (its context is the store's default context)
                gi = 0 if rng.random() < 0.5 else g
                ops.append(["iopen", k, gi, via] + pat())
            elif with_iters and iters and r < 0.32:
                ops.append(["istep", rng.choice(iters), rng.choice([1, 1, 1, 2, 9])])
            elif r < 0.50:
                t = pick()
                if first is None:
                    first = (g, t)
                ops.append(["add", g, via] + t)
                if rng.random() < 0.35:  # share the triple with another graph
                    ops.append(["add", rng.choice(G), rng.randint(0, 1)] + t)
            elif r < 0.70:
                if first is not None and rng.random() < 0.2:  # remove the first-ever triple (default compression)
                    ops.append(["remove", first[0], via] + first[1])
                else:
                    ops.append(["remove", g, via] + pat())
            elif r < 0.76:
                ops.append(["set", g, via] + pick())
            elif r < 0.83:
                qs = []
                for _ in range(rng.randint(0, 4)):
                    c = g if rng.random() < 0.7 else rng.choice(G)
                    qs.append(pick() + [c, rng.choice(["obj", "obj", "twin", "twin", "xtwin", "ident"])])
                ops.append(["addN", g, via, qs])
            elif r < 0.95:
                kind = rng.choice(["list", "gen", "ext", "extsame", "extsame", "graph", "graph"])
                src = ["graph", rng.choice(G), rng.randint(0, 1)] if kind == "graph" else [kind, tlist()]
                ops.append([rng.choice(["iadd", "isub"]), g, via, src])
            elif r < 0.975:
                ops.append(["bin", rng.choice(["add", "sub", "mul", "xor"]), g, via, rng.choice(G), rng.randint(0, 1)])
            else:
                ops.append(["binx", rng.choice(["add", "sub", "mul", "xor"]), g, via, tlist(), rng.choice("LR")])
        if with_iters:
            for k in iters:
                if rng.random() < 0.7:
                    ops.append(["istep", k, 50])
    else:
        for _ in range(n):
            i_, via = rng.randint(0, 1), rng.randint(0, 1)
            r = rng.random()
            if r < 0.42:
                ops.append(["sadd", i_, via] + pick())
            elif r < 0.66:
                ops.append(["sremove", i_, via] + pat())
            elif r < 0.72:
                ops.append(["sset", i_, via] + pick())
            elif r < 0.79:
                qs = []
                for _ in range(rng.randint(0, 4)):
                    c = 50 + i_ if rng.random() < 0.7 else 51 - i_
                    qs.append(pick() + [c, rng.choice(["obj", "twin", "twin", "xtwin", "ident"])])
                ops.append(["saddN", i_, via, qs])
            elif r < 0.93:
                kind = rng.choice(["list", "gen", "ext", "extsame", "extsame", "store"])
                src = ["store", 1 - i_] if kind == "store" else [kind, tlist()]
                ops.append([rng.choice(["siadd", "sisub"]), i_, via, src])
            elif r < 0.965:
                ops.append(["sbin", rng.choice(["add", "sub", "mul", "xor"]), i_, rng.randint(0, 1)])
            else:
                ops.append(["sbinx", rng.choice(["add", "sub", "mul", "xor"]), i_, tlist(), rng.choice("LR")])
    return {"store": store, "pool": pool, "ops": ops}


# ------------------------------------------------------------------------------------------------ shared helpers


def _w(x):
    return "*" if x is None else str(x)


def _shape_pats(t):
    for m in SHAPES:
        yield [None if m & 1 else t[0], None if m & 2 else t[1], None if m & 4 else t[2]]


def _obs_plan(case, k):
    """observation requests made after op number k: list of (kind, graph, pattern/triple)"""
    pool = case["pool"] or [[4, 4, 4]]
    gs = [0, 1, 2] if case["store"] == "mem" else [0, 1]
    probe = pool[k % len(pool)]
    plan = []
    for g in gs:
        plan.append(("len", g, None))
        for pt in _shape_pats(probe):
            plan.append(("tri", g, pt))
        for t in pool:
            plan.append(("has", g, t))
    if case["store"] == "mem":
        # the store API itself: len(store), store.triples(pattern, None | graph) with the graphs reported per
        # triple (8 shapes for None, 3 rotating shapes for one graph), store.contexts(), store.contexts(t | pattern)
        plan.append(("ulen", None, None))
        for pt in _shape_pats(probe):
            plan.append(("mtri", None, pt))
        plan.append(("mtri", None, list(probe)))
        gk = k % 3
        for m in (k % 8, (k + 3) % 8, 7):
            plan.append(("mtri", gk, [None if m & 1 else probe[0], None if m & 2 else probe[1], None if m & 4 else probe[2]]))
        plan.append(("ctxs", None, [None, None, None]))
        for t in pool[:3]:
            plan.append(("ctxs", None, list(t)))
        plan.append(("ctxs", None, [probe[0], None, probe[2]]))
        # Graph.triples_choices: a list of 0..3 terms (repeats possible) in one rotating position, the two others
        # bound / wild-carded in turn
        si = k % 3
        cs = [pool[(k + j) % len(pool)][si] for j in range((k // 3) % 4)]
        others = [i for i in range(3) if i != si]
        a = probe[others[0]] if k % 2 else None
        b = probe[others[1]] if (k // 2) % 2 else None
        plan.append(("tch", k % 3, (si, cs, a, b)))
        # the whole dispatch of triples_choices: no list at all / two or three lists (ValueError) / one list
        kinds = [("t", "t", "t"), ("l", "l", "t"), ("t", "l", "l"), ("l", "t", "l"), ("l", "l", "l"), ("t", "t", "l"),
                 ("l", "t", "t"), ("t", "l", "t")][k % 8]
        args = []
        for i, kd in enumerate(kinds):
            if kd == "l":
                args.append(["l", [] if (k // 8 + i) % 3 == 0 else [probe[i]] + ([pool[(k + 1) % len(pool)][i]] if (k + i) % 2 else [])])
            else:
                args.append(["t", probe[i] if (k // 2 + i) % 2 else None])
        plan.append(("tchg", (k + 1) % 3, args))
    return plan


def _matches(pt, t):
    return all(a is None or a == b for a, b in zip(pt, t))


def _fmt(ts):
    return " ".join(",".join(map(str, t)) for t in sorted(ts))


def _src_triples(src):
    return [tuple(t) for t in src[1]]


# ------------------------------------------------------------------------------------------------ model side


def _mut_line(op):
    k = op[0]
    if k in ("add", "remove", "set"):
        return f"{k} {op[1]} " + " ".join(_w(x) for x in op[3:6])
    if k == "addN":
        return f"addN {op[1]} " + " ".join(f"{q[0]} {q[1]} {q[2]} {q[3]} {0 if q[4] == 'ident' else 1}" for q in op[3])
    if k in ("iadd", "isub"):
        src = op[3]
        if src[0] == "graph":
            return f"{k}G {op[1]} {src[1]}"
        return f"{k} {op[1]} " + " ".join(f"{t[0]} {t[1]} {t[2]}" for t in src[1])
    if k == "bin":
        return f"bin {op[1]} {op[2]} {op[4]}"
    if k == "binx":
        return f"binl {op[1]} {op[2]} {op[5]} " + " ".join(f"{t[0]} {t[1]} {t[2]}" for t in op[4])
    if k == "sbinx":
        return f"sbinl {op[1]} {op[2]} {op[4]} " + " ".join(f"{t[0]} {t[1]} {t[2]}" for t in op[3])
    if k == "st_add":
        return f"madd {op[1]} {op[3]} {op[4]} {op[5]}"
    if k == "st_remove":
        return f"mremove {_w(op[1])} " + " ".join(_w(x) for x in op[3:6])
    if k == "st_addg":
        return f"addgraph {op[1]}"
    if k == "st_rmg":
        return f"rmgraph {op[1]}"
    if k in ("sadd", "sremove", "sset"):
        return f"{k} {op[1]} " + " ".join(_w(x) for x in op[3:6])
    if k == "saddN":
        return f"saddN {op[1]} " + " ".join(f"{q[0]} {q[1]} {q[2]} {q[3]} {0 if q[4] == 'ident' else 1}" for q in op[3])
    if k in ("siadd", "sisub"):
        src = op[3]
        if src[0] == "store":
            return f"{k}S {op[1]} {src[1]}"
        return f"{k} {op[1]} " + " ".join(f"{t[0]} {t[1]} {t[2]}" for t in src[1])
    if k == "sbin":
        return f"sbin {op[1]} {op[2]} {op[3]}"
    return "echo ok"  # iopen / istep: checked by the admissibility run (see _iter_admissible)


def _obs_lines(case, k):
    pre = "" if case["store"] == "mem" else "s"
    out = []
    for kind, g, x in _obs_plan(case, k):
        if kind == "len":
            out.append(f"{pre}len {g}")
        elif kind == "ulen":
            out.append("ulen")
        elif kind == "mtri":
            out.append(f"mtri {_w(g)} " + " ".join(_w(v) for v in x))
        elif kind == "ctxs":
            out.append("ctxs " + " ".join(_w(v) for v in x))
        elif kind == "tchg":
            out.append(f"tchg {g} " + " ".join(("l:" + ",".join(map(str, v))) if kd == "l" else ("t:" + _w(v)) for kd, v in x))
        elif kind == "tch":
            si, cs, a, b = x
            out.append(f"tch {g} {'spo'[si]} {_w(a)} {_w(b)} " + " ".join(map(str, cs)))
        else:
            out.append(f"{pre}{kind} {g} " + " ".join(_w(v) for v in x))
    return out


def model_lines(case):
    pr = (case["pool"] or [[4, 4, 4]])[0]
    lines = ["reset", f"binprobe {pr[0]} {pr[1]} {pr[2]}"]
    for k, op in enumerate(case["ops"]):
        lines.append(_mut_line(op))
        lines += _obs_lines(case, k)
    lines.append("echo iter-adm:ok")
    return lines


def select_model_obs(case, out):
    return out[2:]


# ------------------------------------------------------------------------------------------------ implementation side


class _World:
    def __init__(self, store):
        self.kind = store
        if store == "mem":
            self.mem = Memory()
            self.objs = {g: [Graph(self.mem, GIDS[g]), Graph(self.mem, _fresh_ident(g)), _same_id_graph(g, [])]
                         for g in (0, 1, 2)}
            self.sets = {g: set() for g in (0, 1, 2)}
            self.keys = set()   # registered graphs (oracle for store.contexts())
        else:
            self.stores = [SimpleMemory(), SimpleMemory()]
            self.objs = {i: [Graph(self.stores[i], GIDS[50 + i]), Graph(self.stores[i], _fresh_ident(50 + i))] for i in (0, 1)}
            self.sets = {i: set() for i in (0, 1)}
            self.keys = set()

    def gid(self, g):
        return g if self.kind == "mem" else 50 + g


def _term(x):
    return None if x is None else TERMS[x]


def _tt(t):
    return (TERMS[t[0]], TERMS[t[1]], TERMS[t[2]])


def _ids(t):
    return (TERM_ID[t[0]], TERM_ID[t[1]], TERM_ID[t[2]])


def _same_id_graph(gid, ts):
    """a distinct graph on ANOTHER store (alternately Memory / SimpleMemory) that carries the same identifier"""
    e = Graph(SimpleMemory() if len(ts) % 2 else Memory(), _fresh_ident(gid) if len(ts) % 3 else GIDS[gid])
    for t in ts:
        e.add(_tt(t))
    return e


def _ext_graph(ts):
    e = Graph(Memory(), URIRef("http://e/ext"))
    for t in ts:
        e.add(_tt(t))
    return e


def _source(w, src, g=None):
    """the Python object handed to += / -= and the triples the statement's set semantics sees"""
    if src[0] == "extsame":
        return _same_id_graph(w.gid(g), src[1]), _src_triples(src)
    if src[0] == "list":
        return [_tt(t) for t in src[1]], _src_triples(src)
    if src[0] == "gen":
        return (_tt(t) for t in src[1]), _src_triples(src)
    if src[0] == "ext":
        return _ext_graph(src[1]), _src_triples(src)
    if src[0] in ("graph", "store"):
        h = src[1]
        via = src[2] if src[0] == "graph" else 0
        return w.objs[h][via], sorted(w.sets[h])
    raise ValueError(src)


def _quad_ctx(w, g, via, c, kind):
    """context object of a quad given to graph g's addN (g, c are harness graph numbers / identifiers)"""
    cg = c if w.kind == "mem" else c - 50
    if kind == "ident":
        return GIDS[c]
    if kind == "xtwin":
        return _same_id_graph(c, [])
    if cg == g:
        return w.objs[g][via if kind == "obj" else 1 - via]
    return w.objs[cg][0 if kind == "obj" else 1]


def _apply(w, op, stats):
    """run one mutating / binary op on the real objects; update the set oracle; return (obs line, viol list)"""
    k = op[0]
    viol = []
    if k in ("add", "sadd"):
        g, via, t = op[1], op[2], tuple(op[3:6])
        w.objs[g][via].add(_tt(t))
        w.sets[g].add(t)
        w.keys.add(g)
    elif k == "st_add":
        g, via, t = op[1], op[2], tuple(op[3:6])
        w.mem.add(_tt(t), w.objs[g][via])
        w.sets[g].add(t)
        w.keys.add(g)
    elif k == "st_remove":
        g, via, pt = op[1], op[2], op[3:6]
        w.mem.remove(tuple(_term(x) for x in pt), None if g is None else w.objs[g][via])
        for h in ([g] if g is not None else list(w.sets)):
            gone = {t for t in w.sets[h] if _matches(pt, t)}
            stats["removed"] = stats.get("removed", 0) + len(gone)
            w.sets[h] -= gone
        stats["st_rm_" + ("all" if g is None else "graph")] = 1
    elif k == "st_addg":
        w.mem.add_graph(w.objs[op[1]][op[2]])
        w.keys.add(op[1])
    elif k == "st_rmg":
        w.mem.remove_graph(w.objs[op[1]][op[2]])
        w.sets[op[1]] = set()
        w.keys.discard(op[1])
    elif k in ("remove", "sremove"):
        g, via, pt = op[1], op[2], op[3:6]
        w.objs[g][via].remove(tuple(_term(x) for x in pt))
        gone = {t for t in w.sets[g] if _matches(pt, t)}
        stats["removed"] = stats.get("removed", 0) + len(gone)
        stats["rm_shape_%d" % sum((x is None) << i for i, x in enumerate(pt))] = 1
        w.sets[g] -= gone
    elif k in ("set", "sset"):
        g, via, t = op[1], op[2], tuple(op[3:6])
        w.objs[g][via].set(_tt(t))
        w.sets[g] = {x for x in w.sets[g] if not (x[0] == t[0] and x[1] == t[1])} | {t}
        w.keys.add(g)
    elif k in ("addN", "saddN"):
        g, via, qs = op[1], op[2], op[3]
        w.objs[g][via].addN([_tt(q[:3]) + (_quad_ctx(w, g, via, q[3], q[4]),) for q in qs])
        for q in qs:
            # the quad belongs to this graph iff its context is a Graph denoting it (same identifier)
            if q[4] != "ident" and q[3] == w.gid(g):
                w.sets[g].add(tuple(q[:3]))
                w.keys.add(g)   # every store.add registers its context
            stats["quad_" + q[4]] = stats.get("quad_" + q[4], 0) + 1
    elif k in ("iadd", "siadd"):
        g, via, src = op[1], op[2], op[3]
        obj, ts = _source(w, src, g)
        gg = w.objs[g][via]
        gg += obj
        w.sets[g] |= set(ts)
        if ts:
            w.keys.add(g)
        stats["src_" + src[0]] = stats.get("src_" + src[0], 0) + 1
    elif k in ("isub", "sisub"):
        g, via, src = op[1], op[2], op[3]
        obj, ts = _source(w, src, g)
        gg = w.objs[g][via]
        gg -= obj
        w.sets[g] -= set(ts)
        stats["src_" + src[0]] = stats.get("src_" + src[0], 0) + 1
    elif k in ("bin", "sbin", "binx", "sbinx"):
        if k == "bin":
            name, a, b = op[1], w.objs[op[2]][op[3]], w.objs[op[4]][op[5]]
            A, B = w.sets[op[2]], w.sets[op[4]]
        elif k in ("binx", "sbinx"):
            name, g = op[1], op[2]
            ts, side = (op[4], op[5]) if k == "binx" else (op[3], op[4])
            a, b = w.objs[g][op[3] if k == "binx" else 0], _same_id_graph(w.gid(g), ts)
            A, B = w.sets[g], {tuple(t) for t in ts}
            if side == "L":
                a, b, A, B = b, a, B, A
        else:
            name, a, b = op[1], w.objs[op[2]][0], w.objs[op[3]][1]
            A, B = w.sets[op[2]], w.sets[op[3]]
        alias = (len(A) + len(B)) % 2 == 1   # `|` and `&` are the same methods under another name; `|=`, `&=`, `^=` rebind
        if alias and name in ("add", "mul", "xor"):
            r = a
            if name == "add":
                r |= b
            elif name == "mul":
                r &= b
            else:
                r ^= b
            if r is a:
                viol.append(f"binop: in-place form of {name} returned the left operand itself")
        else:
            r = {"add": lambda: a + b, "sub": lambda: a - b, "mul": lambda: a * b, "xor": lambda: a ^ b}[name]()
        got = [_ids(t) for t in r]
        want = {"add": A | B, "sub": A - B, "mul": A & B, "xor": A ^ B}[name]
        if len(got) != len(set(got)):
            viol.append(f"dup: result of {name} iterates a triple twice")
        if set(got) != want:
            viol.append(f"binop: {name} gave {sorted(got)} expected {sorted(want)}")
        if r.store is a.store or r.store is b.store:
            viol.append("binop: result shares the operand's store")
        # the NEW graph is a store of its own: look at it through its three indexes and through `in` as well
        pr = w.probe
        parts = [_fmt(got)]
        for pt in ((pr[0], None, None), (None, pr[1], None), (None, None, pr[2])):
            sub = [_ids(t) for t in r.triples(tuple(_term(v) for v in pt))]
            parts.append(_fmt(sub))
            if sorted(sub) != sorted(t for t in want if _matches(pt, t)):
                viol.append(f"binop-pattern: result of {name} under pattern {pt} gave {sorted(sub)}, the set has "
                            f"{sorted(t for t in want if _matches(pt, t))}")
        has = _tt(pr) in r
        parts.append("1" if has else "0")
        if has != (pr in want):
            viol.append(f"binop-contains: ({pr} in result of {name}) is {has}")
        return " | ".join(parts), viol
    else:
        raise ValueError(op)
    return "ok", viol


def _observe(w, case, k, obs, viol):
    for kind, g, x in _obs_plan(case, k):
        if kind in ("ulen", "mtri", "ctxs"):
            U = set().union(*w.sets.values())
            try:
                if kind == "ctxs":
                    if x == [None, None, None]:
                        got = [KEY_OF[c.identifier] for c in (w.mem.contexts() if k % 2 else w.mem.contexts((None, None, None)))]
                        want = set(w.keys)
                    else:
                        got = [KEY_OF[c.identifier] for c in w.mem.contexts(tuple(_term(v) for v in x))]
                        want = {h for h in w.sets if tuple(x) in w.sets[h]} if None not in x else set()
                    obs.append(",".join(map(str, sorted(got))))
                    if len(got) != len(set(got)):
                        viol.append(f"dup: after op {k} store.contexts({x}) lists a graph twice")
                    elif set(got) != want:
                        viol.append(f"contexts: after op {k} store.contexts({x}) gave {sorted(got)} expected {sorted(want)}")
                elif kind == "mtri":
                    ctx = None if g is None else w.objs[g][(k + g) % 2]
                    got = [(_ids(t), sorted(KEY_OF[c.identifier] for c in cg))
                           for t, cg in w.mem.triples(tuple(_term(v) for v in x), ctx)]
                    obs.append(" ".join(",".join(map(str, t)) + "@" + "+".join(map(str, ks)) for t, ks in sorted(got)))
                    src = U if g is None else w.sets[g]
                    want = {t for t in src if _matches(x, t)}
                    ts = [t for t, _ in got]
                    if len(ts) != len(set(ts)):
                        viol.append(f"dup: after op {k} store.triples({x}, {g}) yields a triple twice")
                    elif set(ts) != want:
                        viol.append(f"store-pattern: after op {k} store.triples({x}, {g}) gave {sorted(ts)} expected {sorted(want)}")
                    else:
                        for t, ks in got:
                            wk = sorted(h for h in w.sets if t in w.sets[h])
                            if ks != wk:
                                viol.append(f"triple-contexts: after op {k} store.triples({x}, {g}) reports {t} in graphs {ks}, "
                                            f"it is in {wk}")
                                break
                elif kind == "ulen":
                    n = len(w.mem)
                    obs.append(str(n))
                    if n != len(U):
                        viol.append(f"union-len: after op {k} len(store) = {n}, the union of the graphs has {len(U)}")
            except Exception as e:  # noqa: BLE001
                obs.append("raise:" + type(e).__name__)
                viol.append(f"raise: union observation {kind} {x} after op {k} raised {type(e).__name__}: {e}")
            continue
        go = w.objs[g][(k + g) % 2]
        S = w.sets[g]
        try:
            if kind == "tchg":
                arg = tuple([TERMS[c] for c in v] if kd == "l" else _term(v) for kd, v in x)
                nl = sum(kd == "l" for kd, _ in x)
                try:
                    got = [_ids(t) for t in go.triples_choices(arg)]
                    obs.append(_fmt(got))
                    if nl >= 2:
                        viol.append(f"choices-dispatch: after op {k} triples_choices with {nl} list positions did not raise ValueError")
                    elif nl == 1:
                        si = [kd for kd, _ in x].index("l")
                        cs = x[si][1]
                        base = [t for t in S if all(kd == "l" or v is None or t[i] == v for i, (kd, v) in enumerate(x))]
                        want = sorted(base) if not cs else sorted(t for c in cs for t in base if t[si] == c)
                        if sorted(got) != want:
                            viol.append(f"choices: after op {k} graph {g} triples_choices({x}) gave {sorted(got)} expected {want}")
                    # no list position: the statement is silent (the code yields nothing); compared with the model only
                except ValueError:
                    obs.append("ValueError")
                    if nl < 2:
                        viol.append(f"choices-dispatch: after op {k} triples_choices({x}) raised ValueError with {nl} list position(s)")
                continue
            if kind == "tch":
                si, cs, a, b = x
                others = [i for i in range(3) if i != si]
                arg = [None, None, None]
                arg[si] = [TERMS[c] for c in cs]
                arg[others[0]], arg[others[1]] = _term(a), _term(b)
                got = [_ids(t) for t in go.triples_choices(tuple(arg))]
                obs.append(_fmt(got))
                base = [t for t in S if (a is None or t[others[0]] == a) and (b is None or t[others[1]] == b)]
                # the statement's reading: the matching triples whose term in the list's position is one of the
                # choices (empty list = wildcard); a choice given twice is asked for twice
                want = sorted(base) if not cs else sorted(t for c in cs for t in base if t[si] == c)
                if sorted(got) != want:
                    viol.append(f"choices: after op {k} graph {g} triples_choices(slot {'spo'[si]}, {cs}, others {a},{b}) "
                                f"gave {sorted(got)} expected {want}")
                continue
            if kind == "len":
                n = len(go)
                obs.append(str(n))
                if n != len(S):
                    viol.append(f"len: after op {k} len(graph {g}) = {n}, the set has {len(S)}")
            elif kind == "tri":
                pt = tuple(_term(v) for v in x)
                if x == [None, None, None]:
                    got = [_ids(t) for t in go]  # iteration
                else:
                    got = [_ids(t) for t in go.triples(pt)]
                obs.append(_fmt(got))
                want = {t for t in S if _matches(x, t)}
                shape = "".join("?" if v is None else "b" for v in x)
                if len(got) != len(set(got)):
                    viol.append(f"dup: after op {k} triples({shape}) on graph {g} yields a triple twice: {sorted(got)}")
                elif set(got) != want:
                    viol.append(f"pattern-{shape}: after op {k} graph {g} pattern {x} gave {sorted(got)} expected {sorted(want)}")
            else:
                b = _tt(x) in go
                obs.append("1" if b else "0")
                if b != (tuple(x) in S):
                    viol.append(f"contains: after op {k} ({x} in graph {g}) is {b}, the set says {tuple(x) in S}")
        except Exception as e:  # noqa: BLE001
            obs.append("raise:" + type(e).__name__)
            viol.append(f"raise: observation {kind} {x} on graph {g} after op {k} raised {type(e).__name__}: {e}")


def _iter_admissible(lines, expect):
    """ask the compiled model whether every triple the real generators yielded is a possible yield of the
    iterator machine (matches the pattern and passes the has-context test at that moment / is in the snapshot).
    The same replay drives the CONCRETE generator machine (`NGen`: level-by-level key copies, insertion-ordered
    dictionaries) with one `gnext` per real next(); `expect[i]` is what the real generator did at line i.  Agreement
    is counted (stats gen_exact / gen_diverge) but a disagreement is not an alarm: the statement allows any sound
    iteration discipline and order, only a RAISE predicted by the machine (`error`) is reported.
    returns (observation, exact, diverge)"""
    exe = core.driver_path(sys.modules[__name__])
    try:
        p = subprocess.run([exe], input="\n".join(lines) + "\n", stdout=subprocess.PIPE, stderr=subprocess.PIPE,
                           text=True, timeout=60, cwd=core.LEAN)
    except Exception as e:  # noqa: BLE001
        return "iter-adm:no-driver " + type(e).__name__, 0, 0
    out = p.stdout.split("\n")
    exact = diverge = 0
    snapshot = set()   # generators over the all-unbound shape: a copy of a Python SET is walked, its order is hash order
    for i, (ln, o) in enumerate(zip(lines, out)):
        if ln.startswith("iyield") and o != "adm":
            return "iter-adm:" + o + " " + ln, exact, diverge
        if o in ("bad-op", "error"):
            return "iter-adm:" + o + " " + ln, exact, diverge
        if ln.startswith("gopen") and ln.split()[3:6] == ["*", "*", "*"]:
            snapshot.add(ln.split()[1])
        if ln.startswith("gnext"):
            if ln.split()[1] in snapshot:   # compare only yield-vs-stop (the number of yields = size of the start copy)
                if (o == "stop") == (expect.get(i) == "stop"):
                    exact += 1
                else:
                    diverge += 1
            elif o == expect.get(i):
                exact += 1
            else:
                diverge += 1
    return "iter-adm:ok", exact, diverge


def run_impl(case):
    w = _World(case["store"])
    w.probe = tuple((case["pool"] or [[4, 4, 4]])[0])
    obs, viol, stats = [], [], {"ops": len(case["ops"]), "store_" + case["store"]: 1}
    gens = {}      # k -> [generator, g, pattern, history of graph g's content since the generator began | None]
    adm_lines = ["reset"]
    adm_expect = {}   # index of a `gnext` line -> what the real generator did ("s,p,o" | "stop" | "raise")
    shared = False
    for k, op in enumerate(case["ops"]):
        kind = op[0]
        stats["op_" + kind] = stats.get("op_" + kind, 0) + 1
        if kind == "iopen":
            _k, g, via, pt = op[1], op[2], op[3], op[4:7]
            gens[_k] = [w.objs[g][via].triples(tuple(_term(x) for x in pt)), g, pt, None]
            obs.append("ok")
        elif kind == "istep":
            ent = gens.get(op[1])
            line = "ok"
            if ent is not None:
                gen, g, pt, hist = ent
                if hist is None:
                    ent[3] = hist = [set(w.sets[g])]
                    adm_lines.append(f"iopen {op[1]} {g} " + " ".join(_w(x) for x in pt))
                    adm_lines.append(f"gopen {op[1]} {g} " + " ".join(_w(x) for x in pt))
                for _ in range(op[2]):
                    adm_lines.append(f"gnext {op[1]}")   # the concrete generator machine makes the same next()
                    try:
                        t = _ids(next(gen))
                    except StopIteration:
                        adm_expect[len(adm_lines) - 1] = "stop"
                        break
                    except Exception as e:  # noqa: BLE001
                        adm_expect[len(adm_lines) - 1] = "raise"
                        line = "raise:" + type(e).__name__
                        viol.append(f"iter-raise: next() of generator {op[1]} raised {type(e).__name__}: {e}")
                        break
                    adm_expect[len(adm_lines) - 1] = f"{t[0]},{t[1]},{t[2]}"
                    stats["yields"] = stats.get("yields", 0) + 1
                    adm_lines.append(f"iyield {op[1]} {t[0]} {t[1]} {t[2]}")
                    if not _matches(pt, t):
                        viol.append(f"iter-match: generator {op[1]} over {pt} yielded {t}")
                    elif not any(t in s for s in hist):
                        viol.append(f"iter-ghost: generator {op[1]} on graph {g} pattern {pt} yielded {t}, which was "
                                    f"never in that graph since the iteration began")
            obs.append(line)
        else:
            try:
                line, v = _apply(w, op, stats)
                viol += v
            except Exception as e:  # noqa: BLE001
                line = "raise:" + type(e).__name__
                viol.append(f"raise: op {k} {op[:3]} raised {type(e).__name__}: {e}")
            obs.append(line)
            adm_lines.append(_mut_line(op) if kind not in ("bin", "sbin", "binx", "sbinx") else "echo ok")
            for ent in gens.values():
                if ent[3] is not None:
                    ent[3].append(set(w.sets[ent[1]]))
        if case["store"] == "mem" and not shared:
            shared = bool((w.sets[0] & w.sets[1]) | (w.sets[0] & w.sets[2]) | (w.sets[1] & w.sets[2]))
        _observe(w, case, k, obs, viol)
    if any(l.startswith("gnext") for l in adm_lines):
        line, exact, diverge = _iter_admissible(adm_lines, adm_expect)
        obs.append(line)
        stats["iter_cases"] = 1
        stats["gen_exact"] = exact
        stats["gen_diverge"] = diverge
    else:
        obs.append("iter-adm:ok")
    removed = stats.get("removed", 0) > 0
    stats["size_final"] = sum(len(s) for s in w.sets.values())
    return {"obs": obs, "viol": viol, "nontrivial": removed and (shared or case["store"] == "simple"),
            "key": repr(case["ops"]), "stats": stats}


# ------------------------------------------------------------------------------------------------ shrinking, findings


def shrink(case):
    ops, pool = case["ops"], case["pool"]
    for i in range(len(ops)):
        yield {**case, "ops": ops[:i] + ops[i + 1:]}
    for i, op in enumerate(ops):
        if op[0] in ("addN", "saddN") and op[3]:
            for j in range(len(op[3])):
                yield {**case, "ops": ops[:i] + [op[:3] + [op[3][:j] + op[3][j + 1:]]] + ops[i + 1:]}
        if op[0] in ("iadd", "isub", "siadd", "sisub") and op[3][0] in ("list", "gen", "ext", "extsame") and op[3][1]:
            for j in range(len(op[3][1])):
                yield {**case, "ops": ops[:i] + [op[:3] + [[op[3][0], op[3][1][:j] + op[3][1][j + 1:]]]] + ops[i + 1:]}
        if op[0] == "istep" and op[2] > 1:
            yield {**case, "ops": ops[:i] + [[op[0], op[1], 1]] + ops[i + 1:]}
    if len(pool) > 1:
        for i in range(len(pool)):
            yield {**case, "pool": pool[:i] + pool[i + 1:]}


def _m_ghost(case, result):
    """open generator on one graph, removal of the last copy of a triple from another graph, ghost yield"""
    kinds = [o[0] for o in case["ops"]]
    return ("iopen" in kinds and "remove" in kinds and result["viol"]
            and all(v.startswith("iter-ghost") for v in result["viol"]))


def _m_addn_identity(case, result):
    """addN with a quad whose context is an equal-identifier twin object was dropped"""
    return (any(o[0] in ("addN", "saddN") and any(q[4] == "twin" for q in o[3]) for o in case["ops"])
            and bool(result["viol"]))


MATCHERS = {"ghost_yield_default_context": _m_ghost, "addN_identifier_identity": _m_addn_identity}
