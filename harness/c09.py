"""C09 — Literal <-> Python value mapping is faithful and normalisation is idempotent.  DESIGN §6 C09.

Case kinds (one literal / one pair per case; `relit` = Literal(old[, datatype=dt][, lang=l]) made from an existing
literal, the first branch of Literal.__new__: {"kind": "relit", "old": <lit>, "dt": name|None, "lang": tag?};
`eqpy` = lit.eq(plain Python object): {"kind": "eqpy", "a": <lit>, "v": <python value spec>}; a `lex` case or a <lit>
with "bytes": true offers the same lexical form as UTF-8 bytes):
  {"kind": "lex", "dt": <xsd local name>, "cps": [code points], "intent": "valid"|"mutated"}
  {"kind": "py",  "v": <python value spec>}
  {"kind": "eq",  "a": <lit>, "b": <lit>}      lit = {"dt": name|None, "cps": […], "norm": bool} | {"v": <python value spec>}
Python value specs: {"t":"int","v":"-12"} {"t":"bool","v":1} {"t":"dec","s":0,"c":"123","e":-2} {"t":"str","cps":[…]}
  {"t":"bytes","b":[…],"dt":None|"hexBinary"|"base64Binary"} {"t":"date","f":[y,m,d]}
  {"t":"time","f":[h,mi,s,us],"tz":None|µs,"fold":0|1} {"t":"datetime","f":[y,m,d,h,mi,s,us],"tz":…,"fold":…}
  {"t":"td","us":"-1"} {"t":"dur","y":1,"m":2,"us":"0"} {"t":"float","hex":"0x1.8p+0"|"inf"|"-inf"|"nan"}

Observations (compared with the compiled Lean model, see lean/RV/C09/Drive.lean): datatype chosen, *validity* of the
lexical forms produced (spelling is a diagnostic: VERIF_C09_SPELL=1 compares it too), ill_typed, value (structurally),
value after re-reading, normalize() once and twice, eq / term equality.  Bytes values and
inputs outside the declared fragment of the CPython constructors answer `unmodelled` on both sides; xsd:double / xsd:float
lex cases and Literal(float) are compared through the `flex` / `fpy` driver commands (values as sign, mantissa, binary
exponent), float literals in the eq / eqpy / relit streams are `unmodelled`.

Property oracle (`viol`, independent of Lean): XSD 1.1 lexical spaces as regular expressions written from the
W3C productions + Python's own int / Fraction arithmetic for the values.
"""
import base64
import logging
import math
import os
import re
import warnings
from datetime import date, datetime, time, timedelta, timezone
from decimal import Decimal
from fractions import Fraction

import core  # noqa: F401
import c09_tables
import rdflib
from rdflib import Literal, URIRef
from rdflib.xsd_datetime import Duration

warnings.filterwarnings("ignore")
logging.disable(logging.CRITICAL)

import enum  # noqa: E402
from rdflib import RDF  # noqa: E402
from rdflib.term import _reset_bindings, bind  # noqa: E402


# operands of SUBCLASSES of the supported Python types (surface audit, design.d/C09.md)
class MyInt(int):
    pass


class Small(enum.IntEnum):
    ONE = 1
    TWO = 2
    SEVEN = 7


class MyDec(Decimal):
    pass


class MyStr(str):
    pass


class MyDate(date):
    pass


class MyDateTime(datetime):
    pass


class MyTime(time):
    pass


class MyDelta(timedelta):
    pass


def _sub(spec, v):
    """the same value as an instance of a subclass, when the spec asks for it"""
    if not spec.get("sub"):
        return v
    t = spec["t"]
    if t == "int":
        return Small(v) if v in (1, 2, 7) and spec["sub"] == "enum" else MyInt(v)
    if t == "dec":
        return MyDec(v)
    if t == "str":
        return MyStr(v)
    if t == "date":
        return MyDate(v.year, v.month, v.day)
    if t == "datetime":
        return MyDateTime(v.year, v.month, v.day, v.hour, v.minute, v.second, v.microsecond, tzinfo=v.tzinfo, fold=v.fold)
    if t == "time":
        return MyTime(v.hour, v.minute, v.second, v.microsecond, tzinfo=v.tzinfo, fold=v.fold)
    if t == "td":
        return MyDelta(days=v.days, seconds=v.seconds, microseconds=v.microseconds)
    return v


def dtarg(holder, dt):
    """the datatype= argument: a URIRef, or (axis `dtstr`) the same IRI as a plain str"""
    u = uri(dt)
    return str(u) if (u is not None and holder.get("dtstr")) else u

ID = "C09"
LEAN_TARGETS = ["RV.C09.Props", "RV.C09.Audit"]
AUDIT = "RV/C09/Audit.lean"
DRIVER = "drv_c09"
CASES = {"quick": 50000, "thorough": 1500000, "search": 100000}
TABLES = c09_tables.tables_text
SPELL = bool(os.environ.get("VERIF_C09_SPELL"))
RULE = ("one literal (or one pair) per case: grammar-generated valid lexical forms and mutated ones for 30 recognised "
        "datatypes, Python values of every supported type, pairs for eq; non-trivial = a form in the datatype's XSD "
        "lexical space / a supported Python value / a comparable pair; distinct = distinct (kind, datatype, text/value)")
ASSUMPTIONS = ["CPython's int(), Decimal(), format(Decimal,'f'), date/time/datetime.fromisoformat and isoformat behave "
               "as their documented grammar on the declared fragment (printable ASCII + ASCII white space; no ISO week "
               "dates; time/dateTime of the XSD shape) — exercised by this run",
               "float(str) is the correctly rounded (round-half-even, binary64) conversion of the decimal numeral and repr(float) the "
               "shortest digit string that reads back, closest first (the Lean model computes both with exact integers) — every "
               "xsd:double / xsd:float lex case and every Literal(float) case of this run is compared bit for bit",
               "base64.b64decode is binascii.a2b_base64 in non-strict mode (characters outside the alphabet skipped, pad counting "
               "as in CPython 3.12) — exercised by this run",
               "non-finite Decimals, ints beyond CPython's 4300-digit str() limit and Durations with fractional or "
               "mixed-sign parts have no XSD counterpart and are outside the quantifier"]
TRUSTED = ["harness/c09.py generators, XSD regular expressions and canonicalisation", "harness/c09_tables.py table extraction",
           "lean/RV/C09/Drive.lean line protocol"]

XSD = "http://www.w3.org/2001/XMLSchema#"
INT_BOUNDS = {  # XSD 1.1 Part 2 §3.4 (written from the spec, not from rdflib)
    "integer": (None, None), "nonPositiveInteger": (None, 0), "negativeInteger": (None, -1),
    "long": (-2 ** 63, 2 ** 63 - 1), "int": (-2 ** 31, 2 ** 31 - 1), "short": (-2 ** 15, 2 ** 15 - 1),
    "byte": (-128, 127), "nonNegativeInteger": (0, None), "unsignedLong": (0, 2 ** 64 - 1),
    "unsignedInt": (0, 2 ** 32 - 1), "unsignedShort": (0, 2 ** 16 - 1), "unsignedByte": (0, 255),
    "positiveInteger": (1, None)}
STRINGY = ["string", "normalizedString", "token", "language", "anyURI"]
DATEY = ["date", "time", "dateTime"]
DURS = ["duration", "dayTimeDuration", "yearMonthDuration"]
MODELLED = list(INT_BOUNDS) + ["decimal", "boolean"] + STRINGY + DATEY + DURS + ["hexBinary", "base64Binary"]
UNMODELLED_DT = []
FLOATY = ["float", "double"]     # modelled apart from the other datatypes (RV/C09/FloatModel.lean): lex and py streams only
ALL_DT = MODELLED + FLOATY + UNMODELLED_DT
NUMERIC = set(INT_BOUNDS) | {"decimal", "float", "double"}

# ------------------------------------------------------------------ XSD 1.1 lexical spaces (oracle)

_TZ = r"(?:Z|[+-](?:(?:0[0-9]|1[0-3]):[0-5][0-9]|14:00))"
_DATE = r"(-?)((?:[1-9][0-9]{3,}|0[0-9]{3}))-(0[1-9]|1[0-2])-(0[1-9]|[12][0-9]|3[01])"
_TIME = r"(?:([01][0-9]|2[0-3]):([0-5][0-9]):([0-5][0-9])(\.[0-9]+)?|(24):(00):(00)(\.0+)?)"
_SEC = r"[0-9]+(?:\.[0-9]+)?S"
_DUTIME = rf"T(?:[0-9]+H(?:[0-9]+M)?(?:{_SEC})?|[0-9]+M(?:{_SEC})?|{_SEC})"
_DUDAYTIME = rf"(?:[0-9]+D(?:{_DUTIME})?|{_DUTIME})"
_DUYM = r"(?:[0-9]+Y(?:[0-9]+M)?|[0-9]+M)"
RE = {
    "int": re.compile(r"[+-]?[0-9]+"),
    "decimal": re.compile(r"[+-]?(?:[0-9]+(?:\.[0-9]*)?|\.[0-9]+)"),
    "date": re.compile(rf"{_DATE}({_TZ})?"),
    "time": re.compile(rf"{_TIME}({_TZ})?"),
    "dateTime": re.compile(rf"{_DATE}T{_TIME}({_TZ})?"),
    "duration": re.compile(rf"-?P(?:(?:[0-9]+Y(?:[0-9]+M)?(?:[0-9]+D)?|[0-9]+M(?:[0-9]+D)?|[0-9]+D)(?:{_DUTIME})?|{_DUTIME})"),
    "dayTimeDuration": re.compile(rf"-?P{_DUDAYTIME}"),
    "yearMonthDuration": re.compile(rf"-?P{_DUYM}"),
    "hexBinary": re.compile(r"(?:[0-9a-fA-F]{2})*"),
    # XSD 1.1 §3.3.16.2: (B64quad* B64final)? with B64 ::= B64char #x20? and B64finalquad ::= B64 B64 B64 B64char
    # (a single space may follow every character except the last one)
    "base64Binary": re.compile(r"(?:(?:(?:[A-Za-z0-9+/] ?){4})*(?:(?:[A-Za-z0-9+/] ?){3}[A-Za-z0-9+/]|"
                               r"(?:[A-Za-z0-9+/] ?){2}[AEIMQUYcgkosw048] ?=|[A-Za-z0-9+/] ?[AQgw] ?= ?=))?"),
    "double": re.compile(r"(?:\+|-)?(?:[0-9]+(?:\.[0-9]*)?|\.[0-9]+)(?:[Ee](?:\+|-)?[0-9]+)?|(?:\+|-)?INF|NaN"),
    "language": re.compile(r"[a-zA-Z]{1,8}(?:-[a-zA-Z0-9]{1,8})*"),
    "durfields": re.compile(r"(-?)P(?:([0-9]+)Y)?(?:([0-9]+)M)?(?:([0-9]+)D)?(?:T(?:([0-9]+)H)?(?:([0-9]+)M)?(?:([0-9]+)(?:\.([0-9]+))?S)?)?"),
}
B64 = "ABCDEFGHIJKLMNOPQRSTUVWXYZabcdefghijklmnopqrstuvwxyz0123456789+/"
_XMLCHARS = re.compile("[\t\n\r\x20-\ud7ff\ue000-\ufffd\U00010000-\U0010ffff]*")


def _dim(y, m):
    if m == 2:
        return 29 if (y % 400 == 0 or (y % 100 != 0 and y % 4 == 0)) else 28
    return 30 if m in (4, 6, 9, 11) else 31


def _tzmin(t):
    if not t:
        return None
    if t == "Z":
        return 0
    v = int(t[1:3]) * 60 + int(t[4:6])
    return -v if t[0] == "-" else v


def xsd_parse(dt, s):
    """None if `s` is not in the lexical space of xsd:`dt`, else ("ok", value) with the XSD value as plain
    Python data (ints, Fractions, tuples)."""
    if dt in INT_BOUNDS:
        if not RE["int"].fullmatch(s):
            return None
        v = int(s)
        lo, hi = INT_BOUNDS[dt]
        if (lo is not None and v < lo) or (hi is not None and v > hi):
            return None
        return ("ok", v)
    if dt == "decimal":
        if not RE["decimal"].fullmatch(s):
            return None
        neg = s.startswith("-")
        body = s.lstrip("+-")
        ip, _, fp = body.partition(".")
        v = Fraction(int((ip + fp) or "0"), 10 ** len(fp))
        return ("ok", -v if neg else v)
    if dt == "boolean":
        return {"true": ("ok", True), "1": ("ok", True), "false": ("ok", False), "0": ("ok", False)}.get(s)
    if dt in STRINGY and dt != "language" and not _XMLCHARS.fullmatch(s):
        return None    # XML 1.0 Char: the value space of xsd:string
    if dt in ("string", "anyURI"):
        return ("ok", s)
    if dt == "normalizedString":
        return None if re.search(r"[\t\n\r]", s) else ("ok", s)
    if dt == "token":
        return None if (re.search(r"[\t\n\r]", s) or s.startswith(" ") or s.endswith(" ") or "  " in s) else ("ok", s)
    if dt == "language":
        return ("ok", s) if RE["language"].fullmatch(s) else None
    if dt == "date":
        m = RE["date"].fullmatch(s)
        if not m:
            return None
        y, mo, d = int(m.group(2)), int(m.group(3)), int(m.group(4))
        if d > _dim(y, mo):
            return None
        return ("ok", ("date", -y if m.group(1) else y, mo, d, _tzmin(m.group(5))))
    if dt == "time":
        m = RE["time"].fullmatch(s)
        if not m:
            return None
        if m.group(5):
            h, mi, sec, fr = 0, 0, 0, Fraction(0)   # 24:00:00 is 00:00:00 (of the next day)
        else:
            h, mi, sec = int(m.group(1)), int(m.group(2)), int(m.group(3))
            fr = Fraction(int(m.group(4)[1:]), 10 ** (len(m.group(4)) - 1)) if m.group(4) else Fraction(0)
        return ("ok", ("time", h, mi, sec, fr, _tzmin(m.group(9)), bool(m.group(5))))
    if dt == "dateTime":
        m = RE["dateTime"].fullmatch(s)
        if not m:
            return None
        y, mo, d = int(m.group(2)), int(m.group(3)), int(m.group(4))
        if d > _dim(y, mo):
            return None
        y = -y if m.group(1) else y
        if m.group(9):
            h, mi, sec, fr = 24, 0, 0, Fraction(0)
        else:
            h, mi, sec = int(m.group(5)), int(m.group(6)), int(m.group(7))
            fr = Fraction(int(m.group(8)[1:]), 10 ** (len(m.group(8)) - 1)) if m.group(8) else Fraction(0)
        return ("ok", ("dateTime", y, mo, d, h, mi, sec, fr, _tzmin(m.group(13))))
    if dt in DURS:
        if not RE[dt].fullmatch(s):
            return None
        m = RE["durfields"].fullmatch(s)
        g = [int(x) if x else 0 for x in m.group(2, 3, 4, 5, 6, 7)]
        fr = Fraction(int(m.group(8)), 10 ** len(m.group(8))) if m.group(8) else Fraction(0)
        months = g[0] * 12 + g[1]
        secs = ((g[2] * 24 + g[3]) * 60 + g[4]) * 60 + g[5] + fr
        if m.group(1):
            months, secs = -months, -secs
        return ("ok", ("dur", months, secs))
    if dt == "hexBinary":
        return ("ok", bytes(int(s[i:i + 2], 16) for i in range(0, len(s), 2))) if RE["hexBinary"].fullmatch(s) else None
    if dt == "base64Binary":
        if not RE["base64Binary"].fullmatch(s):
            return None
        t = s.replace(" ", "").rstrip("=")
        bits = "".join(format(B64.index(c), "06b") for c in t)
        return ("ok", bytes(int(bits[i:i + 8], 2) for i in range(0, len(bits) - len(bits) % 8, 8)))
    if dt in ("float", "double"):
        if not RE["double"].fullmatch(s):
            return None
        return ("ok", ("float", s))
    raise KeyError(dt)


def representable(dt, xv):
    """can CPython's value types hold the XSD value exactly?  (None = yes, else the reason)"""
    if not isinstance(xv, tuple):
        return None
    k = xv[0]
    if k == "date":
        _, y, mo, d, tz = xv
        if not 1 <= y <= 9999:
            return "range"
        return "datetz" if tz is not None else None
    if k == "time":
        _, h, mi, s, fr, tz, eod = xv
        if eod:
            return "range"
        return "precision" if (fr * 10 ** 6).denominator != 1 else None
    if k == "dateTime":
        _, y, mo, d, h, mi, s, fr, tz = xv
        if not 1 <= y <= 9999 or h == 24:
            return "range"
        return "precision" if (fr * 10 ** 6).denominator != 1 else None
    if k == "dur":
        _, months, secs = xv
        if not -999999999 <= math.floor(secs / 86400) <= 999999999:
            return "range"
        if (secs * 10 ** 6).denominator != 1:
            return "precision"
        return None
    return None


def _off(v):
    o = v.utcoffset()
    return None if o is None else (o.days * 86400 + o.seconds) * 10 ** 6 + o.microseconds


def value_matches(dt, xv, v):
    """does the Python value `v` denote the XSD value `xv` of datatype `dt`?"""
    if v is None:
        return False
    if dt in INT_BOUNDS:
        return type(v) is int and v == xv
    if dt == "decimal":
        return isinstance(v, Decimal) and v.is_finite() and Fraction(v) == xv
    if dt == "boolean":
        return v is xv
    if dt in STRINGY:
        return type(v) is str and v == xv
    if dt in ("hexBinary", "base64Binary"):
        return type(v) is bytes and v == xv
    if dt in ("float", "double"):
        s = xv[1]
        e = float("nan") if s == "NaN" else float(s.replace("INF", "inf"))
        return type(v) is float and (v == e or (v != v and e != e))
    k = xv[0]
    if k == "date":
        _, y, mo, d, tz = xv
        return type(v) is date and tz is None and (v.year, v.month, v.day) == (y, mo, d)
    if k == "time":
        _, h, mi, s, fr, tz, _eod = xv
        return (type(v) is time and (v.hour, v.minute, v.second) == (h, mi, s) and Fraction(v.microsecond, 10 ** 6) == fr
                and _off(v) == (None if tz is None else tz * 60 * 10 ** 6))
    if k == "dateTime":
        _, y, mo, d, h, mi, s, fr, tz = xv
        return (type(v) is datetime and (v.year, v.month, v.day, v.hour, v.minute, v.second) == (y, mo, d, h, mi, s)
                and Fraction(v.microsecond, 10 ** 6) == fr and _off(v) == (None if tz is None else tz * 60 * 10 ** 6))
    if k == "dur":
        _, months, secs = xv
        if type(v) is timedelta:
            vm, td = 0, v
        elif type(v) is Duration:
            vm, td = v.years * 12 + v.months, v.tdelta
        else:
            return False
        us = (td.days * 86400 + td.seconds) * 10 ** 6 + td.microseconds
        return vm == months and Fraction(us, 10 ** 6) == secs
    return False


def same_xsd_value(dt, a, b):
    """equality in the XSD value space of two parsed values"""
    if dt in ("float", "double"):
        fa, fb = (float("nan") if x[1] == "NaN" else float(x[1].replace("INF", "inf")) for x in (a, b))
        return fa == fb or (fa != fa and fb != fb)
    if isinstance(a, tuple) and a[0] == "time":
        return a[1:6] == b[1:6]
    if isinstance(a, tuple) and a[0] == "dateTime":
        return _dt_norm(a) == _dt_norm(b)
    return a == b


def _dt_norm(x):
    _, y, mo, d, h, mi, s, fr, tz = x
    if h == 24:   # 24:00:00 = 00:00:00 of the following day
        h = 0
        d += 1
        if d > _dim(y, mo):
            d, mo = 1, mo + 1
            if mo > 12:
                mo, y = 1, y + 1
    return (y, mo, d, h, mi, s, fr, tz)


# ------------------------------------------------------------------ canonical observations

def cps_str(s):
    return ",".join(str(ord(c)) for c in s) if s else "-"


def canon(v):
    if v is None:
        return "None"
    if type(v) is bool:
        return "bool:1" if v else "bool:0"
    if type(v) is int:
        return f"int:{v}"
    if isinstance(v, Decimal):
        if not v.is_finite():
            return "dec:special"
        sg, dg, ex = v.as_tuple()
        if len(dg) > 4000:
            return "dec:huge"
        return f"dec:{sg}:{int(''.join(map(str, dg)))}:{ex}"
    if type(v) is str:
        return "str:" + cps_str(v)
    if type(v) is bytes:
        return "bytes:" + (",".join(map(str, v)) if v else "-")
    if type(v) is datetime:
        o = _off(v)
        return f"datetime:{v.year}:{v.month}:{v.day}:{v.hour}:{v.minute}:{v.second}:{v.microsecond}:{'-' if o is None else o}"
    if type(v) is date:
        return f"date:{v.year}:{v.month}:{v.day}"
    if type(v) is time:
        o = _off(v)
        return f"time:{v.hour}:{v.minute}:{v.second}:{v.microsecond}:{'-' if o is None else o}"
    if type(v) is timedelta:
        return f"td:{(v.days * 86400 + v.seconds) * 10 ** 6 + v.microseconds}"
    if type(v) is Duration:
        td = v.tdelta
        if v.years != int(v.years) or v.months != int(v.months):
            return "dur:fractional"
        return f"dur:{int(v.years)}:{int(v.months)}:{(td.days * 86400 + td.seconds) * 10 ** 6 + td.microseconds}"
    if type(v) is float:
        return canon_float(v)
    return "other:" + type(v).__name__


def canon_float(x):
    """nan | inf | -inf | f:<neg>:<m>:<e> (the double is ±m·2^e, m < 2^53, e >= -1074) — exact, no float crosses the protocol"""
    if x != x:
        return "nan"
    if x in (math.inf, -math.inf):
        return "inf" if x > 0 else "-inf"
    neg = int(math.copysign(1.0, x) < 0)
    if x == 0:
        return f"f:{neg}:0:0"
    m, e = math.frexp(abs(x))
    m, e = int(m * 2 ** 53), e - 53
    while e < -1074:
        m, e = m // 2, e + 1
    return f"f:{neg}:{m}:{e}"


def ill(x):
    return {None: "N", True: "T", False: "F"}[x.ill_typed]


def uri(dt):
    return None if dt is None else URIRef(XSD + dt)


def local(u):
    return "-" if u is None else (str(u)[len(XSD):] if str(u).startswith(XSD) else str(u))


# ------------------------------------------------------------------ the fragment the Lean model declares (mirror of Drive.lean)

_WS = "\t\n\x0b\x0c\r "
_TZ_SHAPE = r"(Z|[+-][0-9]{2}:[0-9]{2}(:[0-9]{2}(\.[0-9]+)?)?)?"
_TIME_SHAPE = re.compile(r"[0-9]{2}:[0-9]{2}:[0-9]{2}(\.[0-9]+)?" + _TZ_SHAPE + r"\Z")
_DT_SHAPE = re.compile(r"-?[0-9]{4,}-[0-9]{2}-[0-9]{2}T[0-9]{2}:[0-9]{2}:[0-9]{2}(\.[0-9]+)?" + _TZ_SHAPE + r"\Z")
_PERIOD = re.compile(r"^(?P<sign>[+-])?P(?!\b)(?P<years>[0-9]+([,.][0-9]+)?Y)?(?P<months>[0-9]+([,.][0-9]+)?M)?"
                     r"(?P<weeks>[0-9]+([,.][0-9]+)?W)?(?P<days>[0-9]+([,.][0-9]+)?D)?"
                     r"((?P<separator>T)(?P<hours>[0-9]+([,.][0-9]+)?H)?(?P<minutes>[0-9]+([,.][0-9]+)?M)?"
                     r"(?P<seconds>[0-9]+([,.][0-9]+)?S)?)?$")


def in_fragment(dt, s):
    if not all(9 <= ord(c) <= 13 or 32 <= ord(c) <= 126 for c in s):
        return False
    if dt in FLOATY:
        m = re.search("[eE]", s)
        return len(s[m.start():] if m else "") <= 6
    if dt == "decimal":
        t = s.strip(_WS).replace("_", "")
        if t[:1] in ("+", "-"):
            t = t[1:]
        m = re.search("[eE]", t)
        return len(t[m.end():] if m else "") <= 3
    if dt == "date":
        return "W" not in s
    if dt == "time":
        return bool(_TIME_SHAPE.match(s))
    if dt == "dateTime":
        return bool(_DT_SHAPE.match(s))
    if dt in DURS:
        m = _PERIOD.match(s)
        if not m:
            return not s.startswith("P")
        for k in ("years", "months", "weeks", "days", "hours", "minutes", "seconds"):
            g = m.group(k)
            if g is None:
                continue
            ip = re.match("[0-9]+", g).group(0)
            if len(ip) > 18 or (k != "seconds" and ("." in g or "," in g)):
                return False
        return True
    return True


# ------------------------------------------------------------------ Python values

def py_value(spec):
    return _sub(spec, _py_value(spec))


def _py_value(spec):
    t = spec["t"]
    if t == "int":
        return int(spec["v"])
    if t == "bool":
        return bool(spec["v"])
    if t == "dec":
        return Decimal((spec["s"], tuple(int(c) for c in spec["c"]), spec["e"]))
    if t == "str":
        return "".join(chr(c) for c in spec["cps"])
    if t == "bytes":
        return bytes(spec["b"])
    if t == "date":
        return date(*spec["f"])
    if t in ("time", "datetime"):
        tz = None if spec["tz"] is None else timezone(timedelta(microseconds=spec["tz"]))
        return (time if t == "time" else datetime)(*spec["f"], tzinfo=tz, fold=spec.get("fold", 0))
    if t == "td":
        return timedelta(microseconds=int(spec["us"]))
    if t == "dur":
        d = Duration(years=spec["y"], months=spec["m"])
        d.tdelta = timedelta(microseconds=int(spec["us"]))
        return d
    if t == "float":
        h = spec["hex"]
        return float(h) if h in ("inf", "-inf", "nan") else float.fromhex(h)
    raise KeyError(t)


def py_modelled(spec):
    t = spec["t"]
    if t == "bytes":
        return False
    if t == "float":
        return True      # as nan | inf | -inf | sign, mantissa, binary exponent (exact integers)
    if t == "str":
        return True
    return True


def py_model_words(spec):
    t = spec["t"]
    if t == "int":
        return f"int {spec['v']}"
    if t == "bool":
        return f"bool {spec['v']}"
    if t == "dec":
        return f"dec {spec['s']} {int(spec['c'])} {spec['e']}"
    if t == "str":
        return "str " + cps_str("".join(chr(c) for c in spec["cps"]))
    if t == "date":
        return "date " + " ".join(map(str, spec["f"]))
    if t in ("time", "datetime"):
        return f"{t} " + " ".join(map(str, spec["f"])) + " " + ("-" if spec["tz"] is None else str(spec["tz"]))
    if t == "td":
        return f"td {spec['us']}"
    if t == "dur":
        return f"dur {spec['y']} {spec['m']} {spec['us']}"
    if t == "float":
        c = canon_float(_py_value(spec))
        return "fpy " + (c if ":" not in c else " ".join(c.split(":")[1:]))
    raise KeyError(t)


DOCUMENTED = {"int": "integer", "bool": "boolean", "dec": "decimal", "str": None, "date": "date", "time": "time",
              "datetime": "dateTime", "td": "dayTimeDuration", "dur": "duration", "float": "double"}


def py_equal(a, b):
    if type(a) is float and type(b) is float and a != a and b != b:
        return True
    if isinstance(a, Decimal) and isinstance(b, Decimal) and a.is_nan() and b.is_nan():
        return True
    try:
        return bool(a == b) and (not isinstance(a, (datetime, time)) or (a.utcoffset() is None) == (b.utcoffset() is None))
    except Exception:
        return False


def _ne_inconsistent(a, b):
    """Python equality of the mapped values: `!=` must be the negation of `==` (Duration defines both by hand)"""
    try:
        return bool(a != b) is bool(a == b)
    except Exception:  # noqa: BLE001
        return False


def valid_for(dt, s):
    """lexical validity of `s` for datatype local name `dt` (None = plain literal: every string)"""
    if dt is None:
        return True
    if dt in ("gYear", "gYearMonth"):      # not recognised datatypes (no converter), but the (date, gYear…) rules write them
        return bool(re.fullmatch(r"-?(?:[1-9][0-9]{3,}|0[0-9]{3})" + ("-(?:0[1-9]|1[0-2])" if dt == "gYearMonth" else "") + f"(?:{_TZ})?", s))
    if dt not in ALL_DT or len(s) > 4000:   # (CPython refuses int() of more than 4300 digits)
        return False
    return xsd_parse(dt, s) is not None


# ------------------------------------------------------------------ run one case on the implementation

def _mk(litspec):
    if "v" in litspec:
        sp = litspec["v"]
        v = py_value(sp)
        if sp["t"] == "bytes" and sp.get("dt"):
            return Literal(v, datatype=uri(sp["dt"]))
        return Literal(v)
    s = "".join(chr(c) for c in litspec["cps"])
    if litspec.get("lang"):
        return Literal(s, lang=litspec["lang"])
    if litspec.get("bytes"):
        s = s.encode("utf-8")      # the lexical form offered as (UTF-8) bytes
    elif litspec.get("strsub"):
        s = MyStr(s)
    return Literal(s, datatype=dtarg(litspec, litspec["dt"]), normalize=bool(litspec["norm"]))


def _lit_modelled(litspec):
    if litspec.get("lang"):
        return False      # language tags are outside the Lean model
    if "v" in litspec:
        return py_modelled(litspec["v"]) and litspec["v"]["t"] != "float"   # float literals: lex / py streams only
    dt = litspec["dt"]
    s = "".join(chr(c) for c in litspec["cps"])
    return (dt is None or dt in MODELLED) and in_fragment(dt, s)


def run_lex(case):
    dt, s = case["dt"], "".join(chr(c) for c in case["cps"])
    u = uri(dt)
    viol, stats = [], {"lex": 1, "dt_" + dt: 1}
    px = xsd_parse(dt, s)
    valid = px is not None
    stats["lex_valid" if valid else "lex_invalid"] = 1
    modelled = (dt in MODELLED or dt in FLOATY) and in_fragment(dt, s)
    arg = s.encode("utf-8", "surrogatepass") if case.get("bytes") else (MyStr(s) if case.get("strsub") else s)
    if case.get("bytes"):
        stats["lex_as_bytes"] = 1
    if case.get("strsub"):
        stats["axis_lexical_str_subclass"] = 1
    ua = dtarg(case, dt)
    stats["axis_datatype_arg_" + ("str" if case.get("dtstr") else "URIRef")] = 1
    mode = case.get("nmode", "d")
    stats["axis_normalize_" + {"d": "None_flag_on", "t": "True", "o": "None_flag_off"}[mode]] = 1
    reuse_bad = None
    try:
        if mode == "o":
            rdflib.NORMALIZE_LITERALS = False
        l0 = Literal(arg, datatype=ua, normalize=False)
        l1 = Literal(arg, datatype=ua, normalize=True) if mode == "t" else Literal(arg, datatype=ua)
        n1 = l0.normalize()
        n2 = n1.normalize()
        b1 = Literal(str(l1), datatype=u, normalize=False)
        # the accessors re-used on one object: same answers, object unchanged
        before = (str(l0), canon(l0.value), l0.ill_typed)
        again = l0.normalize()
        if (str(again), canon(again.value)) != (str(n1), canon(n1.value)) or canon(l0.toPython() if l0.value is not None else None) != canon(l0.value) \
                or (str(l0), canon(l0.value), l0.ill_typed) != before:
            reuse_bad = f"normalize()/toPython()/value called again on {l0!r} answer differently"
        raised = None
    except Exception as e:  # noqa: BLE001
        raised = type(e).__name__
    finally:
        rdflib.NORMALIZE_LITERALS = True
    if raised:
        obs = ["lex|raise"]
        stats["lex_raise"] = 1
        if valid:
            viol.append(f"raise: Literal({s!r}, datatype=xsd:{dt}) / normalize() raises {raised} on a valid lexical form")
    else:
        r_b1, e_b1 = _eqres(l1, b1)
        # the Python object rdflib built, where the XSD value is one CPython's date / time / datetime holds exactly
        # (the Lean side prints the same fields from the *specification's* reading of the lexical form)
        xsdv = "-"
        if valid and dt in DATEY and representable(dt, px[1]) in (None, "datetz") and in_fragment(dt, s):
            xsdv = canon(l0.value)
        # with the flag off l1 is the form as given: whether normalize() leaves it alone says how the normal form is
        # *spelled* (PT1S or PT0M1S), which is compared in spelling mode only
        n1same = "-" if (mode == "o" and not SPELL) else int(str(n1) == str(l1))
        line = (f"lex|{ill(l0)}|{canon(l0.value)}|{int(valid_for(dt, str(l1)))}|{canon(b1.value)}|{n1same}"
                f"|{int(str(n2) == str(n1))}|{ill(l1)}|{canon(l1.value)}|{e_b1}|{xsdv}")
        if SPELL:
            line += "|" + "|".join(cps_str(str(x)) for x in (l0, l1, n1, n2))
        obs = [line]
        stats["ill_" + ill(l0)] = 1
        if str(l1) != s:
            stats["lex_rewritten_by_normalisation"] = 1
        if valid:
            xv = px[1]
            if l0.ill_typed is not False or l1.ill_typed is not False:
                viol.append(f"ill-typed: {s!r}^^xsd:{dt} is a valid lexical form but ill_typed={l0.ill_typed}")
            if not value_matches(dt, xv, l0.value) or not value_matches(dt, xv, l1.value):
                viol.append(f"value: {s!r}^^xsd:{dt} has XSD value {xv!r} but .value is {l0.value!r}")
            for name, x in (("Literal(normalize=True)", l1), ("normalize()", n1), ("normalize() twice", n2)):
                p2 = xsd_parse(dt, str(x))
                if p2 is None:
                    viol.append(f"norm-invalid: {name} of {s!r}^^xsd:{dt} gives {str(x)!r}, not in the lexical space")
                    break
                if not same_xsd_value(dt, xv, p2[1]):
                    viol.append(f"norm-value: {name} of {s!r}^^xsd:{dt} gives {str(x)!r}, a different value")
                    break
            if str(n2) != str(n1) or (mode != "o" and str(Literal(str(l1), datatype=u)) != str(l1)):
                viol.append(f"norm-idem: normalising the normalised form {str(n1)!r} of {s!r}^^xsd:{dt} changes it again")
        if reuse_bad:
            viol.append("reuse: " + reuse_bad)
        # value-space equality holds whenever term equality does: the (normalised) literal and the literal built
        # from its own lexical form are the same term
        if valid and l1 == b1 and r_b1 is not True:
            viol.append(f"eq-term: {l1!r} == {b1!r} (the literal built from its own lexical form) but .eq() gives {e_b1}")
    if not modelled:
        obs = ["unmodelled"]
        stats["unmodelled"] = 1
    return {"obs": obs, "viol": viol, "nontrivial": valid, "key": f"lex:{dt}:{s}:{int(bool(case.get('bytes')))}:{mode}", "stats": stats}


def value_in_space(sp, v, dt):
    """is the Python value a member of the value space of xsd:`dt` (so that a valid lexical form exists)?"""
    t = sp["t"]
    if t == "int":
        if dt in INT_BOUNDS:
            lo, hi = INT_BOUNDS[dt]
            return (lo is None or v >= lo) and (hi is None or v <= hi)
        return dt == "decimal"
    if t == "dec":
        return dt == "decimal"
    if t == "bool":
        return dt == "boolean"
    if t == "date":
        return dt in ("date", "gYear", "gYearMonth")
    if t == "datetime":
        return dt == "dateTime"
    if t == "time":
        return dt == "time"
    us = int(sp["us"]) if t in ("td", "dur") else 0
    if t == "td":
        return dt in ("duration", "dayTimeDuration") or (dt == "yearMonthDuration" and us == 0)
    if t == "dur":
        ym = sp["y"] != 0 or sp["m"] != 0
        return dt == "duration" or (dt == "yearMonthDuration" and us == 0) or (dt == "dayTimeDuration" and not ym)
    return False


def run_pylang(case, v, stats):
    """Literal(str, lang=tag): a language-tagged string (outside the Lean model)"""
    sp = case["v"]
    tag = sp["lang"]
    stats["axis_lang_kw_" + ("empty" if tag == "" else "valid" if rdflib.term._is_valid_langtag(tag) else "invalid")] = 1
    viol = []
    try:
        l = Literal(v, lang=tag)  # noqa: E741
    except ValueError:
        stats["lang_rejected"] = 1
        return {"obs": ["unmodelled"], "viol": [] if (tag and not rdflib.term._is_valid_langtag(tag)) else
                [f"py-raise: Literal({v!r}, lang={tag!r}) raises ValueError"], "nontrivial": False, "key": "pylang-rej", "stats": stats}
    want = tag or None
    if l.datatype is not None or l.language != want:
        viol.append(f"py-datatype: Literal({v!r}, lang={tag!r}) has datatype {l.datatype} and language {l.language!r}")
    if not py_equal(l.toPython(), v):
        viol.append(f"py-back: Literal({v!r}, lang={tag!r}).toPython() is {l.toPython()!r}")
    twin = Literal(str(v), lang=tag)
    if l == twin and _eqres(l, twin)[0] is not True:
        viol.append(f"eq-term: {l!r} == {twin!r} but .eq() gives {_eqres(l, twin)[1]}")
    n1 = l.normalize()
    if str(n1) != str(l) or str(n1.normalize()) != str(n1) or n1.language != l.language:
        viol.append(f"norm-idem: normalize() of {l!r} gives {n1!r}")
    return {"obs": ["unmodelled"], "viol": viol, "nontrivial": True, "key": f"pylang:{v}:{tag}", "stats": {**stats, "unmodelled": 1}}


_XML_OK = ["", "text", "<a/>", "<a>t</a>", "a<b c='d'>e</b>f", "<a xmlns='urn:x'><b/></a>", "&amp;&lt;", "<a><!-- c --></a>", "é<x>漢</x>"]
_XML_BAD = ["<a>", "</a>", "<a b></a>", "&", "<a></b>", "<"]


def run_xml(case):
    """rdf:XMLLiteral (DOM values: outside the Lean model; oracle = well-formedness of the fixed fragments)"""
    s = case["s"]
    ok = s in _XML_OK
    viol, stats = [], {"xml": 1, "axis_datatype_XMLLiteral": 1, "xml_wellformed" if ok else "xml_malformed": 1, "unmodelled": 1}
    try:
        l = Literal(s, datatype=RDF.XMLLiteral)  # noqa: E741
        n1 = l.normalize()
        n2 = n1.normalize()
        if ok:
            if l.ill_typed is True or l.value is None:
                viol.append(f"ill-typed: {s!r}^^rdf:XMLLiteral is well-formed but ill_typed={l.ill_typed}, value {l.value!r}")
            if str(n2) != str(n1):
                viol.append(f"norm-idem: normalize() twice of {s!r}^^rdf:XMLLiteral: {str(n1)!r} then {str(n2)!r}")
            for x in (l, n1):
                if _eqres(x, Literal(str(x), datatype=RDF.XMLLiteral))[0] is not True:
                    viol.append(f"eq-term: {x!r} is not eq() to the literal built from its own lexical form")
                    break
            if ok and _eqres(l, n1)[0] is not True:
                viol.append(f"norm-value: normalize() of {s!r}^^rdf:XMLLiteral is {str(n1)!r}, not eq() to it")
    except Exception as e:  # noqa: BLE001
        if ok:
            viol.append(f"raise: {s!r}^^rdf:XMLLiteral raises {type(e).__name__}")
    return {"obs": ["unmodelled"], "viol": viol, "nontrivial": ok, "key": "xml:" + s, "stats": stats}


class Celsius:
    """a user type registered with term.bind()"""

    def __init__(self, text):
        if not re.fullmatch(r"[+-]?[0-9]+", str(text)):
            raise ValueError(text)
        self.v = int(text)

    def __eq__(self, other):
        return isinstance(other, Celsius) and other.v == self.v

    def __hash__(self):
        return hash(self.v)

    def __repr__(self):
        return f"Celsius({self.v})"


_EX_DT = URIRef("http://example.org/dt#celsius")


def run_bind(case):
    """a datatype registered by the user with term.bind(): recognised from then on (oracle only)"""
    viol, stats = [], {"bind": 1, "axis_bind_specific" if case["specific"] else "axis_bind_generic": 1, "unmodelled": 1}
    s = case["lex"]
    ok = bool(re.fullmatch(r"[+-]?[0-9]+", s))
    try:
        bind(_EX_DT, Celsius, constructor=Celsius, lexicalizer=lambda c: str(c.v), datatype_specific=case["specific"])
        l = Literal(s, datatype=_EX_DT)  # noqa: E741
        n1 = l.normalize()
        n2 = n1.normalize()
        if ok:
            if l.ill_typed is not False or l.value != Celsius(s):
                viol.append(f"value: {s!r}^^ex:celsius (bound: constructor Celsius) has value {l.value!r}, ill_typed={l.ill_typed}")
            if str(n2) != str(n1) or n1.value != l.value or str(Literal(str(l), datatype=_EX_DT)) != str(l):
                viol.append(f"norm-idem: normalize() of {l!r}: {n1!r} then {n2!r}")
            if _eqres(l, n1)[0] is not True:
                viol.append(f"norm-value: {l!r} is not eq() to its normalize() {n1!r}")
        elif l.ill_typed is not True or l.value is not None:
            stats["bind_invalid_not_flagged"] = 1
        obj = Celsius(str(case["n"]))
        p = Literal(obj, datatype=_EX_DT) if case["specific"] else Literal(obj)
        if p.datatype != _EX_DT or str(p) != str(case["n"]) or p.toPython() != obj \
                or Literal(str(p), datatype=p.datatype).toPython() != obj:
            viol.append(f"py-reparse: Literal({obj!r}) with the bound datatype is {p!r}, value {p.value!r}")
    except Exception as e:  # noqa: BLE001
        viol.append(f"raise: bound datatype, lexical {s!r}: {type(e).__name__}: {e}")
    finally:
        _reset_bindings()
    return {"obs": ["unmodelled"], "viol": viol, "nontrivial": ok, "key": f"bind:{case['specific']}:{s}:{case['n']}", "stats": stats}


def run_py(case):
    sp = case["v"]
    t = sp["t"]
    v = py_value(sp)
    viol, stats = [], {"py": 1, "py_" + t: 1}
    if sp.get("sub"):
        stats["axis_value_subclass_" + type(v).__name__] = 1
    if sp.get("lang") is not None:
        return run_pylang(case, v, stats)
    want_dt = sp.get("dt") if (t == "bytes" or sp.get("dt")) else DOCUMENTED[t]
    if t != "bytes" and sp.get("dt"):
        stats["axis_value_with_datatype_kw"] = 1
        stats["pyd_" + t + "_" + sp["dt"]] = 1
    try:
        l = Literal(v, datatype=dtarg(sp, sp["dt"])) if sp.get("dt") else Literal(v)  # noqa: E741
        recognised = l.datatype is None or local(l.datatype) in ALL_DT
        back = Literal(str(l), datatype=l.datatype, normalize=False)
        raised = None
        if l.toPython() is not l.toPython() or (l.value is not None and l.toPython() is not l.value):
            viol.append(f"reuse: toPython() / value of Literal({v!r}) answer differently when called again")
    except Exception as e:  # noqa: BLE001
        raised = type(e).__name__
    if raised:
        obs = ["py|raise"]
        viol.append(f"{'py-bytes' if t == 'bytes' else 'py-raise'}: Literal({v!r}) raises {raised}")
    else:
        dtl = local(l.datatype)
        lexok = valid_for(None if l.datatype is None else dtl, str(l))
        line = f"py|{dtl}|{int(lexok)}|{canon(back.value)}"
        if SPELL:
            line += "|" + cps_str(str(l))
        obs = [line]
        if t == "bytes":
            # documented: bytes <-> xsd:hexBinary / xsd:base64Binary (datatype-specific rules)
            if l.datatype is None or not lexok or not py_equal(l.toPython(), v) or not py_equal(back.toPython(), v):
                viol.append(f"py-bytes: Literal({v!r}, datatype={sp.get('dt')}) is {str(l)!r}^^{dtl} with value {l.value!r}")
        elif sp.get("dt") and not value_in_space(sp, v, sp["dt"]):
            stats["pyd_value_outside_value_space"] = 1     # no valid lexical form exists: nothing is demanded
            if (None if l.datatype is None else dtl) != want_dt:
                viol.append(f"py-datatype: Literal({v!r}, datatype={want_dt}) has datatype {dtl}")
        else:
            if (None if l.datatype is None else dtl) != want_dt:
                viol.append(f"py-datatype: Literal({v!r}) has datatype {dtl}, documented {want_dt}")
            if not lexok:
                viol.append(f"py-lexical: Literal({v!r}) has lexical form {str(l)!r}, not valid for xsd:{dtl}")
            if not py_equal(l.toPython(), v):
                viol.append(f"py-back: Literal({v!r}).toPython() is {l.toPython()!r}")
            elif _ne_inconsistent(l.toPython(), v) or (recognised and _ne_inconsistent(back.toPython(), v)):
                viol.append(f"py-back: Literal({v!r}): the value read back is == the original and also != it")
            if recognised and not py_equal(back.toPython(), v):
                viol.append(f"py-reparse: {str(l)!r}^^{dtl} (made from {v!r}) reads back as {back.toPython()!r}")
    if not py_modelled(sp) or (sp.get("dt") and sp["dt"] not in MODELLED):
        obs = ["unmodelled"]
        stats["unmodelled"] = 1
    return {"obs": obs, "viol": viol, "nontrivial": True, "key": "py:" + repr(sorted(sp.items(), key=str)), "stats": stats}


def _family(dt):
    if dt is None or dt == "string":
        return "string"
    if dt in NUMERIC:
        return "numeric"
    return dt


def run_eq(case):
    viol, stats = [], {"eq": 1}
    try:
        a, b = _mk(case["a"]), _mk(case["b"])
    except Exception:  # noqa: BLE001
        return {"obs": ["eq|raise"] if (_lit_modelled(case["a"]) and _lit_modelled(case["b"])) else ["unmodelled"],
                "viol": [], "nontrivial": False, "key": "eq-raise", "stats": {"eq": 1, "eq_ctor_raise": 1}}
    term = a == b
    try:
        r = a.eq(b)
        res = "1" if r is True else "0" if r is False else "other"
    except TypeError:
        r, res = None, "TypeError"
    r2, res2 = _eqres(b, a)            # the other operand order
    try:
        nq = a.neq(b)
        nres = "1" if nq is True else "0" if nq is False else "other"
    except TypeError:
        nq, nres = None, "TypeError"
    stats["axis_eq_both_orders"] = 1
    stats["axis_neq"] = 1
    # term equality depends on how normal forms are spelled: compared only in spelling mode
    obs = [f"eq|{int(term) if SPELL else '-'}|{res}|{res2}|{nres}"]
    da, db = (None if x.datatype is None else local(x.datatype) for x in (a, b))
    comparable = (_family(da) == _family(db) and a.value is not None and b.value is not None
                  and a.ill_typed is not True and b.ill_typed is not True)
    stats["eq_term_equal"] = int(term)
    stats["eq_comparable"] = int(comparable)
    stats["eq_res_" + res] = 1
    if term and r is not True:
        viol.append(f"eq-term: {a!r} == {b!r} (term equality) but .eq() gives {res}")
    if comparable:
        want = py_equal(a.value, b.value) if not (a.value != a.value) else False
        try:
            want = bool(a.value == b.value)
        except Exception:  # noqa: BLE001
            want = None
        if want is not None and _ne_inconsistent(a.value, b.value):
            viol.append(f"eq-value: the mapped values of {a!r} and {b!r} are == ({want}) and != at the same time")
        elif want is not None and r is not want:
            viol.append(f"eq-value: {a!r}.eq({b!r}) is {res} but the mapped values compare {want}")
        elif want is not None and r2 is not want:
            viol.append(f"eq-value: {b!r}.eq({a!r}) (other operand order) is {res2} but the mapped values compare {want}")
    if term and r is True and r2 is not True:
        viol.append(f"eq-term: {b!r} == {a!r} but .eq() in that operand order gives {res2}")
    if isinstance(r, bool) and nq is not (not r):
        viol.append(f"neq: {a!r}.eq({b!r}) is {res} but .neq() is {nres}")
    if not (_lit_modelled(case["a"]) and _lit_modelled(case["b"])):
        obs = ["unmodelled"]
        stats["unmodelled"] = 1
    return {"obs": obs, "viol": viol, "nontrivial": comparable or term, "key": "eq:" + repr((case["a"], case["b"])),
            "stats": stats}


def _relit_parts(case):
    """(old literal, target datatype local name or None, keyword arguments) of a relit case"""
    old = _mk(case["old"])
    kw = {}
    if case.get("dt"):
        kw["datatype"] = uri(case["dt"])
    if case.get("lang"):
        kw["lang"] = case["lang"]
    tdt = case.get("dt") or (None if old.datatype is None else local(old.datatype))
    return old, tdt, kw


def _eqres(a, b):
    try:
        r = a.eq(b)
        return r, ("1" if r is True else "0" if r is False else "other")
    except TypeError:
        return None, "TypeError"


def run_relit(case):
    """Literal(old) / Literal(old, datatype=d2) / Literal(old, lang=l): the first branch of Literal.__new__"""
    viol, stats = [], {"relit": 1, "relit_" + ("copy" if not case.get("dt") else "retype"): 1}
    has_lang = bool(case["old"].get("lang") or case.get("lang"))
    try:
        old, tdt, kw = _relit_parts(case)
    except Exception:  # noqa: BLE001
        return {"obs": ["relit|raise"] if _lit_modelled(case["old"]) else ["unmodelled"], "viol": [], "nontrivial": False,
                "key": "relit-old-raise", "stats": {"relit": 1, "relit_old_raise": 1}}
    s = str(old)
    modelled = (not has_lang and _lit_modelled(case["old"]) and (tdt is None or tdt in MODELLED)
                and (not case.get("dt") or in_fragment(tdt, s)))
    px = xsd_parse(tdt, s) if tdt in ALL_DT else None
    valid = px is not None
    try:
        new = Literal(old, **kw)
        u = new.datatype
        both = new.language is not None and u is not None   # no such RDF term (and no reference literal to compare with)
        if both:
            viol.append(f"lang-datatype: Literal({old!r}, **{kw}) has the language tag {new.language!r} and the datatype {local(u)}")
        n1 = new.normalize()
        n2 = n1.normalize()
        ref = None if both else (Literal(str(new), lang=new.language) if new.language
                                 else Literal(str(new), datatype=u, normalize=False))
        raised = None
    except Exception as e:  # noqa: BLE001
        raised = type(e).__name__
    if raised:
        obs = ["relit|raise"]
        stats["relit_raise"] = 1
        if valid or tdt is None:
            viol.append(f"raise: Literal({old!r}, **{kw}) / normalize() raises {raised}")
    else:
        _, e_ref = _eqres(new, ref) if ref is not None else (None, "-")
        r_old, e_old = _eqres(new, old)
        line = (f"relit|{ill(new)}|{canon(new.value)}|{int(valid_for(tdt, str(new)))}|{canon(ref.value) if ref is not None else '-'}"
                f"|{int(str(n2) == str(n1))}|{canon(n1.value)}|{e_ref}|{e_old}")
        if SPELL:
            line += "|" + cps_str(str(new)) + "|" + cps_str(str(n1))
        obs = [line]
        if valid:
            xv = px[1]
            stats["relit_valid"] = 1
            if new.ill_typed is True:
                viol.append(f"ill-typed: Literal({old!r}, **{kw}): {s!r} is a valid xsd:{tdt} form but ill_typed=True")
            if not value_matches(tdt, xv, new.value):
                viol.append(f"value: Literal({old!r}, **{kw}): {s!r}^^xsd:{tdt} has XSD value {xv!r} but .value is {new.value!r}")
            for name, x in (("the new literal", new), ("normalize()", n1), ("normalize() twice", n2)):
                p2 = xsd_parse(tdt, str(x))
                if p2 is None:
                    viol.append(f"norm-invalid: {name} of Literal({old!r}, **{kw}) is {str(x)!r}, not in the lexical space of xsd:{tdt}")
                    break
                if not same_xsd_value(tdt, xv, p2[1]):
                    viol.append(f"norm-value: {name} of Literal({old!r}, **{kw}) is {str(x)!r}, a different value than {s!r}")
                    break
            if str(n2) != str(n1):
                viol.append(f"norm-idem: normalising {n1!r} (from Literal({old!r}, **{kw})) changes it again")
        # value-space equality holds whenever term equality does
        for name, other, (r, res) in (("the literal built from its own lexical form", ref, _eqres(new, ref) if ref is not None else (True, "-")),
                                      ("the literal it was made from", old, (r_old, e_old))):
            if other is not None and new == other and r is not True:
                viol.append(f"eq-term: Literal({old!r}, **{kw}) == {other!r} ({name}) but .eq() gives {res}")
                break
        if not kw and not (new == old):
            stats["relit_copy_not_term_equal"] = 1
    if not modelled:
        obs = ["unmodelled"]
        stats["unmodelled"] = 1
    return {"obs": obs, "viol": viol, "nontrivial": valid or tdt is None,
            "key": "relit:" + repr((case["old"], case.get("dt"), case.get("lang"))), "stats": stats}


def pyspec_of(v):
    """python value -> value spec (None if it has none)"""
    if type(v) is bool:
        return {"t": "bool", "v": int(v)}
    if type(v) is int:
        return {"t": "int", "v": str(v)} if abs(v) < 10 ** 200 else None
    if type(v) is float:
        return {"t": "float", "hex": "nan" if v != v else ("inf" if v == float("inf") else "-inf" if v == float("-inf") else v.hex())}
    if isinstance(v, Decimal):
        if not v.is_finite():
            return None
        sg, dg, ex = v.as_tuple()
        return {"t": "dec", "s": sg, "c": "".join(map(str, dg)), "e": ex} if len(dg) < 300 else None
    if type(v) is str:
        return {"t": "str", "cps": [ord(c) for c in v]}
    if type(v) is datetime:
        return {"t": "datetime", "f": [v.year, v.month, v.day, v.hour, v.minute, v.second, v.microsecond], "tz": _off(v), "fold": v.fold}
    if type(v) is date:
        return {"t": "date", "f": [v.year, v.month, v.day]}
    if type(v) is time:
        return {"t": "time", "f": [v.hour, v.minute, v.second, v.microsecond], "tz": _off(v), "fold": v.fold}
    if type(v) is timedelta:
        return {"t": "td", "us": str((v.days * 86400 + v.seconds) * 10 ** 6 + v.microseconds)}
    if type(v) is Duration and v.years == int(v.years) and v.months == int(v.months):
        td = v.tdelta
        return {"t": "dur", "y": int(v.years), "m": int(v.months), "us": str((td.days * 86400 + td.seconds) * 10 ** 6 + td.microseconds)}
    return None


def _eqpy_domain(dt, v):
    """the Python objects Literal.eq documents for a literal of datatype `dt` (None = plain)"""
    if isinstance(v, str):
        return dt is None or dt == "string"
    if isinstance(v, bool):
        return dt == "boolean"
    if isinstance(v, (int, float, Decimal)):
        return dt in NUMERIC
    if isinstance(v, (date, time)):
        return dt in DATEY
    if isinstance(v, (timedelta, Duration)):
        return dt in DURS
    return False


def run_eqpy(case):
    """lit.eq(v) for a plain Python object v: agrees with Python equality of the mapped value"""
    viol, stats = [], {"eqpy": 1, "eqpy_" + case["v"]["t"]: 1}
    modelled = _lit_modelled(case["a"]) and py_modelled(case["v"]) and case["v"]["t"] != "float"
    try:
        a = _mk(case["a"])
        v = py_value(case["v"])
    except Exception:  # noqa: BLE001
        return {"obs": ["eqpy|raise"] if modelled else ["unmodelled"], "viol": [], "nontrivial": False, "key": "eqpy-raise",
                "stats": {"eqpy": 1, "eqpy_ctor_raise": 1}}
    try:
        r = a.eq(v)
        res = "1" if r is True else "0" if r is False else "NotImplemented" if r is NotImplemented else "other"
    except Exception as e:  # noqa: BLE001
        r, res = None, "raise:" + type(e).__name__
    try:
        nq = a.neq(v) if isinstance(r, bool) else None
    except Exception:  # noqa: BLE001
        nq = "raise"
    obs = [f"eqpy|{res}|{'-' if nq is None else int(nq) if isinstance(nq, bool) else nq}"]
    if isinstance(r, bool) and nq is not (not r):
        viol.append(f"neq: {a!r}.eq({v!r}) is {res} but .neq() is {nq!r}")
    stats["axis_eqpy_operand_" + type(v).__name__] = 1
    dt = None if a.datatype is None else local(a.datatype)
    indom = (_eqpy_domain(dt, v) and a.language is None and a.value is not None and a.ill_typed is not True)
    stats["eqpy_in_domain"] = int(indom)
    stats["eqpy_res_" + res.split(":")[0]] = 1
    if indom:
        try:
            want = bool(a.value == v)
        except Exception:  # noqa: BLE001
            want = None
        if want is not None and r is not want:
            viol.append(f"eqpy: {a!r}.eq({v!r}) is {res} but the mapped value {a.value!r} == {v!r} is {want}")
    if not modelled:
        obs = ["unmodelled"]
        stats["unmodelled"] = 1
    return {"obs": obs, "viol": viol, "nontrivial": indom, "key": "eqpy:" + repr((case["a"], sorted(case["v"].items(), key=str))),
            "stats": stats}


def run_impl(case):
    k = case["kind"]
    if k == "eqpy":
        return run_eqpy(case)
    if k == "xml":
        return run_xml(case)
    if k == "bind":
        return run_bind(case)
    if k == "lex":
        return run_lex(case)
    if k == "py":
        return run_py(case)
    if k == "relit":
        return run_relit(case)
    return run_eq(case)


# ------------------------------------------------------------------ model side

def _lit_words(litspec):
    if "v" in litspec:
        return "P " + py_model_words(litspec["v"])
    s = "".join(chr(c) for c in litspec["cps"])
    return f"L {litspec['dt'] or '-'} {cps_str(s)} {int(bool(litspec['norm']))}"


def model_lines(case):
    pre = ["spell 1"] if SPELL else ["spell 0"]
    k = case["kind"]
    if k in ("xml", "bind"):
        return pre + ["skip"]
    if k == "lex":
        if case["dt"] in FLOATY:
            return pre + [f"flex {case['dt']} " + cps_str("".join(chr(c) for c in case["cps"])) + " " + case.get("nmode", "d")]
        if case["dt"] not in MODELLED:
            return pre + ["skip"]
        return pre + [f"lex {case['dt']} " + cps_str("".join(chr(c) for c in case["cps"])) + " " + case.get("nmode", "d")]
    if k == "py":
        sp = case["v"]
        if not py_modelled(sp) or sp.get("lang") is not None or (sp.get("dt") and sp["dt"] not in MODELLED):
            return pre + ["skip"]
        if sp.get("dt"):
            return pre + [f"pyd {sp['dt']} " + py_model_words(sp)]
        if sp["t"] == "float":
            return pre + [py_model_words(sp)]
        return pre + ["py " + py_model_words(sp)]
    if k == "eqpy":
        if not (_lit_modelled(case["a"]) and py_modelled(case["v"])) or case["v"]["t"] == "float":
            return pre + ["skip"]
        return pre + ["eqpy " + _lit_words(case["a"]) + " " + py_model_words(case["v"])]
    if k == "relit":
        if case["old"].get("lang") or case.get("lang") or not _lit_modelled(case["old"]) or \
                (case.get("dt") and case["dt"] not in MODELLED):
            return pre + ["skip"]
        return pre + [f"relit {case.get('dt') or '-'} " + _lit_words(case["old"])]
    if not (_lit_modelled(case["a"]) and _lit_modelled(case["b"])):
        return pre + ["skip"]
    return pre + ["eq " + _lit_words(case["a"]) + " " + _lit_words(case["b"])]


def select_model_obs(case, out):
    return [out[1]]


# ------------------------------------------------------------------ generators

def _digits(rng, n):
    return "".join(rng.choice("0123456789") for _ in range(n))


def _nat(rng, big=False):
    r = rng.random()
    if r < 0.25:
        return rng.randint(0, 12)
    if r < 0.5:
        return rng.randint(0, 300)
    if r < 0.8:
        k = rng.choice([7, 8, 15, 16, 31, 32, 63, 64])
        return max(0, 2 ** k + rng.randint(-2, 2))
    return rng.randint(0, 10 ** rng.randint(3, 60 if big else 25))


def gen_int_lex(rng, dt):
    lo, hi = INT_BOUNDS[dt]
    r = rng.random()
    if r < 0.3 and (lo is not None or hi is not None):
        v = rng.choice([x for x in (lo, hi) if x is not None]) + rng.choice([0, 0, 1, -1])
    elif r < 0.4:
        v = 0
    else:
        v = _nat(rng, big=True) * rng.choice([1, -1])
    if rng.random() < 0.85:   # mostly keep it inside the bounds
        if lo is not None and v < lo:
            v = lo + (lo - v) % (1000 if hi is None else max(1, hi - lo + 1))
        if hi is not None and v > hi:
            v = hi - (v - hi) % (1000 if lo is None else max(1, hi - lo + 1))
    s = str(abs(v))
    s = "0" * rng.choice([0, 0, 0, 1, 2, 5]) + s
    if v < 0 or (v == 0 and rng.random() < 0.3):
        s = "-" + s
    elif rng.random() < 0.25:
        s = "+" + s
    return s


def gen_decimal_lex(rng):
    ip = "0" * rng.choice([0, 0, 1, 3]) + (str(_nat(rng)) if rng.random() < 0.85 else "")
    fp = (_digits(rng, rng.choice([0, 1, 2, 3, 6, 12, 30])) + "0" * rng.choice([0, 0, 2])) if rng.random() < 0.7 else None
    if fp is None:
        body = ip or "0"
    elif not ip and not fp:
        body = "0."
    else:
        body = ip + "." + fp
    if rng.random() < 0.15:
        body = rng.choice(["0", "0.0", ".0", "0.", "00.00"])
    return rng.choice(["", "", "+", "-", "-"]) + body


_ALPH = "abcXYZ019 -_.:/#?&=%+é€漢\U0001F600\u00a0\u2003\x0b"


def gen_string(rng, kind):
    n = rng.choice([0, 1, 1, 2, 3, 5, 9, 20])
    if kind == "language":
        return "-".join([rng.choice(["en", "de", "zh", "x", "sr", "abcdefgh"])] +
                        [rng.choice(["US", "Latn", "1996", "a1", "abcdefg1"]) for _ in range(rng.choice([0, 0, 1, 2]))])
    if kind == "anyURI":
        return rng.choice(["http://example.org/", "urn:x:", "", "../a b", "mailto:a@b", "http://é.example/漢#f?q=1 2"]) + \
            "".join(rng.choice(_ALPH) for _ in range(n))
    chars = _ALPH + ("\t\n\r" if kind == "string" else "")
    s = "".join(rng.choice(chars) for _ in range(n))
    if kind == "token":
        s = " ".join(s.split(" ")).strip(" ")
        while "  " in s:
            s = s.replace("  ", " ")
    return s


def _tz(rng):
    r = rng.random()
    if r < 0.4:
        return ""
    if r < 0.55:
        return "Z"
    if r < 0.65:
        return rng.choice(["+14:00", "-14:00", "+00:00", "-00:00", "+13:59"])
    return rng.choice("+-") + f"{rng.randint(0, 13):02d}:{rng.randint(0, 59):02d}"


def _year(rng):
    r = rng.random()
    if r < 0.72:
        y = rng.choice([1, 2, 4, 100, 400, 1000, 1582, 1900, 1970, 2000, 2024, 9999, rng.randint(1, 9999)])
        return f"{y:04d}"
    if r < 0.8:
        return "0000"
    if r < 0.9:
        return "-" + f"{rng.choice([1, 4, 44, 4713, 10000, 123456]):04d}"
    return str(rng.choice([10000, 12345, 99999, 292277026596]))


def gen_date_body(rng):
    ys = _year(rng)
    y = int(ys)
    mo = rng.randint(1, 12)
    d = rng.choice([1, 28, _dim(abs(y), mo), rng.randint(1, _dim(abs(y), mo))])
    if rng.random() < 0.1:
        mo, d = 2, 29
        if _dim(abs(y), 2) < 29:
            d = 28
    return f"{ys}-{mo:02d}-{d:02d}"


def gen_time_body(rng):
    r = rng.random()
    if r < 0.06:
        return "24:00:00" + rng.choice(["", "", ".0", ".000"])
    h, mi, s = rng.choice([0, 12, 23, rng.randint(0, 23)]), rng.choice([0, 59, rng.randint(0, 59)]), rng.choice([0, 59, rng.randint(0, 59)])
    fr = ""
    if rng.random() < 0.55:
        n = rng.choice([1, 2, 3, 6, 6, 6, 7, 9, 12])
        fr = "." + rng.choice([_digits(rng, n), "0" * (n - 1) + "1", "9" * n, _digits(rng, min(n, 6)).ljust(n, "0")])
    return f"{h:02d}:{mi:02d}:{s:02d}{fr}"


def gen_duration_lex(rng, dt):
    def n(big=False):
        r = rng.random()
        v = rng.choice([0, 1, 2, 11, 12, 13, 23, 24, 59, 60, 61]) if r < 0.5 else rng.randint(0, 10 ** rng.choice([2, 3, 5, 9, 11 if big else 9]))
        return "0" * rng.choice([0, 0, 0, 2]) + str(v)
    ym, dtm = dt != "dayTimeDuration", dt != "yearMonthDuration"
    while True:
        parts, tparts = [], []
        if ym and rng.random() < 0.45:
            parts.append(n() + "Y")
        if ym and rng.random() < 0.45:
            parts.append(n() + "M")
        if dtm and rng.random() < 0.45:
            parts.append(n(True) + "D")
        if dtm and rng.random() < 0.4:
            tparts.append(n(True) + "H")
        if dtm and rng.random() < 0.4:
            tparts.append(n(True) + "M")
        if dtm and rng.random() < 0.5:
            sec = n(True)
            if rng.random() < 0.6:
                k = rng.choice([1, 3, 6, 6, 6, 7, 9])
                sec += "." + rng.choice([_digits(rng, k), "0" * (k - 1) + "1", "9" * k, "5".ljust(k, "0"), "0" * 6 + "5"[:max(0, k - 6)]] if k else ["0"])
                if sec.endswith("."):
                    sec += "0"
            tparts.append(sec + "S")
        if parts or tparts:
            break
    return rng.choice(["", "", "-"]) + "P" + "".join(parts) + ("T" + "".join(tparts) if tparts else "")


def _b64(bs):
    bits = "".join(format(b, "08b") for b in bs)
    bits += "0" * (-len(bits) % 6)
    out = "".join(B64[int(bits[i:i + 6], 2)] for i in range(0, len(bits), 6))
    return out + "=" * (-len(out) % 4)


def gen_valid(rng, dt):
    if dt in INT_BOUNDS:
        return gen_int_lex(rng, dt)
    if dt == "decimal":
        return gen_decimal_lex(rng)
    if dt == "boolean":
        return rng.choice(["true", "false", "1", "0"])
    if dt in STRINGY:
        return gen_string(rng, dt)
    if dt == "date":
        return gen_date_body(rng) + _tz(rng)
    if dt == "time":
        return gen_time_body(rng) + _tz(rng)
    if dt == "dateTime":
        return gen_date_body(rng) + "T" + gen_time_body(rng) + _tz(rng)
    if dt in DURS:
        return gen_duration_lex(rng, dt)
    bs = bytes(rng.randint(0, 255) if rng.random() < 0.7 else rng.choice(b"0123456789abcdef") for _ in range(rng.choice([0, 1, 2, 3, 4, 7, 16])))
    if dt == "hexBinary":
        h = bs.hex()
        return rng.choice([h, h.upper(), "".join(rng.choice([c, c.upper()]) for c in h)])
    if dt == "base64Binary":
        e = _b64(bs)
        if rng.random() < 0.3:
            e = " ".join(e[i:i + 4] for i in range(0, len(e), 4))
        return e
    if dt in ("float", "double"):
        r = rng.random()
        if r < 0.15:
            return rng.choice(["INF", "-INF", "+INF", "NaN"])
        m = rng.choice(["", "+", "-"]) + rng.choice([str(_nat(rng)), str(_nat(rng)) + ".", "." + _digits(rng, 3), str(rng.randint(0, 99)) + "." + _digits(rng, rng.randint(1, 17))])
        if rng.random() < 0.5:
            m += rng.choice("eE") + rng.choice(["", "+", "-"]) + str(rng.choice([0, 1, 5, 22, 37, 38, 39, 45, 307, 308, 309, 324, 400]))
        return m
    raise KeyError(dt)


_MUT = "0123456789+-.:,_ eETZzPYMWDHSxaf\t\n"


def mutate(rng, dt, s):
    r = rng.random()
    if r < 0.12:
        return rng.choice(["", " ", "+", "-", ".", "x", "TRUE", "True", "yes", "1e3", "1_000", " 1", "1 ", "0x10", "P", "PT", "T",
                           "٣", "１２", "1 ", "2000-13-01", "2000-02-30", "1900-02-29", "25:00:00", "12:60:00", "12:00:60",
                           "2000-01-01T25:00:00", "20000101", "2000-W01-1", "12:00", "P1W", "P1.5D", "P1Y2M3DT", "PT1.S", "P-1D",
                           "-P", "+P1D", "P1D\n", "X0003-06-04T12:30:05", "P0003-06-04T12:30:05", "10003-06-04T12:30:05", "0fb", "0g", "NaN", "INF", "inf", "nan", "Infinity", "1.", ".", "1..2", "--1", "+-1"])
    if r < 0.3 and dt in INT_BOUNDS:
        lo, hi = INT_BOUNDS[dt]
        c = [x for x in (None if lo is None else lo - 1, None if hi is None else hi + 1) if x is not None]
        if c:
            return str(rng.choice(c))
    if r < 0.4:
        return rng.choice([" ", "\t", "\n", ""]) + s + rng.choice([" ", "\n", "", ""])
    if dt == "base64Binary" and r < 0.7:
        # padding / alphabet / white-space shapes of binascii.a2b_base64 (non-strict)
        q = rng.random()
        if q < 0.25:
            return rng.choice(["=", "==", "Y", "YQ", "YQ=", "YQ===", "YWI", "YWI==", "YQ=a=", "YQ=YQ==", "=YQ==", "Y=Q==", "YW=Jj", "YWJj=",
                               "YWJj====", "YQ = =", "YQ= =", "YQ ==", " YQ==", "YQ== ", "YQ==\n", "Y Q = =", "YWJj ", "YW  Jj", "YWJjZA", "YR==",
                               "YWJ=", "YWI=", "YWJj\nZGVm", "YWJj-_", "YWJj.ZA==", "YQ==YWJj", "YWJjYQ==YWJj", "Y===", "Y=Q=", "YQ=\t="])
        i = rng.randrange(len(s) + 1)
        if q < 0.5:
            return s[:i] + rng.choice(["=", "=", " ", "  ", "\n", "-", "_", "A", "Q", "/", "+"]) + s[i:]
        if q < 0.7:
            return s.rstrip("=") + "=" * rng.choice([0, 0, 1, 2, 3])
        if q < 0.85 and s:
            i = min(i, len(s) - 1)
            return s[:i] + rng.choice(B64 + "=") + s[i + 1:]
        return " ".join(s) if q < 0.93 else s.replace("=", " =")
    if not s:
        return rng.choice(_MUT)
    i = rng.randrange(len(s))
    op = rng.random()
    if op < 0.35:
        return s[:i] + rng.choice(_MUT) + s[i + 1:]
    if op < 0.65:
        return s[:i] + rng.choice(_MUT) + s[i:]
    if op < 0.9:
        return s[:i] + s[i + 1:]
    j = rng.randrange(len(s))
    return s[:min(i, j)] + s[max(i, j):]


def gen_pyspec(rng, floats=True, bytes_ok=True):
    t = rng.choice(["int", "int", "bool", "dec", "dec", "str", "date", "time", "datetime", "datetime", "td", "dur"]
                   + (["float"] if floats else []) + (["bytes"] if bytes_ok and rng.random() < 0.3 else []))
    if t == "int":
        return {"t": t, "v": str(_nat(rng, big=True) * rng.choice([1, -1]))}
    if t == "bool":
        return {"t": t, "v": rng.randint(0, 1)}
    if t == "dec":
        c = rng.choice(["0", "1", "5", "10", "100", str(_nat(rng)), _digits(rng, rng.choice([1, 3, 17, 28, 40])).lstrip("0") or "0"])
        return {"t": t, "s": rng.randint(0, 1), "c": c, "e": rng.choice([0, 0, -1, 1, -2, 2, 3, -3, -6, 6, rng.randint(-30, 30)])}
    if t == "str":
        return {"t": t, "cps": [ord(c) for c in gen_string(rng, "string")]}
    if t == "bytes":
        return {"t": t, "b": [rng.randint(0, 255) if rng.random() < 0.5 else rng.choice(b"abc0123456789") for _ in range(rng.choice([0, 1, 2, 3, 4, 8]))],
                "dt": rng.choice([None, "hexBinary", "base64Binary"])}
    if t == "float":
        r = rng.random()
        if r < 0.2:
            return {"t": t, "hex": rng.choice(["inf", "-inf", "nan"])}
        f = rng.choice([0.0, -0.0, 1.0, 0.1, 1e22, 1e-7, 5e-324, 1.7976931348623157e308, 123456789.123456789,
                        rng.random(), rng.uniform(-1e6, 1e6), rng.random() * 10 ** rng.randint(-320, 300), float(rng.randint(-10 ** 17, 10 ** 17))])
        return {"t": t, "hex": f.hex()}

    def tz():
        r = rng.random()
        if r < 0.4:
            return None
        if r < 0.5:
            return 0
        if r < 0.88:
            return rng.choice([1, -1]) * rng.choice([60, 90, 330, 345, 840, 1439, rng.randint(0, 1439)]) * 60 * 10 ** 6
        if r < 0.96:
            return rng.choice([1, -1]) * (rng.randint(0, 86399) * 10 ** 6)
        return rng.choice([1, -1]) * rng.randint(1, 86399999999)

    def ymd():
        y = rng.choice([1, 2, 99, 999, 1000, 1582, 1970, 2000, 2024, 9999, rng.randint(1, 9999)])
        mo = rng.randint(1, 12)
        return [y, mo, rng.choice([1, _dim(y, mo), rng.randint(1, _dim(y, mo))])]

    def hms():
        return [rng.choice([0, 23, rng.randint(0, 23)]), rng.choice([0, 59, rng.randint(0, 59)]), rng.choice([0, 59, rng.randint(0, 59)]),
                rng.choice([0, 0, 1, 10, 500000, 999999, rng.randint(0, 999999)])]
    if t == "date":
        return {"t": t, "f": ymd()}
    if t == "time":
        return {"t": t, "f": hms(), "tz": tz(), "fold": rng.choice([0, 0, 0, 1])}
    if t == "datetime":
        return {"t": t, "f": ymd() + hms(), "tz": tz(), "fold": rng.choice([0, 0, 0, 1])}
    us = rng.choice([0, 1, -1, 10 ** 6, -10 ** 6, 86400 * 10 ** 6, 3600 * 10 ** 6 + 1, 59999999, rng.randint(-10 ** 13, 10 ** 13),
                     rng.randint(-86399999999999, 86399999999999), rng.choice([1, -1]) * rng.randint(0, 999999999 * 86400 * 10 ** 6)])
    if t == "td":
        return {"t": t, "us": str(us)}
    y, m = rng.choice([0, 0, 1, 2, 10, rng.randint(0, 10 ** 6)]), rng.choice([0, 0, 1, 11, 12, 13, rng.randint(0, 1000)])
    sg = rng.choice([1, -1])
    if rng.random() < 0.3:
        us = 0
    us = abs(us) * sg     # XSD durations have one sign: year-month and day-time parts agree
    return {"t": t, "y": sg * y, "m": sg * m, "us": str(us)}


def _lit_for_eq(rng, fam):
    """a literal spec of the given comparison family"""
    if fam == "numeric":
        base = rng.choice([0, 1, -1, 5, 10, 100, 255, 256, -128, 2 ** 31, _nat(rng)])
        r = rng.random()
        if r < 0.3:
            return {"v": {"t": "int", "v": str(base)}}
        if r < 0.45:
            k = rng.choice([0, 1, 3])
            return {"v": {"t": "dec", "s": int(base < 0), "c": str(abs(base) * 10 ** k), "e": -k}}
        dt = rng.choice(list(INT_BOUNDS) + ["decimal", "decimal"])
        s = str(base) if dt != "decimal" else str(base) + rng.choice(["", ".", ".0", ".00", ".5"])
        if rng.random() < 0.3:
            s = ("-" if s.startswith("-") else rng.choice(["", "+"])) + "0" * rng.randint(0, 2) + s.lstrip("-")
        return {"dt": dt, "cps": [ord(c) for c in s], "norm": rng.random() < 0.6}
    if fam == "string":
        s = rng.choice(["", "a", "a ", "A", "1", "true", "é"])
        return rng.choice([{"dt": None, "cps": [ord(c) for c in s], "norm": True}, {"dt": "string", "cps": [ord(c) for c in s], "norm": True},
                           {"v": {"t": "str", "cps": [ord(c) for c in s]}}])
    if fam in ("token", "normalizedString"):
        s = rng.choice(["a", " a", "a ", "a b", "a  b", "a\tb", "\na b", "", " "])
        return {"dt": fam, "cps": [ord(c) for c in s], "norm": rng.random() < 0.5}
    if fam == "boolean":
        return rng.choice([{"dt": "boolean", "cps": [ord(c) for c in rng.choice(["true", "false", "1", "0", "TRUE", "x"])], "norm": rng.random() < 0.5},
                           {"v": {"t": "bool", "v": rng.randint(0, 1)}}])
    if fam in DURS:
        s = rng.choice(["P1D", "PT24H", "PT1440M", "PT86400S", "P1Y", "P12M", "P0Y", "PT0S", "P0D", "-P1D", "-PT24H", "P1Y1D", "P12M1D", "PT0.5S", "PT0.500S", "P1M", "P30D", "P1Y2M", "P14M", "x"])
        return {"dt": fam, "cps": [ord(c) for c in s], "norm": rng.random() < 0.5}
    if fam == "date":
        s = rng.choice(["2000-01-01", "2000-01-02", "2000-01-01Z", "2000-01-01+01:00", "0001-01-01", "0000-01-01", "x"])
        return rng.choice([{"dt": "date", "cps": [ord(c) for c in s], "norm": rng.random() < 0.5}, {"v": {"t": "date", "f": [2000, 1, rng.choice([1, 2])]}}])
    if fam == "time":
        s = rng.choice(["12:00:00", "12:00:00.0", "12:00:00Z", "13:00:00+01:00", "12:00:00+00:00", "11:00:00-01:00", "24:00:00", "00:00:00", "12:00:01"])
        return {"dt": "time", "cps": [ord(c) for c in s], "norm": rng.random() < 0.5}
    if fam == "dateTime":
        s = rng.choice(["2000-01-01T12:00:00", "2000-01-01T12:00:00.000", "2000-01-01T12:00:00Z", "2000-01-01T13:00:00+01:00",
                        "2000-01-01T12:00:00+00:00", "1999-12-31T23:00:00-13:00", "2000-01-01T24:00:00", "2000-01-02T00:00:00", "x"])
        return {"dt": "dateTime", "cps": [ord(c) for c in s], "norm": rng.random() < 0.5}
    if fam == "hexBinary":
        s = rng.choice(["", "0fb7", "0FB7", "0Fb7", "00", "3132", "0f", "0"])
        return {"dt": "hexBinary", "cps": [ord(c) for c in s], "norm": rng.random() < 0.5}
    if fam == "base64Binary":
        s = rng.choice(["", "YQ==", "Y Q==", "YQ= =", "YR==", "YWI=", "YWJj", "YW Jj", "YWJjZA==", "YQ", "YQ=YQ==", "MTI="])
        return {"dt": "base64Binary", "cps": [ord(c) for c in s], "norm": rng.random() < 0.5}
    if fam == "float":
        return rng.choice([{"v": {"t": "float", "hex": rng.choice(["nan", "inf", "-inf", (1.0).hex(), (0.0).hex(), (-0.0).hex()])}},
                           {"dt": rng.choice(["double", "float"]), "cps": [ord(c) for c in rng.choice(["NaN", "INF", "1", "1.0", "1e0", "0", "-0"])], "norm": rng.random() < 0.5}])
    raise KeyError(fam)


def gen_relit(rng):
    """Literal(old[, datatype=d2][, lang=l]) for an existing literal `old` of any family"""
    target = rng.choice(MODELLED + MODELLED + UNMODELLED_DT)
    q = rng.random()
    if q < 0.45:
        # a plain / xsd:string literal whose text is (mostly) a form of the target datatype, then re-typed
        s = gen_valid(rng, target)
        if rng.random() < 0.35:
            s = mutate(rng, target, s)
        if target in ("token", "normalizedString", "string") and rng.random() < 0.6:
            s = rng.choice([" ", "", "\t", "\n "]) + s.replace(" ", rng.choice([" ", "  ", " \t "]), 1) + rng.choice(["", " ", "\r"])
        s = re.sub(r"([eE][+-]?[0-9]{3})[0-9]+", r"\1", s)
        old = {"dt": rng.choice([None, None, "string"]), "cps": [ord(c) for c in s], "norm": True}
        if rng.random() < 0.06:
            old = {"dt": None, "cps": [ord(c) for c in s], "norm": True, "lang": rng.choice(["en", "de-CH"])}
        return {"kind": "relit", "old": old, "dt": target}
    if q < 0.7:
        # a typed literal (either normalize setting) or a Python value, copied
        old = ({"v": gen_pyspec(rng, bytes_ok=False)} if rng.random() < 0.4 else
               {"dt": target, "cps": [ord(c) for c in re.sub(r"([eE][+-]?[0-9]{3})[0-9]+", r"\1", gen_valid(rng, target) if rng.random() < 0.8 else mutate(rng, target, gen_valid(rng, target)))],
                "norm": rng.random() < 0.5})
        return {"kind": "relit", "old": old, "dt": None}
    if q < 0.78:
        # language-tagged and plain literals copied, with or without a (new) language
        s = gen_string(rng, "string")
        old = {"dt": None, "cps": [ord(c) for c in s], "norm": True}
        if rng.random() < 0.6:
            old["lang"] = rng.choice(["en", "EN", "fr-BE"])
        return {"kind": "relit", "old": old, "dt": None, **({"lang": rng.choice(["en", "de"])} if rng.random() < 0.5 else {})}
    # a typed literal re-typed within / across families
    fams = [list(INT_BOUNDS) + ["decimal"], ["string", "normalizedString", "token", "language", "anyURI"], DURS, DATEY, ["hexBinary", "string"],
            ["base64Binary", "string", "hexBinary"]]
    fam = rng.choice(fams)
    d1, d2 = rng.choice(fam), rng.choice(fam)
    s = gen_valid(rng, d1) if rng.random() < 0.85 else mutate(rng, d1, gen_valid(rng, d1))
    if d1 in ("string",) and rng.random() < 0.5:
        s = " " + s + "  x\t"
    s = re.sub(r"([eE][+-]?[0-9]{3})[0-9]+", r"\1", s)
    return {"kind": "relit", "old": {"dt": d1, "cps": [ord(c) for c in s], "norm": rng.random() < 0.5}, "dt": d2}


_EQPY_FAMS = ["numeric", "numeric", "numeric", "string", "boolean", "duration", "dayTimeDuration", "yearMonthDuration",
              "date", "time", "dateTime", "hexBinary", "base64Binary", "float", "token"]


def gen_eqpy(rng):
    """a literal of every family and a plain Python object: the value it maps to, a neighbour, or another kind"""
    fam = rng.choice(_EQPY_FAMS)
    q = rng.random()
    if q < 0.55:
        a = _lit_for_eq(rng, fam)
    elif q < 0.8:
        dt = {"numeric": rng.choice(list(INT_BOUNDS) + ["decimal", "decimal"]), "float": rng.choice(["double", "float"])}.get(fam, fam)
        a = {"dt": dt, "cps": [ord(c) for c in re.sub(r"([eE][+-]?[0-9]{3})[0-9]+", r"\1", gen_valid(rng, dt))], "norm": rng.random() < 0.5}
    else:
        a = {"v": gen_pyspec(rng, bytes_ok=False)}
    vs = None
    r = rng.random()
    if r < 0.6:
        try:
            vs = pyspec_of(_mk(a).value)        # the value the literal itself maps to
        except Exception:  # noqa: BLE001
            vs = None
        if vs is not None and rng.random() < 0.3:   # ... or a neighbour of it
            if vs["t"] == "int":
                vs = rng.choice([{"t": "int", "v": str(int(vs["v"]) + 1)}, {"t": "dec", "s": int(int(vs["v"]) < 0), "c": str(abs(int(vs["v"]))) + "0", "e": -1},
                                 {"t": "float", "hex": float(int(vs["v"])).hex()} if abs(int(vs["v"])) < 2 ** 53 else vs])
            elif vs["t"] == "dec":
                vs = rng.choice([{**vs, "e": vs["e"] + 1}, {**vs, "c": vs["c"] + "0", "e": vs["e"] - 1}, {**vs, "s": 1 - vs["s"]}])
            elif vs["t"] == "bool":
                vs = {"t": "bool", "v": 1 - vs["v"]}
            elif vs["t"] == "td":
                vs = rng.choice([{"t": "td", "us": str(int(vs["us"]) + 1)}, {"t": "dur", "y": 0, "m": 0, "us": vs["us"]}])
            elif vs["t"] == "dur":
                vs = rng.choice([{**vs, "m": (vs["m"] + 1) % 12}, {**vs, "y": vs["y"] + 1, "m": vs["m"]}])
            elif vs["t"] == "date":
                vs = rng.choice([{"t": "date", "f": vs["f"][:2] + [vs["f"][2] % 28 + 1]}, {"t": "datetime", "f": vs["f"] + [0, 0, 0, 0], "tz": None, "fold": 0}])
            elif vs["t"] in ("time", "datetime"):
                vs = rng.choice([{**vs, "tz": None if vs["tz"] is not None else 0}, {**vs, "f": vs["f"][:-1] + [(vs["f"][-1] + 1) % 10 ** 6]}])
            elif vs["t"] == "str":
                vs = {"t": "str", "cps": vs["cps"] + [120]}
    if vs is None:
        vs = gen_pyspec(rng, bytes_ok=False)
    return {"kind": "eqpy", "a": a, "v": vs}


def gen_case(rng, tier, i):
    r = rng.random()
    if r < 0.6:
        dt = rng.choice(MODELLED + MODELLED + UNMODELLED_DT)
        s = gen_valid(rng, dt)
        intent = "valid"
        if rng.random() < 0.3:
            s, intent = mutate(rng, dt, s), "mutated"
            if rng.random() < 0.2:
                s = mutate(rng, dt, s)
        # "1e9999999"^^xsd:decimal (not a valid form) makes rdflib's normalisation format gigabytes of zeros
        s = re.sub(r"([eE][+-]?[0-9]{3})[0-9]+", r"\1", s)
        c = {"kind": "lex", "dt": dt, "cps": [ord(c) for c in s], "intent": intent}
        rare = 2.0 if tier == "thorough" else 1.0          # the low-probability axes get a larger share in thorough
        if rng.random() < 0.25 and not any(0xD800 <= ord(ch) <= 0xDFFF for ch in s):
            c["bytes"] = True
        elif rng.random() < 0.04 * rare:
            c["strsub"] = True
        if rng.random() < 0.12 * rare:
            c["dtstr"] = True
        q = rng.random()
        if q < 0.1 * rare:
            c["nmode"] = "t"
        elif q < 0.2 * rare:
            c["nmode"] = "o"
        return c
    if r < 0.83:
        rare = 2.0 if tier == "thorough" else 1.0
        sp = gen_pyspec(rng)
        q = rng.random()
        if q < 0.08 * rare and sp["t"] in ("int", "dec", "str", "date", "datetime", "time", "td"):
            sp["sub"] = "enum" if (sp["t"] == "int" and rng.random() < 0.5) else True
            if sp["sub"] == "enum":
                sp["v"] = str(rng.choice([1, 2, 7]))
        elif q < 0.18 * rare and sp["t"] not in ("float", "bytes", "str"):
            # Literal(value, datatype=…): the datatype-specific rules and the derived datatypes
            fams = {"int": list(INT_BOUNDS) + ["decimal"], "dec": ["decimal"], "bool": ["boolean"], "date": ["date", "gYear", "gYearMonth"],
                    "datetime": ["dateTime"], "time": ["time"], "td": DURS, "dur": DURS}[sp["t"]]
            sp["dt"] = rng.choice(fams)
            if sp["t"] == "int" and rng.random() < 0.7:
                lo, hi = INT_BOUNDS.get(sp["dt"], (None, None))
                v = int(sp["v"])
                if lo is not None and v < lo or hi is not None and v > hi:
                    sp["v"] = str(rng.choice([x for x in (lo, hi, 0 if (lo or 0) <= 0 <= (hi if hi is not None else 0) else None) if x is not None]))
            if sp["t"] in ("td", "dur") and sp["dt"] == "yearMonthDuration" and rng.random() < 0.7:
                sp["us"] = "0"
            if rng.random() < 0.3:
                sp["dtstr"] = True
        elif q < 0.21 * rare and sp["t"] == "str":
            sp["lang"] = rng.choice(["en", "de-CH", "EN", "x-a1", "", "e n", "1a", "en-"])
        return {"kind": "py", "v": sp}
    if r < 0.835:
        return {"kind": "xml", "s": rng.choice(_XML_OK + _XML_OK + _XML_BAD)}
    if r < 0.84:
        return {"kind": "bind", "specific": rng.random() < 0.5, "n": rng.randint(-50, 50),
                "lex": rng.choice(["12", "0012", "+5", "-0", "x", "", "1.5", str(rng.randint(-10 ** 6, 10 ** 6))])}
    if r < 0.9:
        return gen_relit(rng)
    if r < 0.95:
        return gen_eqpy(rng)
    fam = rng.choice(["numeric", "numeric", "numeric", "string", "boolean", "duration", "dayTimeDuration", "date", "time", "dateTime", "hexBinary",
                      "base64Binary", "float", "token", "normalizedString"])
    a = _lit_for_eq(rng, fam)
    q = rng.random()
    if q < 0.2:
        b = dict(a)
    elif q < 0.9:
        b = _lit_for_eq(rng, fam)
    else:
        b = _lit_for_eq(rng, rng.choice(["numeric", "string", "boolean", "duration", "date"]))
    for side in (a, b):
        if "cps" in side and side.get("dt") and rng.random() < 0.1:
            side["dtstr"] = True
    return {"kind": "eq", "a": a, "b": b}


# ------------------------------------------------------------------ shrinking

def shrink(case):
    k = case["kind"]
    if k == "lex":
        cps = case["cps"]
        for i in range(len(cps)):
            yield {**case, "cps": cps[:i] + cps[i + 1:]}
        for i, c in enumerate(cps):
            if chr(c).isdigit() and chr(c) not in "01":
                yield {**case, "cps": cps[:i] + [ord("1")] + cps[i + 1:]}
    elif k == "py":
        sp = case["v"]
        if sp["t"] in ("int", "td") and abs(int(sp.get("v", sp.get("us")))) > 1:
            key = "v" if sp["t"] == "int" else "us"
            v = int(sp[key])
            for w in (0, 1, -1, v // 2, v // 10):
                if w != v:
                    yield {**case, "v": {**sp, key: str(w)}}
        if sp["t"] == "str" or sp["t"] == "bytes":
            key = "cps" if sp["t"] == "str" else "b"
            for i in range(len(sp[key])):
                yield {**case, "v": {**sp, key: sp[key][:i] + sp[key][i + 1:]}}
        if sp["t"] in ("time", "datetime"):
            if sp.get("fold"):
                yield {**case, "v": {**sp, "fold": 0}}
            f = sp["f"]
            for i in range(len(f) - 4, len(f)):
                if f[i]:
                    yield {**case, "v": {**sp, "f": f[:i] + [0] + f[i + 1:]}}
            if sp["tz"] not in (None, 0):
                for w in (None, 10 ** 6 if sp["tz"] % (60 * 10 ** 6) else 3600 * 10 ** 6):
                    if w != sp["tz"]:
                        yield {**case, "v": {**sp, "tz": w}}
        if sp["t"] == "dec":
            if sp["c"] not in ("0", "1"):
                yield {**case, "v": {**sp, "c": "1"}}
            if sp["e"]:
                yield {**case, "v": {**sp, "e": sp["e"] // 2}}
    elif k == "eqpy":
        ls = case["a"]
        if "cps" in ls:
            for i in range(len(ls["cps"])):
                yield {**case, "a": {**ls, "cps": ls["cps"][:i] + ls["cps"][i + 1:]}}
    elif k == "relit":
        ls = case["old"]
        if "cps" in ls:
            for i in range(len(ls["cps"])):
                yield {**case, "old": {**ls, "cps": ls["cps"][:i] + ls["cps"][i + 1:]}}
            if ls.get("dt") == "string":
                yield {**case, "old": {**ls, "dt": None}}
            if not ls.get("norm"):
                yield {**case, "old": {**ls, "norm": True}}
    elif k == "eq":
        for side in ("a", "b"):
            ls = case[side]
            if "cps" in ls:
                for i in range(len(ls["cps"])):
                    yield {**case, side: {**ls, "cps": ls["cps"][:i] + ls["cps"][i + 1:]}}


# ------------------------------------------------------------------ known findings (narrow matchers)

def _tags(result):
    return {v.split(":")[0] for v in result["viol"]}


def _lex_info(case):
    if case.get("kind") == "relit":
        try:
            oldl, dt, _kw = _relit_parts(case)
        except Exception:  # noqa: BLE001
            return None
        if dt not in ALL_DT:
            return None
        s = str(oldl)
        px = xsd_parse(dt, s)
        return None if px is None else (dt, s, px[1], representable(dt, px[1]))
    if case.get("kind") != "lex":
        return None
    dt, s = case["dt"], "".join(chr(c) for c in case["cps"])
    px = xsd_parse(dt, s)
    return None if px is None else (dt, s, px[1], representable(dt, px[1]))


def _m_range(case, result):
    """valid date/time/duration form whose XSD value CPython's date/time/timedelta cannot hold: value None, flagged"""
    inf = _lex_info(case)
    return bool(inf and inf[0] in DATEY + DURS and inf[3] == "range" and _tags(result) <= {"ill-typed", "value"}
                and result["obs"] and ("|None|" in result["obs"][0] or result["obs"] == ["unmodelled"]))


def _m_precision(case, result):
    """more than six significant fraction digits of a second: silently truncated / rounded to microseconds"""
    inf = _lex_info(case)
    return bool(inf and inf[0] in ("time", "dateTime", "duration", "dayTimeDuration") and inf[3] == "precision"
                and _tags(result) <= {"value", "norm-value"})


def _m_datetz(case, result):
    """xsd:date with a time zone: datetime.date has no zone, normalisation rewrites the form without it"""
    inf = _lex_info(case)
    return bool(inf and inf[0] == "date" and inf[3] == "datetz" and _tags(result) <= {"value", "norm-value"})


def _m_offset(case, result):
    """time/datetime whose utcoffset XSD cannot write: not a whole number of minutes, or beyond ±14:00"""
    if case.get("kind") != "py" or case["v"]["t"] not in ("time", "datetime"):
        return False
    tz = case["v"]["tz"]
    return tz is not None and (tz % (60 * 10 ** 6) != 0 or abs(tz) > 14 * 3600 * 10 ** 6) and _tags(result) <= {"py-lexical"}


def _m_bytes(case, result):
    """bytes are read as an encoded lexical form, never as a value"""
    return case.get("kind") == "py" and case["v"]["t"] == "bytes" and _tags(result) <= {"py-bytes"}


def _m_nan_eq(case, result):
    """NaN: term-equal literals whose values are not equal to themselves"""
    if case.get("kind") not in ("eq", "relit", "lex") or _tags(result) != {"eq-term"}:
        return False
    try:
        if case["kind"] == "lex":      # a NaN literal against the literal built from its own lexical form
            a = b = _mk({"dt": case["dt"], "cps": case["cps"], "norm": True})
        elif case["kind"] == "relit":
            oldl, _dt, kw = _relit_parts(case)
            a = b = Literal(oldl, **kw)
        else:
            a, b = _mk(case["a"]), _mk(case["b"])
    except Exception:  # noqa: BLE001
        return False
    return all(isinstance(x.value, (float, Decimal)) and x.value != x.value for x in (a, b))


MATCHERS = {"out_of_cpython_range": _m_range, "sub_microsecond_fraction": _m_precision, "date_timezone_dropped": _m_datetz,
            "utcoffset_outside_xsd": _m_offset, "bytes_read_as_lexical_form": _m_bytes, "nan_not_eq_itself": _m_nan_eq}
