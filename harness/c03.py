"""C03 — serialise then parse gives back the same RDF graph, in every syntax.  DESIGN §6 C03.

Case = {"spec": <graphgen Spec>, "fmts": [format…] (optional, default all eight),
        "opts": {fmt: {serializer keyword: value}} (optional; gen_options: every keyword the serializers read),
        "round2": {…} (optional; graphgen.gen_round2),
        "io": {…} (optional; gen_io: destination / source kinds, format aliases and guessing, encoding, publicID, reader
               keywords, source and target graph kinds, format order, one serializer object re-used for 3-4 calls)}

Property oracle (on the implementation only, independent of Lean and of rdflib.compare):
    for every format F that can express the graph:
        isoutil.iso(set(g), set(Graph().parse(data=g.serialize(format=F, base=…), format=F)))
    (hext: both sides first mapped through the RDF 1.1 identification simple literal = xsd:string),
    and every serialisation returns (per-format watchdog; the core watchdog backs it up).
Violation tags:  rt-<fmt> (graph differs), ser-<fmt> (serializer raised), parse-<fmt> (rdflib cannot read its own
output), hang-<fmt> (no return within FMT_TIMEOUT_S of CPU time, wall-clock backstop x10), timeout (core watchdog); rt2-/ser2-/parse2-/hang2-<fmt> for the
second round of a two-round case ("round2": the same Graph object is serialised again after one of the prefixes the
first round generated or used has been re-bound to another namespace and a triple in that namespace was added).

Observations compared with the Lean model (lean/RV/C03/Drive.lean).  All of them are taken from PUBLIC behaviour
(serializer output of one-triple graphs, reader results), none from private state:
  per sampled literal of the graph
    ntdec / tdec   the text rdflib's N-Triples / Turtle writer produced for the lexical form, decoded by the MODEL's
                   W3C string grammars                                                   -> the lexical form
    ntenc / tenc   the MODEL's encodings, read by rdflib's N-Triples / Turtle parsers    -> the lexical form
    relex, plain   the numeric/boolean shorthand token the Turtle writer emitted: re-lexed by the MODEL's token
                   grammar -> the datatype; accepted by the model of `_literal_label` (normalisation supplied as data)
  per sampled triple / object
    ntparse, ntrow whole N-Triples lines, both directions;  hextp, hext  HexTuples columns, both directions
  per graph
    vl             TurtleSerializer.isValidList on every list-head candidate  vs  the model's isValidList
    strip, stript  for IRIs under the `base` option: did the RDF/XML / Turtle writer write the cut-off rest or the absolute
                   IRI (read off one-triple outputs)  vs  the model of `_strippable_base` / `RecursiveSerializer.relativize`
    pre            the blank nodes the Turtle / longturtle / N3 text leaves unlabelled (read off by an independent
                   scanner) must pass the model's preCheck, which `preCheck_pre` proves sufficient for `Pre`
"""
from __future__ import annotations

import hashlib
import json
import logging
import os as _os
import re as _re_mod
import signal
import time
import warnings

import core  # noqa: F401  (puts the repository under test first on sys.path)
import graphgen as gg
import isoutil

warnings.filterwarnings("ignore")
logging.disable(logging.CRITICAL)

import rdflib  # noqa: E402
from rdflib import Graph  # noqa: E402
from rdflib.term import BNode, Literal, URIRef  # noqa: E402

ID = "C03"
LEAN_TARGETS = ["RV.C03.Props", "RV.C03.Audit"]
AUDIT = "RV/C03/Audit.lean"
DRIVER = "drv_c03"
CASES = {"quick": 600, "thorough": 12000, "search": 3000}
FORMATS = ["nt", "turtle", "longturtle", "n3", "xml", "pretty-xml", "json-ld", "hext"]
PARSE_AS = {"pretty-xml": "xml", "longturtle": "turtle"}
FMT_TIMEOUT_S = 4.0
XSD_STRING = URIRef(gg.XSD + "string")

RULE = ("random RDF graphs from harness/graphgen.py (IRIs over 7 namespaces, blank-node trees/DAGs/cycles/unreferenced "
        "nodes, proper and malformed rdf:List structures, literals from a hostile character pool, 45 datatypes with valid "
        "and invalid lexical forms, language tags) x options (base incl. IRIs under the base with tricky remainders, bound/unbound "
        "prefixes, every serializer keyword: spacious, canon, xml_base, max_depth, auto_compact, context, use_native_types, "
        "use_rdf_type, sort_keys, indent, separators, ensure_ascii; 15% two-round cases with a prefix re-bound; 30%/50% of cases "
        "with the I/O surface varied: destination and source kinds, format aliases and suffix guessing, encodings, publicID, reader "
        "keywords, graphs on other stores / Dataset views, shuffled format order, one serializer object called 3-4 times) x 8 formats; non-trivial = "
        "the graph is non-empty and at least 6 formats were actually round-tripped; distinct = distinct (graph, options)")
ASSUMPTIONS = [
    "literals are built through rdflib's default constructor (rdflib.NORMALIZE_LITERALS = True): lexical normalisation of "
    "recognised datatypes is C09's subject, the parsers apply the same normalisation",
    "blank-node labels are [A-Za-z][A-Za-z0-9]* (label scoping and odd labels belong to C12)",
    "RDF/XML: graphs with a predicate IRI that cannot be split into namespace + NCName, or a literal containing a "
    "character outside XML 1.0 `Char`, are outside 'every graph the syntax can express' and are skipped (counted in stats)",
    "lone surrogates are not Unicode scalar values and occur in no literal",
    "JSON-LD with the base option: `base` is the document's own IRI (JSON-LD API); the output holds document-relative ids "
    "and no @base (pinned by the suite's fromRdf/compact tests), so it is parsed with publicID=base; all other formats are "
    "parsed without a base",
    "encoding=: a document requested in a non-UTF-8 encoding travels to the reader as bytes (whether the bytes really are in "
    "that codec is the serializers' encoding contract, not the round trip); the JSON-LD reader is told the encoding; pretty-xml "
    "with latin-1/ascii only for graphs whose characters the codec holds",
    "target graphs on a context-unaware store only for nt, turtle, longturtle, xml, pretty-xml (the hext, JSON-LD and N3 readers "
    "refuse such a store explicitly); format guessing only where rdflib documents it (paths, locations, file=)",
]
TRUSTED = ["harness/c03.py, harness/graphgen.py generators; harness/isoutil.py isomorphism oracle",
           "harness/c03tables.py probes the writers' per-character behaviour into lean/RV/C03/Tables.lean",
           "lean/RV/C03/Drive.lean line protocol",
           "RDF/XML, pretty-xml, JSON-LD and all text layout: no Lean model; tied by the round trip on the implementation"]


class _FmtTimeout(Exception):
    pass


WALL_BACKSTOP_FACTOR = 10.0


def _with_timeout(fn, seconds):
    """Run fn() under a nested watchdog that counts CPU time (ITIMER_VIRTUAL / SIGVTALRM: a loop that never ends burns
    CPU, and the verdict does not depend on how loaded the machine is), with a wall-clock backstop of
    `seconds * WALL_BACKSTOP_FACTOR` (blocking waits burn no CPU).  Both limits scale with VERIF_TIMEOUT_SCALE.
    The enclosing core watchdog (ITIMER_PROF / SIGPROF for CPU, ITIMER_REAL / SIGALRM as its wall backstop) keeps
    running untouched, except that ITIMER_REAL / SIGALRM is borrowed for the nested backstop when that one would fire
    first; handler, remaining time and repeat interval are restored afterwards."""
    scale = float(_os.environ.get("VERIF_TIMEOUT_SCALE", "1"))
    cpu, wall = seconds * scale, seconds * scale * WALL_BACKSTOP_FACTOR

    def h(_s, _f):
        raise _FmtTimeout()

    old_vt = signal.signal(signal.SIGVTALRM, h)
    outer_left, outer_every = signal.getitimer(signal.ITIMER_REAL)
    borrow = outer_left <= 0 or wall < outer_left
    t0 = time.monotonic()
    if borrow:
        old_alrm = signal.signal(signal.SIGALRM, h)
        signal.setitimer(signal.ITIMER_REAL, wall)
    signal.setitimer(signal.ITIMER_VIRTUAL, cpu)
    try:
        return fn()
    finally:
        signal.setitimer(signal.ITIMER_VIRTUAL, 0)
        signal.signal(signal.SIGVTALRM, old_vt)
        if borrow:
            signal.setitimer(signal.ITIMER_REAL, 0)
            signal.signal(signal.SIGALRM, old_alrm)
            if outer_left > 0:
                signal.setitimer(signal.ITIMER_REAL, max(0.05, outer_left - (time.monotonic() - t0)), outer_every)


def _hext_norm(ts):
    out = set()
    for s, p, o in ts:
        if isinstance(o, Literal) and o.datatype is None and o.language is None:
            o = Literal(str(o), datatype=XSD_STRING)
        out.add((s, p, o))
    return out


def _exc(e):
    return f"{type(e).__name__}: {str(e)[:140]}"


def _describe_diff(a, b):
    ga = {t for t in a if not any(isinstance(x, BNode) for x in t)}
    gb = {t for t in b if not any(isinstance(x, BNode) for x in t)}
    lost = sorted(map(repr, ga - gb))[:2]
    added = sorted(map(repr, gb - ga))[:2]
    return (f"|g|={len(a)} |parsed|={len(b)}" + (f" lost {lost}" if lost else "") + (f" added {added}" if added else "")
            + ("" if lost or added else " (blank-node structure differs)"))


# ------------------------------------------------------------------ I/O surface (round f: surface audit)
# Every value class of Graph.serialize(destination, format, base, encoding, **args) and of
# Graph.parse(source, publicID, format, location, file, data, **args) that asks for the SAME graph back.

SER_ALIASES = {"nt": ["ntriples", "application/n-triples", "nt11"], "turtle": ["ttl", "text/turtle"], "n3": ["text/n3"],
               "xml": ["application/rdf+xml"], "json-ld": ["application/ld+json"]}
PARSE_ALIASES = {"nt": ["ntriples", "application/n-triples", "nt11"], "turtle": ["ttl", "text/turtle"],
                 "longturtle": ["ttl", "text/turtle"], "n3": ["text/n3"], "xml": ["application/rdf+xml"],
                 "pretty-xml": ["application/rdf+xml"], "json-ld": ["application/ld+json"]}
SUFFIXES = {"nt": [".nt"], "turtle": [".ttl"], "longturtle": [".ttl"], "n3": [".n3"], "xml": [".rdf", ".xml", ".owl"],
            "pretty-xml": [".rdf", ".xml"], "json-ld": [".jsonld", ".json", ".json-ld"], "hext": [".hext"]}
DEST_KINDS = ["path", "purepath", "fileobj", "bytesio", "fileurl"]                    # + "none" (the default)
SRC_KINDS = ["data_bytes", "data_str", "bytesio", "stringio", "file_bin", "file_text", "path", "purepath", "location",
             "inputsource", "pydict"]                                                  # + "data" (the default)
ENCODINGS = ["utf-8", "utf-16", "latin-1", "ascii"]                                   # + None (the default)
GRAPH_KINDS = ["simple", "named", "ctor_base", "shared_nm"]                           # + "memory" (the default)
TARGET_KINDS = ["simple", "named"]                                                    # + "memory" (the default)
OTHER_DOC = "http://other.example/dir/doc"
ENCODINGS_FOR = {}   # per-format restriction of the encoding axis (triage: see design.d/C03.md, surface audit)


# The audited surface (design.d/C03.md, "Surface audit"): every parameter inspect.signature shows on the entry points the
# property quantifies over.  `_surface_probe` re-enumerates them on every run; a parameter that is not listed here is
# counted in the evidence (stats surface_params_unlisted) so that the audit is redone when the surface grows.
SURFACE_AUDITED = {
    "Graph.serialize": ["destination", "format", "base", "encoding", "args"],
    "Graph.parse": ["source", "publicID", "format", "location", "file", "data", "args"],
    "Graph.__init__": ["store", "identifier", "namespace_manager", "base", "bind_namespaces"],
    "NTSerializer.serialize": ["stream", "base", "encoding", "kwargs"],
    "NT11Serializer.serialize": ["stream", "base", "encoding", "kwargs"],
    "TurtleSerializer.serialize": ["stream", "base", "encoding", "spacious", "kwargs"],
    "LongTurtleSerializer.serialize": ["stream", "base", "encoding", "spacious", "kwargs"],
    "N3Serializer.serialize": ["stream", "base", "encoding", "spacious", "kwargs"],
    "XMLSerializer.serialize": ["stream", "base", "encoding", "kwargs"],
    "PrettyXMLSerializer.serialize": ["stream", "base", "encoding", "kwargs"],
    "JsonLDSerializer.serialize": ["stream", "base", "encoding", "kwargs"],
    "HextuplesSerializer.serialize": ["stream", "base", "encoding", "kwargs"],
    "NTParser.parse": ["source", "sink", "kwargs"],
    "TurtleParser.parse": ["source", "graph", "encoding", "turtle"],
    "N3Parser.parse": ["source", "graph", "encoding"],
    "RDFXMLParser.parse": ["source", "sink", "args"],
    "JsonLDParser.parse": ["source", "sink", "version", "skolemize", "encoding", "base", "context", "generalized_rdf",
                           "extract_all_scripts", "kwargs"],
    "HextuplesParser.parse": ["source", "graph", "skolemize", "kwargs"],
}


def _surface_probe(stats):
    import inspect
    from rdflib import plugin
    from rdflib.parser import Parser
    from rdflib.serializer import Serializer
    found = {}
    for name, f in (("Graph.serialize", Graph.serialize), ("Graph.parse", Graph.parse), ("Graph.__init__", Graph.__init__)):
        found[name] = [q for q in inspect.signature(f).parameters if q != "self"]
    names = set(FORMATS) | {a for v in SER_ALIASES.values() for a in v} | {a for v in PARSE_ALIASES.values() for a in v}
    for kind, meth in ((Serializer, "serialize"), (Parser, "parse")):
        for nm in sorted(names):
            try:
                cls = plugin.get(nm, kind)
            except Exception:
                continue
            found.setdefault(f"{cls.__name__}.{meth}", [q for q in inspect.signature(getattr(cls, meth)).parameters if q != "self"])
    stats["surface_entry_points"] = len(found)
    stats["surface_params"] = sum(len(v) for v in found.values())
    stats["surface_params_unlisted"] = sum(1 for k, v in found.items() for q in v if q not in SURFACE_AUDITED.get(k, []))


def _target(kind):
    """the graph parsed INTO: fresh Memory graph | SimpleMemory graph | named graph of a Dataset that holds other data"""
    if kind == "simple":
        return Graph(store="SimpleMemory")
    if kind == "named":
        ds = rdflib.Dataset()
        ds.graph(URIRef("urn:x-other")).add((URIRef("urn:x-noise"), URIRef(gg.RDF + "value"), Literal("noise")))
        return ds.graph(URIRef("urn:x-target"))
    return Graph()


def _serialize_io(g, fmt, kw, io, tmp):
    """g.serialize through the destination kind of `io`; -> the document as handed over (str | bytes)"""
    import io as _io
    import os
    import pathlib
    fname = SER_ALIASES[fmt][io["alias"] % len(SER_ALIASES[fmt])] if io.get("alias") is not None and fmt in SER_ALIASES else fmt
    dest = io.get("dest", "none")
    if dest == "none":
        return g.serialize(format=fname, **kw)
    if dest == "bytesio":
        buf = _io.BytesIO()
        g.serialize(destination=buf, format=fname, **kw)
        return buf.getvalue()
    path = os.path.join(tmp, "out" + SUFFIXES[fmt][io.get("suffix", 0) % len(SUFFIXES[fmt])])
    if dest == "path":
        g.serialize(destination=path, format=fname, **kw)
    elif dest == "purepath":
        g.serialize(destination=pathlib.PurePath(path), format=fname, **kw)
    elif dest == "fileurl":
        g.serialize(destination="file://" + path, format=fname, **kw)
    else:
        with open(path, "wb") as f:
            g.serialize(destination=f, format=fname, **kw)
    with open(path, "rb") as f:
        return f.read()


def _parse_io(doc, fmt, pkw, io, tmp):
    """Graph.parse through the source kind of `io`; -> the parsed graph"""
    import io as _io
    import os
    import pathlib
    from rdflib.parser import StringInputSource
    enc = io.get("enc") or "utf-8"
    h = _target(io.get("tkind"))
    pfmt = PARSE_AS.get(fmt, fmt)
    if io.get("palias") is not None and fmt in PARSE_ALIASES:
        pfmt = PARSE_ALIASES[fmt][io["palias"] % len(PARSE_ALIASES[fmt])]
    src = io.get("src", "data")
    as_bytes = doc if isinstance(doc, bytes) else doc.encode("utf-8")
    as_str = doc if isinstance(doc, str) else (doc.decode("utf-8") if enc == "utf-8" else None)
    if src == "pydict" and fmt != "json-ld":
        src = "data"
    if isinstance(doc, bytes) and enc != "utf-8":
        # Bytes in a requested non-UTF-8 encoding travel as bytes.  (Which codec the bytes really are in is each
        # serializer's `encoding` contract, not a round-trip question: NT / hext warn and write UTF-8, the Turtle
        # family and XMLSerializer write UTF-8 silently, pretty-xml and JSON-LD honour the argument.)
        src = {"data_str": "data_bytes", "stringio": "bytesio", "file_text": "file_bin", "pydict": "data_bytes"}.get(src, src)
    if src in ("file_bin", "file_text", "path", "purepath", "location"):
        path = os.path.join(tmp, "in" + SUFFIXES[fmt][io.get("suffix", 0) % len(SUFFIXES[fmt])])
        with open(path, "wb") as f:
            f.write(as_bytes)
        if io.get("guess") and fmt != "hext" and src != "file_text":
            # format guessed from the file suffix (documented for locations, paths and file=; a file object handed
            # over as `source` has no name-based guess and falls back to Turtle)
            pfmt = None
    if src == "data":
        return h.parse(data=doc, format=pfmt, **pkw)
    if src == "data_bytes":
        return h.parse(data=as_bytes, format=pfmt, **pkw)
    if src == "data_str":
        return h.parse(data=as_str, format=pfmt, **pkw)
    if src == "pydict":
        tree = json.loads(as_str)  # the signature admits a dict; a document that is a top-level array travels as text
        return h.parse(data=tree if isinstance(tree, dict) else as_str, format=pfmt, **pkw)
    if src == "bytesio":
        return h.parse(source=_io.BytesIO(as_bytes), format=pfmt, **pkw)
    if src == "stringio":
        return h.parse(source=_io.StringIO(as_str), format=pfmt, **pkw)
    if src == "inputsource":
        return h.parse(source=StringInputSource(doc), format=pfmt, **pkw)
    if src == "file_bin":
        with open(path, "rb") as f:
            return h.parse(file=f, format=pfmt, **pkw)
    if src == "file_text":
        with open(path, "r", encoding="utf-8", newline="") as f:
            return h.parse(source=f, format=pfmt, **pkw)
    if src == "path":
        return h.parse(source=path, format=pfmt, **pkw)
    if src == "purepath":
        return h.parse(source=pathlib.PurePath(path), format=pfmt, **pkw)
    if src == "location":
        return h.parse(location=path, format=pfmt, **pkw)
    raise ValueError(src)


def _io_note(io):
    return f"[io {json.dumps(io, sort_keys=True)}] " if io else ""


def roundtrip(g, fmt, base, orig=None, opts=None, io=None):
    """-> (status, detail, text)   status in ok | rt | ser | parse | hang;  `opts` = extra serializer keywords;
    `io` = how the document travels: {"dest","src","alias","palias","suffix","guess","enc","public","pkw","tkind"}"""
    import shutil
    import tempfile
    orig = set(g) if orig is None else orig
    io = io or {}
    kw = dict(opts or {})
    if "separators" in kw:
        kw["separators"] = tuple(kw["separators"])
    if base is not None and not io.get("ctor_base"):
        kw["base"] = base
    if io.get("enc"):
        kw["encoding"] = io["enc"]
    tmp = tempfile.mkdtemp(prefix="c03-") if io.get("dest", "none") not in ("none", "bytesio") or io.get("src") in (
        "file_bin", "file_text", "path", "purepath", "location") else None
    try:
        try:
            text = _with_timeout(lambda: _serialize_io(g, fmt, kw, io, tmp), FMT_TIMEOUT_S)
        except _FmtTimeout:
            return "hang", f"serialize(format={fmt!r}) did not return within {FMT_TIMEOUT_S}s of CPU time on a finite graph", None
        except RecursionError as e:
            return "ser", _io_note(io) + _exc(e), None
        except Exception as e:
            return "ser", _io_note(io) + _exc(e), None
        pkw = dict(io.get("pkw") or {})
        if base is not None and fmt == "json-ld":
            # JSON-LD output does not embed the base it was compacted against
            pkw["base" if io.get("jsonld_base_kw") else "publicID"] = base
        elif io.get("public"):
            pkw["publicID"] = OTHER_DOC   # every other output is self-contained: the document IRI must not matter
        if fmt == "json-ld" and io.get("enc") not in (None, "utf-8") and isinstance(text, bytes):
            pkw["encoding"] = io["enc"]   # JSON has no in-band encoding declaration: the reader is told
        try:
            h = _with_timeout(lambda: _parse_io(text, fmt, pkw, io, tmp), FMT_TIMEOUT_S)
        except _FmtTimeout:
            return "hang", f"parse of own {fmt} output did not return within {FMT_TIMEOUT_S}s of CPU time", text
        except Exception as e:
            return "parse", _io_note(io) + _exc(e), text
    finally:
        if tmp:
            shutil.rmtree(tmp, ignore_errors=True)
    a, b = orig, set(h)
    if fmt == "hext":
        a, b = _hext_norm(a), _hext_norm(b)
    try:
        same = isoutil.iso(a, b)
    except RuntimeError:
        same = len(a) == len(b)  # search budget exhausted on a pathological symmetric graph: not decided, not a violation
    if same:
        return "ok", "", text
    return "rt", _io_note(io) + _describe_diff(a, b), text


# ------------------------------------------------------------------ term-level probes (model tie)

PROBE_MAX = 5
_PS, _PP = URIRef("urn:x-probe-s"), URIRef(gg.RDF + "value")
_KINDS = {gg.XSD + "integer": "integer", gg.XSD + "decimal": "decimal", gg.XSD + "double": "double",
          gg.XSD + "boolean": "boolean"}


def cps(s):
    return ",".join(str(ord(c)) for c in s) if s else "-"


def uncps(w):
    return "" if w == "-" else "".join(chr(int(x)) for x in w.split(","))


def _probe_terms(spec):
    """the first PROBE_MAX distinct literals of the graph (JSON terms), in triple order"""
    out, seen = [], set()
    for _s, _p, o in spec["triples"]:
        if o[0] == "l":
            k = (o[1], o[2], o[3])
            if k not in seen:
                seen.add(k)
                out.append(o)
                if len(out) >= PROBE_MAX:
                    break
    return out


def _object_text(lit, fmt):
    """The text rdflib's `fmt` writer (nt | turtle) produces for `lit` in object position, read off the public
    serializer output of a one-triple graph (no private API)."""
    g = Graph(bind_namespaces="none")
    g.bind("rdf", URIRef(gg.RDF))
    g.add((_PS, _PP, lit))
    text = g.serialize(format=fmt)
    i = text.index("<urn:x-probe-s> ")
    rest = text[i + len("<urn:x-probe-s> "):]
    rest = rest[rest.index(" ") + 1:]          # skip the predicate token
    rest = rest.rstrip()
    assert rest.endswith("."), rest
    return rest[:-1].rstrip(" ") if fmt == "turtle" else rest[:-1][:-1] if rest[:-1].endswith(" ") else rest[:-1]


def _probe(spec):
    """-> list of (model line, expected observation, post) ; post tells select_model_obs how to read the model's answer"""
    lines = []
    for o in _probe_terms(spec):
        lit = gg.term(o)
        lex = str(lit)
        plain = Literal(lex)
        nt_text = _object_text(plain, "nt")
        ttl_text = _object_text(plain, "turtle")
        lines.append((f"ntdec {cps(nt_text)}", f"some {cps(lex)}", None))
        lines.append((f"ntenc {cps(lex)}", f"some {cps(lex)}", "nt"))
        lines.append((f"tdec {cps(ttl_text)}", f"some {cps(lex)}", None))
        lines.append((f"tenc {cps(lex)}", f"some {cps(lex)}", "turtle"))
        kind = _KINDS.get(o[2]) if o[2] else None
        if kind and lit.language is None and not (len(o) > 4 and o[4] == "raw"):
            tok = _object_text(lit, "turtle")
            if not tok.startswith('"'):
                norm = str(Literal(tok, datatype=lit.datatype))   # external: what a reader's Literal() makes of the token
                lines.append((f"relex {cps(tok)}", kind, None))
                lines.append((f"plain {kind} {cps(lex)} {cps(tok)} {cps(norm)}", f"plain {cps(tok)}", None))
    return lines


# ------------------------------------------------------------------ structure-level probes (model tie)

VL_MAX = 4
_WELL = {gg.FIRST: 0, gg.REST: 1, gg.NIL: 2}


def _encode_graph(spec):
    """terms -> wire tokens: i<n> (i0 rdf:first, i1 rdf:rest, i2 rdf:nil), l<n>, b<n>; returns (tokens, bnode map)"""
    ids = {"i": dict((k, v) for k, v in _WELL.items()), "l": {}, "b": {}}

    def tok(t):
        kind = t[0]
        key = t[1] if kind != "l" else (t[1], t[2], (t[3] or "").lower())
        d = ids[kind]
        if key not in d:
            d[key] = len(d)
        return f"{kind}{d[key]}"

    toks = []
    for tr in spec["triples"]:
        toks += [tok(x) for x in tr]
    return toks, ids["b"]


def labelled_bnodes(text):
    """Independent mini-scanner of Turtle-family text: the set of blank-node labels that occur (`_:label`),
    skipping IRIs `<…>` and string literals (short `"…"` and long `\"\"\"…\"\"\"`, with backslash escapes)."""
    out, i, n = set(), 0, len(text)
    while i < n:
        c = text[i]
        if c == "<":
            j = text.find(">", i + 1)
            i = n if j < 0 else j + 1
        elif c == '"':
            if text.startswith('"""', i):
                i += 3
                while i < n and not text.startswith('"""', i):
                    i += 2 if text[i] == "\\" else 1
                i += 3
            else:
                i += 1
                while i < n and text[i] != '"':
                    i += 2 if text[i] == "\\" else 1
                i += 1
        elif c == "_" and text.startswith("_:", i):
            j = i + 2
            while j < n and (text[j].isalnum() or text[j] in "_-."):
                j += 1
            lab = text[i + 2:j].rstrip(".")
            out.add(lab)
            i = i + 2 + max(1, len(lab))
        else:
            i += 1
    return out


_CHOICE_WELL = {gg.FIRST: 0, gg.REST: 1, gg.NIL: 2, gg.TYPE: 3, gg.RDFS + "Class": 4}
_DIRECTIVE = _re_mod.compile(r"\s*(?:@prefix|@base|PREFIX|BASE)\s[^\n]*\n")


def _encode_choice(g):
    """The rdflib graph `g` for the model's `choice` line: blank nodes numbered in rdflib's order on BNodes, IRIs
    i0..i4 = rdf:first, rdf:rest, rdf:nil, rdf:type, rdfs:Class and the others from 5 in order of appearance, with ORD
    (place of every IRI number in rdflib's order on URIRefs).  -> (ord word, triple words, label -> number) or None
    if the graph has a predicate that is not an IRI (outside the model's graphs)."""
    triples = list(g)
    if any(not isinstance(p_, URIRef) for _s, p_, _o in triples):
        return None
    bnodes = sorted({t for tr in triples for t in tr if isinstance(t, BNode)})
    bmap = {str(b): i for i, b in enumerate(bnodes)}
    iris = {URIRef(k): v for k, v in _CHOICE_WELL.items()}
    lits = {}
    toks = []
    for tr in triples:
        for t in tr:
            if isinstance(t, BNode):
                toks.append(f"b{bmap[str(t)]}")
            elif isinstance(t, URIRef):
                if t not in iris:
                    iris[t] = len(iris)
                toks.append(f"i{iris[t]}")
            else:
                k = (str(t), t.datatype, t.language)
                if k not in lits:
                    lits[k] = len(lits)
                toks.append(f"l{lits[k]}")
    place = {u: i for i, u in enumerate(sorted(iris))}
    by_num = sorted(iris, key=lambda u: iris[u])
    return ",".join(str(place[u]) for u in by_num), toks, bmap


def top_statements(text, bmap):
    """Independent mini-scanner: the subjects of the top-level statements of Turtle-family text, in the order written:
    `a` for `[]`, `b<n>` for a labelled blank node, `i` for anything else (an IRI in any spelling).  A statement ends at
    a `.` between white space outside brackets, strings and IRIs; the directives at the top are skipped."""
    pos = 0
    while True:
        m = _DIRECTIVE.match(text, pos)
        if not m:
            break
        pos = m.end()
    out, i, n, depth, start = [], pos, len(text), 0, True
    while i < n:
        c = text[i]
        if start:
            if c.isspace():
                i += 1
                continue
            if text.startswith("[]", i):
                out.append("a")
            elif text.startswith("_:", i):
                j = i + 2
                while j < n and (text[j].isalnum() or text[j] in "_-."):
                    j += 1
                lab = text[i + 2:j].rstrip(".")
                out.append(f"b{bmap.get(lab, '?')}")
            else:
                out.append("i")
            start = False
        if c == "<":
            j = text.find(">", i + 1)
            i = n if j < 0 else j + 1
        elif c == '"':
            if text.startswith('"""', i):
                i += 3
                while i < n and not text.startswith('"""', i):
                    i += 2 if text[i] == "\\" else 1
                i += 3
            else:
                i += 1
                while i < n and text[i] != '"':
                    i += 2 if text[i] == "\\" else 1
                i += 1
        elif c in "[(":
            depth += 1
            i += 1
        elif c in "])":
            depth -= 1
            i += 1
        elif c == "." and depth == 0 and i > 0 and text[i - 1].isspace() and (i + 1 == n or text[i + 1].isspace()):
            start = True
            i += 1
        else:
            i += 1
    return out


def _choice_lines(g, texts):
    """the recursive writer's own choice, per graph and per format: which blank nodes got no label, and the top-level
    statements in the order written — read off the text, compared with the model's `choice`"""
    enc = _encode_choice(g)
    if enc is None:
        return []
    ordw, toks, bmap = enc
    line = f"choice {ordw} {' '.join(toks)}"
    lines = []
    for fmt in ("turtle", "longturtle", "n3"):
        text = texts.get(fmt)
        if text is None:
            continue
        hidden = sorted(bmap[b] for b in set(bmap) - labelled_bnodes(text))
        hs = ",".join(f"b{b}" for b in hidden) or "-"
        lines.append((line, f"H {hs} T {','.join(top_statements(text, bmap)) or '-'}"))
    return lines


def _struct_probe(spec):
    """-> [(model line, expected observation)]"""
    if not spec["triples"]:
        return []
    try:
        from rdflib.plugins.serializers.turtle import TurtleSerializer
    except Exception:
        TurtleSerializer = None  # noqa: N806
    lines = []
    toks, bmap = _encode_graph(spec)
    gtxt = " ".join(toks)
    g = gg.build(spec)
    # isValidList on the list-head candidates (blank nodes carrying an rdf:first), nothing serialized yet
    heads = []
    for s_, p_, _o in spec["triples"]:
        if s_[0] == "b" and p_[1] == gg.FIRST and s_[1] not in heads:
            heads.append(s_[1])
    if heads and TurtleSerializer is not None:
        try:  # a writer that no longer has this method (refactoring) simply drops this probe
            ser = TurtleSerializer(g)
            ser.reset()
            ser.preprocess()
            test = ser.isValidList
        except Exception:
            test = None
        for h in heads[:VL_MAX] if test is not None else []:
            try:
                r = _with_timeout(lambda: test(BNode(h)), 2.0)
                exp = "true" if r else "false"
            except _FmtTimeout:
                exp = "hang"
            except Exception:
                continue
            lines.append((f"vl b{bmap[h]} {gtxt}", exp))
    # which blank nodes the writers left unlabelled must satisfy Pre
    kw = {"base": spec["base"]} if spec.get("base") else {}
    texts = {}
    for fmt in ("turtle", "longturtle", "n3"):
        try:
            text = _with_timeout(lambda: g.serialize(format=fmt, **kw), FMT_TIMEOUT_S)
        except Exception:
            continue
        texts[fmt] = text
        hidden = sorted(set(bmap) - labelled_bnodes(text), key=lambda b: bmap[b])
        hs = ",".join(f"b{bmap[b]}" for b in hidden) or "-"
        lines.append((f"pre {hs} {gtxt}", "ok"))
    lines += _choice_lines(g, texts)
    return lines


NTLINE_MAX = 3


def _nt_term(o):
    """JSON term -> the model's N-Triples term notation (literals as rdflib builds them)"""
    if o[0] == "i":
        return f"i:{cps(o[1])}"
    if o[0] == "b":
        return f"b:{cps(o[1])}"
    lit = gg.term(o)
    dt = str(lit.datatype) if lit.datatype is not None else None
    return f"l:{cps(str(lit))}:{cps(dt) if dt is not None else '*'}:{cps(lit.language) if lit.language is not None else '*'}"


def _ntline_probe(spec):
    """the line rdflib writes, parsed by the model's W3C line grammar; the model's line, parsed by rdflib"""
    lines = []
    for tr in spec["triples"][:NTLINE_MAX]:
        if any(x[0] == "l" and (x[3] == "" or (len(x) > 4 and x[4] == "raw")) for x in tr):
            continue
        g = Graph(bind_namespaces="none")
        g.add(tuple(gg.term(x) for x in tr))
        line = g.serialize(format="nt")
        exp = "ok " + " ".join(_nt_term(x) for x in tr)
        lines.append((f"ntparse {cps(line)}", exp, None))
        lines.append(("ntrow " + " ".join(_nt_term(x) for x in tr), exp, "ntrow"))
    return lines


XMLTREE_MAX_TRIPLES = 16
_RDFNS = "http://www.w3.org/1999/02/22-rdf-syntax-ns#"
_XMLNS = "http://www.w3.org/XML/1998/namespace"
_XKEYS = {"{%s}about" % _RDFNS: "about", "{%s}nodeID" % _RDFNS: "nodeID", "{%s}resource" % _RDFNS: "resource",
          "{%s}datatype" % _RDFNS: "datatype", "{%s}lang" % _XMLNS: "lang"}


def _xcanon(out):
    """canonical form of an element-tree line (`S ATTRS ( P TAG ATTRS TEXT)*` blocks joined by ` | `): attributes,
    property elements and blocks sorted — a document's order of elements and attributes carries no meaning"""
    blocks = []
    for b in out.split(" | ") if out else []:
        w = b.split(" ")
        if w and w[0] == "R":
            blocks.append("0" + b)       # the root line sorts first
            continue
        if not w or w[0] != "S" or (len(w) - 2) % 4 != 0:
            return "malformed " + out[:80]
        head = ";".join(sorted(w[1].split(";")))
        props = sorted(" ".join(["P", w[i + 1], ";".join(sorted(w[i + 2].split(";"))), w[i + 3]])
                       for i in range(2, len(w), 4))
        blocks.append(" ".join(["S", head] + props))
    return " | ".join(sorted(blocks))


def _xattrs(el):
    return ";".join(f"{_XKEYS.get(k, 'other:' + k)}={cps(v)}" for k, v in el.attrib.items()) or "-"


def _xmltree_probe(spec, xopts=None):
    """The document rdflib's `xml` serializer writes, parsed INDEPENDENTLY with xml.etree (expanded names, decoded
    attribute values and character data), against the element tree of the model (`xmlTree`)."""
    import xml.etree.ElementTree as ET  # noqa: N817
    if not spec["triples"] or not gg.xml_expressible(spec)[0]:
        return []
    try:
        g = gg.build(spec)
        triples = list(g)
        if len(triples) > XMLTREE_MAX_TRIPLES or any(not isinstance(p_, URIRef) or isinstance(s_, Literal)
                                                     for s_, p_, _o in triples):
            return []
        # the three sources of a base: the base= argument, the graph's own base, the xml_base option
        kw, barg, sbase = {}, None, None
        if spec.get("base"):
            if len(triples) % 2:
                g.base = sbase = spec["base"]
            else:
                kw["base"] = barg = spec["base"]
        xb = (xopts or {}).get("xml_base")
        if xb is not None:
            kw["xml_base"] = xb
        text = g.serialize(format="xml", **kw)
        root = ET.fromstring(text.encode("utf-8"))
    except Exception:
        return []          # e.g. known finding K3 (ill-formed element names): the round-trip oracle reports those

    def tok(t):
        if isinstance(t, BNode):
            return f"b:{cps(str(t))}"
        if isinstance(t, URIRef):
            return f"i:{cps(str(t))}"
        return (f"l:{cps(str(t))}:{cps(str(t.datatype)) if t.datatype is not None else '*'}:"
                f"{cps(t.language) if t.language is not None else '*'}")

    declared = root.attrib.get("{%s}base" % _XMLNS)
    blocks = ["R " + (cps(declared) if declared is not None else "*")] if root.tag == "{%s}RDF" % _RDFNS else ["R other"]
    for el in root:
        if el.tag != "{%s}Description" % _RDFNS or (el.text or "").strip() or (el.tail or "").strip():
            blocks.append("S other:" + cps(el.tag))
            continue
        w = ["S", _xattrs(el)]
        for pe in el:
            ns, _, local = pe.tag[1:].partition("}") if pe.tag.startswith("{") else ("", "", pe.tag)
            w += ["P", cps(ns + local) + ("+kids" if len(pe) else ""), _xattrs(pe), cps(pe.text or "")]
        blocks.append(" ".join(w))
    def oc(v):
        return cps(v) if v is not None else "*"

    line = f"xmltree {oc(barg)} {oc(sbase)} {oc(xb)} " + " ".join(tok(x) for tr in triples for x in tr)
    return [(line, _xcanon(" | ".join(blocks)), "xmltree")]


NTDOC_MAX_TRIPLES = 14


def _ntdoc_probe(spec):
    """The whole N-Triples document rdflib writes for the graph, read by the model's document reader (`readDoc`: the line
    grammar per line, blank-node labels through the per-document table); the observation is whether the graph the model
    read is isomorphic to the graph rdflib's own reader builds from the same text, and its size."""
    trs = spec["triples"]
    if not trs or len(trs) > NTDOC_MAX_TRIPLES:
        return []
    if any(x[0] == "l" and (x[3] == "" or (len(x) > 4 and x[4] == "raw")) for tr in trs for x in tr):
        return []
    try:
        g = gg.build(spec)
        text = g.serialize(format="nt")
        n = len(Graph().parse(data=text, format="nt"))
    except Exception:
        return []
    return [(f"ntdoc {cps(text)}", f"iso {n}", "ntdoc")]


def _ntdoc_read_back(out, line):
    """model output `ok N S P O …` -> rdflib graph; compared (isomorphism) with rdflib's reading of the same document"""
    try:
        w = out.split(" ")
        if w[0] != "ok":
            return out
        n, terms = int(w[1]), w[2:]
        mg = Graph()
        for k in range(n):
            tr = []
            for t in terms[3 * k:3 * k + 3]:
                f = t.split(":")
                if f[0] == "i":
                    tr.append(URIRef(uncps(f[1])))
                elif f[0] == "b":
                    tr.append(BNode("m" + f[1]))
                else:
                    tr.append(Literal(uncps(f[1]), datatype=URIRef(uncps(f[2])) if f[2] != "*" else None,
                                      lang=uncps(f[3]) if f[3] != "*" else None, normalize=False))
            mg.add(tuple(tr))
        text = uncps(line.split(" ", 1)[1])
        rg = Graph().parse(data=text, format="nt")
        return f"iso {len(mg)}" if isoutil.iso(mg, rg) else f"differ {len(mg)} {len(rg)}"
    except Exception as e:  # noqa: BLE001
        return "none " + _exc(e)


def _ntrow_read_back(out):
    try:
        h = Graph().parse(data=uncps(out), format="nt", bnode_context=_KeepLabels())
        ts = list(h)
        if len(ts) != 1:
            return "none"
        return "ok " + " ".join(_nt_term(gg.unterm(x)) for x in ts[0])
    except Exception:
        return "none"


class _KeepLabels(dict):
    """bnode_context that maps every document label to the blank node with that very label (so the observation
    can name it); label scoping itself is C12's subject"""
    def get(self, key, default=None):
        return BNode(key)

    def __setitem__(self, key, value):
        pass


HEXT_MAX = 3
_XS = gg.XSD + "string"


def _hterm(o):
    """JSON term -> the model's notation of the (RDF 1.1 normalised) object term"""
    if o[0] == "i":
        return f"i {cps(o[1])}"
    if o[0] == "b":
        return f"b {cps(o[1])}"
    lit = gg.term(o)
    dt = str(lit.datatype) if lit.datatype is not None else None
    lang = lit.language
    if dt is None and lang is None:
        dt = _XS
    return f"l {cps(str(lit))} {cps(dt) if dt is not None else '*'} {cps(lang) if lang is not None else '*'}"


def _hext_probe(spec):
    """-> [(model line, expected, post)]: the writer's row read by the model's reader, and the model's row read
    by rdflib's reader, for the first HEXT_MAX distinct objects"""
    import json as _json
    lines, seen = [], []
    for _s, _p, o in spec["triples"]:
        if o in seen or (o[0] == "l" and (o[3] == "" or (len(o) > 4 and o[4] == "raw"))):
            continue
        seen.append(o)
        if len(seen) > HEXT_MAX:
            break
        g = Graph(bind_namespaces="none")
        g.add((_PS, _PP, gg.term(o)))
        row = _json.loads(g.serialize(format="hext").strip())
        v, d, l = row[2], row[3], row[4]
        lines.append((f"hextp {cps(v)} {cps(d)} {cps(l)}", _hterm(o), None))
        if o[0] == "l":
            lit = gg.term(o)
            dt = str(lit.datatype) if lit.datatype is not None else None
            mline = f"hext l {cps(str(lit))} {cps(dt) if dt is not None else '*'} {cps(lit.language) if lit.language is not None else '*'}"
        else:
            mline = f"hext {o[0]} {cps(o[1])}"
        lines.append((mline, _hterm(o), "hext"))
    return lines


def _hext_read_back(out):
    """hand the model's row to rdflib's hext reader; answer in the model's notation"""
    import json as _json
    try:
        v, d, l = (uncps(w) for w in out.split(" "))
        doc = _json.dumps(["urn:x-probe-s", gg.RDF + "value", v, d, l, ""]) + "\n"
        h = Graph().parse(data=doc, format="hext")
        o = list(h.objects())
        if len(o) != 1:
            return "none"
        return _hterm(gg.unterm(o[0]))
    except Exception as e:  # noqa: F841
        return "none"


BASE_MAX = 5


def _base_probe(spec):
    """-> [(model line, expected)]: for the IRIs of the graph that lie under the `base` option, did the RDF/XML writer
    (Serializer.relativize) and the Turtle writer (RecursiveSerializer.relativize) write the cut-off rest or the
    absolute IRI?  Read off their public output; the model answers with `_strippable_base`'s decision."""
    from xml.sax.saxutils import unescape
    base = spec.get("base")
    if not base:
        return []
    iris = []
    for tr in spec["triples"]:
        for x in tr:
            if x[0] == "i" and x[1].startswith(base) and x[1] not in iris:
                iris.append(x[1])
    lines = []
    for iri in iris[:BASE_MAX]:
        rest = iri[len(base):]
        try:
            g = Graph(bind_namespaces="none")
            g.bind("rdf", URIRef(gg.RDF))
            g.add((URIRef(iri), _PP, Literal("v")))
            out = g.serialize(format="xml", base=base)
            m = _re.search(r'rdf:about="([^"]*)"', out)
            about = unescape(m.group(1), {"&quot;": '"', "&#10;": "\n", "&#13;": "\r", "&#9;": "\t"}) if m else None
            got = "rel" if about == rest and about != iri else ("abs" if about == iri else "other")
            lines.append((f"strip {cps(base)} {cps(iri)}", got))
        except Exception:
            pass
        try:
            g = Graph(bind_namespaces="none")
            g.bind("rdf", URIRef(gg.RDF))
            g.add((_PS, _PP, URIRef(iri)))
            out = g.serialize(format="turtle", base=base)
            i = out.index("<urn:x-probe-s> ")
            obj = out[i + len("<urn:x-probe-s> "):]
            obj = obj[obj.index(" ") + 1:].rstrip()
            obj = obj[:-1].rstrip(" ") if obj.endswith(".") else obj
            lines.append((f"stript {cps(base)} {cps(iri)}", "rel" if obj == f"<{rest}>" and rest != iri else "abs"))
        except Exception:
            pass
    return lines


def _read_back(text, fmt):
    """parse `<s> <p> text .` with rdflib's reader for fmt; -> 'some cps' | 'none'"""
    doc = f"<urn:x-probe-s> <urn:x-probe-p> {text} .\n"
    try:
        h = Graph().parse(data=doc, format=fmt)
        objs = list(h.objects())
        if len(objs) != 1 or not isinstance(objs[0], Literal):
            return "none"
        return "some " + cps(str(objs[0]))
    except Exception:
        return "none"


def _build_graph(spec, kind, stats):
    """the graph serialised FROM: Memory graph | SimpleMemory graph | named-graph view of a Dataset that holds other data |
    Graph(base=…) instead of the base= keyword | graph handed a NamespaceManager that another graph owns"""
    bind = spec.get("bind", "rdflib")
    if kind == "ctor_base" and spec.get("base") is None:
        kind = "memory"
    stats[f"gkind_{kind}"] = 1
    if kind == "simple":
        return gg.build(spec, Graph(store="SimpleMemory", bind_namespaces=bind))
    if kind == "named":
        ds = rdflib.Dataset()
        noise = (URIRef("urn:x-noise"), URIRef(gg.RDF + "value"), Literal("noise"))
        ds.graph(URIRef("urn:x-other")).add(noise)
        ds.add(noise)
        return gg.build(spec, ds.graph(URIRef("urn:x-g")))
    if kind == "ctor_base":
        return gg.build(spec, Graph(base=spec["base"], bind_namespaces=bind))
    if kind == "shared_nm":
        from rdflib.namespace import NamespaceManager
        owner = Graph(bind_namespaces=bind)
        return gg.build(spec, Graph(namespace_manager=NamespaceManager(owner, bind_namespaces=bind)))
    return gg.build(spec)


def _reuse(g, spec, ru, stats):
    """ONE serializer object (the plugin class instantiated once on the graph), serialize() called >= 3 times with base,
    encoding and options varied between the calls, the graph growing before the last call: every output must round-trip."""
    import io as _io
    from rdflib import plugin
    from rdflib.serializer import Serializer
    fmt = ru["fmt"]
    out = []
    try:
        ser = plugin.get(fmt, Serializer)(g)
    except Exception as e:
        return [f"ser-{fmt}: [reuse] cannot instantiate: {_exc(e)}"]
    stats[f"reuse_{fmt}"] = 1
    for k, call in enumerate(ru["calls"]):
        if call.get("add"):
            g.add(tuple(gg.term(x) for x in call["add"]))
        want = set(g)
        kw = dict(call.get("opts") or {})
        if fmt == "pretty-xml" and call.get("enc") in ("latin-1", "ascii") and not _encodable(
                {**spec, "triples": spec["triples"] + [c["add"] for c in ru["calls"] if c.get("add")]}, [kw, call.get("base")], call["enc"]):
            call = {k: v for k, v in call.items() if k != "enc"}
        if "separators" in kw:
            kw["separators"] = tuple(kw["separators"])
        note = f"[reuse call {k + 1} of one {type(ser).__name__}: {json.dumps(call, sort_keys=True)}] "
        buf = _io.BytesIO()
        try:
            _with_timeout(lambda: ser.serialize(buf, base=call.get("base"), encoding=call.get("enc"), **kw), FMT_TIMEOUT_S)
        except _FmtTimeout:
            out.append(f"hang-{fmt}: {note}serialize did not return within {FMT_TIMEOUT_S}s of CPU time")
            continue
        except Exception as e:
            out.append(f"ser-{fmt}: {note}{_exc(e)}")
            continue
        pkw = {"publicID": call["base"]} if fmt == "json-ld" and call.get("base") else {}
        try:
            h = _with_timeout(lambda: Graph().parse(data=buf.getvalue(), format=PARSE_AS.get(fmt, fmt), **pkw), FMT_TIMEOUT_S)
        except _FmtTimeout:
            out.append(f"hang-{fmt}: {note}parse of own output did not return within {FMT_TIMEOUT_S}s of CPU time")
            continue
        except Exception as e:
            out.append(f"parse-{fmt}: {note}{_exc(e)}")
            continue
        a, b = want, set(h)
        if fmt == "hext":
            a, b = _hext_norm(a), _hext_norm(b)
        try:
            same = isoutil.iso(a, b)
        except RuntimeError:
            same = len(a) == len(b)
        stats["reuse_calls_ok"] = stats.get("reuse_calls_ok", 0) + int(same)
        if not same:
            out.append(f"rt-{fmt}: {note}{_describe_diff(a, b)}")
    return out


def _encodable(spec, opts, enc):
    try:
        json.dumps([spec["triples"], spec.get("prefixes"), spec.get("base"), opts], ensure_ascii=False).encode(enc)
        return True
    except UnicodeEncodeError:
        return False


def _count_io(stats, fmt, io):
    for k in ("dest", "src", "enc", "tkind"):
        if io.get(k):
            stats[f"io_{k}_{io[k]}"] = stats.get(f"io_{k}_{io[k]}", 0) + 1
    for k in ("alias", "palias"):
        if io.get(k) is not None and fmt in (SER_ALIASES if k == "alias" else PARSE_ALIASES):
            stats[f"io_{k}"] = stats.get(f"io_{k}", 0) + 1
    for k in ("guess", "public", "jsonld_base_kw"):
        if io.get(k):
            stats[f"io_{k}"] = stats.get(f"io_{k}", 0) + 1
    for k in (io.get("pkw") or {}):
        stats[f"io_pkw_{k}"] = stats.get(f"io_pkw_{k}", 0) + 1


def _class_first(e):
    """a blank-node statement written before an IRI statement: only rdfs:Class members get there"""
    t = e.split(" T ")[1].split(",")
    return any(x != "i" for x in t[:len(t) - t[::-1].index("i")]) if "i" in t else False


def run_impl(case):
    spec = case["spec"]
    fmts = case.get("fmts") or FORMATS
    cio = case.get("io") or {}
    stats = dict(gg.features(spec))
    if case.get("surface_probe"):
        _surface_probe(stats)
    g = _build_graph(spec, cio.get("gkind", "memory"), stats)
    orig = set(g)
    viol = []
    xml_ok, why = gg.xml_expressible(spec)
    done = 0
    if cio.get("order"):      # the same Graph object serialised eight times in another order
        fmts = sorted(fmts, key=lambda f: cio["order"].index(FORMATS.index(f)))
        stats["io_order_shuffled"] = 1
    for fmt in fmts:
        if fmt in ("xml", "pretty-xml") and not xml_ok:
            stats["skip_xml_inexpressible"] = stats.get("skip_xml_inexpressible", 0) + 1
            continue
        fopts = (case.get("opts") or {}).get(fmt)
        fio = dict((cio.get("fmt") or {}).get(fmt) or {})
        if cio.get("gkind") == "ctor_base" and spec.get("base") is not None:
            fio["ctor_base"] = True
        if fmt in ("hext", "json-ld", "n3") and fio.get("tkind") == "simple":
            del fio["tkind"]       # the HexTuples, JSON-LD and N3 readers (named graphs, formulae) refuse a context-unaware store
        if fmt == "pretty-xml" and fio.get("enc") in ("latin-1", "ascii") and not _encodable(spec, fopts, fio["enc"]):
            del fio["enc"]         # the requested encoding cannot hold the document's characters (names, CDATA, raw XML)
            stats["skip_enc_unencodable"] = stats.get("skip_enc_unencodable", 0) + 1
        st, detail, _text = roundtrip(g, fmt, spec.get("base"), orig, fopts, fio)
        stats[f"{st}_{fmt}"] = stats.get(f"{st}_{fmt}", 0) + 1
        for k in (fopts or {}):
            stats[f"opt_{fmt}_{k}"] = stats.get(f"opt_{fmt}_{k}", 0) + 1
        _count_io(stats, fmt, fio)
        if st == "ok":
            done += 1
        else:
            viol.append(f"{st}-{fmt}: " + (f"[options {json.dumps(fopts, sort_keys=True)}] " if fopts else "") + detail)
    if cio.get("reuse") and (xml_ok or cio["reuse"]["fmt"] not in ("xml", "pretty-xml")):
        viol += _reuse(g, spec, cio["reuse"], stats)
        orig = set(g)
    r2 = case.get("round2")
    if r2:
        viol += _round2(g, spec, r2, fmts, stats, case.get("opts") or {})
    probe = _probe(spec) + _hext_probe(spec) + _ntline_probe(spec) + _ntdoc_probe(spec) + _xmltree_probe(spec, (case.get("opts") or {}).get("xml"))
    sprobe = _struct_probe(spec) + _base_probe(spec)
    obs = [exp for _l, exp, _p in probe] + [exp for _l, exp in sprobe]
    stats["probe_base"] = sum(1 for l, _e in sprobe if l.startswith("strip"))
    stats["probe_base_rel"] = sum(1 for l, e in sprobe if l.startswith("strip") and e == "rel")
    stats["probe_hext"] = sum(1 for l, _e, _p in probe if l.startswith("hext"))
    stats["probe_xmltree"] = sum(1 for l, _e, _p in probe if l.startswith("xmltree"))
    stats["probe_xmltree_base"] = sum(1 for l, _e, _p in probe if l.startswith("xmltree") and not l.startswith("xmltree * * "))
    stats["probe_xmltree_xml_base_opt"] = sum(1 for l, _e, _p in probe if l.startswith("xmltree") and l.split(" ")[3] != "*")
    stats["probe_xmltree_opt_vs_base"] = sum(1 for l, _e, _p in probe if l.startswith("xmltree") and l.split(" ")[3] != "*"
                                             and l.split(" ")[1:3] != ["*", "*"] and l.split(" ")[3] not in l.split(" ")[1:3])
    stats["probe_xmltree_cut"] = sum(1 for l, e, _p in probe if l.startswith("xmltree") and not l.startswith("xmltree * * ")
                                     and any(("about=" in w or "resource=" in w) and "104,116,116,112" not in w and "117,114,110" not in w
                                             for w in e.split(" ")))
    stats["probe_ntdoc"] = sum(1 for l, _e, _p in probe if l.startswith("ntdoc"))
    stats["probe_ntdoc_bnodes"] = sum(1 for l, _e, _p in probe if l.startswith("ntdoc") and ",95,58," in l)
    stats["probe_ntline"] = sum(1 for l, _e, _p in probe if l.startswith("ntparse"))
    stats["probe_lines"] = len(probe)
    stats["probe_isValidList"] = sum(1 for l, _e in sprobe if l.startswith("vl "))
    stats["probe_isValidList_true"] = sum(1 for l, e in sprobe if l.startswith("vl ") and e == "true")
    stats["probe_pre"] = sum(1 for l, _e in sprobe if l.startswith("pre "))
    stats["probe_pre_hidden_nonempty"] = sum(1 for l, _e in sprobe if l.startswith("pre b"))
    stats["probe_choice"] = sum(1 for l, _e in sprobe if l.startswith("choice "))
    stats["probe_choice_hidden"] = sum(1 for l, e in sprobe if l.startswith("choice ") and not e.startswith("H - "))
    stats["probe_choice_anon_top"] = sum(1 for l, e in sprobe if l.startswith("choice ") and ("a" in e.split(" T ")[1].split(",")))
    stats["probe_choice_class_first"] = sum(1 for l, e in sprobe if l.startswith("choice ") and _class_first(e))
    stats["probe_shorthand_tokens"] = sum(1 for l, _e, _p in probe if l.startswith("relex "))
    key = hashlib.sha1(json.dumps([sorted(map(json.dumps, spec["triples"])), spec.get("prefixes"), spec.get("bind"),
                                   spec.get("base")], sort_keys=True).encode()).hexdigest()
    return {"obs": obs, "viol": viol, "nontrivial": bool(orig) and done >= min(6, len(fmts)), "key": key, "stats": stats}


def _round2(g, spec, r2, fmts, stats, opts):
    """Second round on the SAME graph object: re-bind a prefix that the first round generated (ns1, ns2, …) or that
    the case bound itself and that some IRI of the graph uses, to another namespace; add a triple whose predicate
    lives there; serialise and parse again in every format.  Both rounds must round-trip (tags rt2-/ser2-/parse2-/hang2-)."""
    import re
    iris = {str(x) for t in g for x in t if isinstance(x, URIRef)}
    own = {p for p, _ns in spec.get("prefixes", []) if p}
    cands = sorted(p for p, ns in g.namespaces()
                   if (re.match(r"ns\d+\Z", p) or p in own) and any(i.startswith(str(ns)) for i in iris))
    if not cands:
        stats["round2_no_candidate"] = stats.get("round2_no_candidate", 0) + 1
        return []
    # generated prefixes first: they are the ones a serializer memoised a qname for
    cands.sort(key=lambda p: (0 if re.match(r"ns\d+\Z", p) else 1, p))
    prefix = cands[r2["pick"] % len(cands)]
    stats["round2"] = stats.get("round2", 0) + 1
    stats["round2_generated_prefix"] = stats.get("round2_generated_prefix", 0) + int(bool(re.match(r"ns\d+\Z", prefix)))
    if r2["mode"] == "replace":
        g.bind(prefix, URIRef(r2["ns"]), replace=True)
    elif r2["mode"] == "handle":   # another handle (own NamespaceManager) on the same store
        Graph(store=g.store, identifier=g.identifier).bind(prefix, URIRef(r2["ns"]), replace=True)
    elif r2["mode"] == "store":    # behind the namespace managers' back
        g.store.bind(prefix, URIRef(r2["ns"]), override=True)
    else:
        g.bind(prefix, URIRef(r2["ns"]))
    g.add((gg.term(r2["subj"]), URIRef(r2["ns"] + r2["local"]), gg.term(r2["obj"])))
    orig2 = set(g)
    spec2 = {**spec, "triples": spec["triples"] + [[r2["subj"], ["i", r2["ns"] + r2["local"]], r2["obj"]]]}
    xml_ok, _why = gg.xml_expressible(spec2)
    out = []
    for fmt in fmts:
        if fmt in ("xml", "pretty-xml") and not xml_ok:
            continue
        st, detail, _text = roundtrip(g, fmt, spec.get("base"), orig2, opts.get(fmt))
        stats[f"{st}2_{fmt}"] = stats.get(f"{st}2_{fmt}", 0) + 1
        if st != "ok":
            out.append(f"{st}2-{fmt}: after re-binding prefix {prefix!r} to <{r2['ns']}> ({r2['mode']}): {detail}")
    return out


def gen_case(rng, tier, i):
    r = rng.random()
    profile = "mixed" if r < 0.5 else ("lists" if r < 0.7 else ("literals" if r < 0.85 else ("bnodes" if r < 0.95 else "ground")))
    lists = "all" if rng.random() < 0.6 else "proper"
    case = {"spec": gg.gen_spec(rng, profile=profile, lists=lists)}
    if rng.random() < 0.15:
        case["round2"] = gg.gen_round2(rng, case["spec"])
    if rng.random() < 0.55:
        opts = gen_options(rng, case["spec"])
        if opts:
            case["opts"] = opts
    if rng.random() < (0.3 if tier == "quick" else 0.5):
        case["io"] = gen_io(rng, case["spec"], case.get("opts") or {})
    if rng.random() < (0.06 if tier == "quick" else 0.12) and not case.get("round2"):
        case["spec"] = gg.keywordise(rng, case["spec"])   # prefixes / blank-node labels spelled like keywords
    return case


def gen_io(rng, spec, opts):
    """How the documents travel and which objects carry them (the surface of Graph.serialize / Graph.parse /
    Serializer.serialize):  {"gkind": source graph kind, "order": permutation of the formats,
    "reuse": {"fmt", "calls": [{"base","enc","opts","add"} x 3..4]}, "fmt": {fmt: per-format io dict (see roundtrip)}}"""
    def some(p):
        return rng.random() < p

    cio = {}
    if some(0.4):
        cio["gkind"] = rng.choice(GRAPH_KINDS)
    if some(0.3):
        order = list(range(len(FORMATS)))
        rng.shuffle(order)
        cio["order"] = order
    per = {}
    for fmt in FORMATS:
        if not some(0.6):
            continue
        io = {}
        if some(0.5):
            io["dest"] = rng.choice(DEST_KINDS)
        if some(0.6):
            io["src"] = rng.choice(SRC_KINDS if fmt == "json-ld" else SRC_KINDS[:-1])
        if some(0.25):
            io["alias"] = rng.randrange(3)
        if some(0.25):
            io["palias"] = rng.randrange(3)
        if some(0.3):
            io["suffix"] = rng.randrange(3)
        if some(0.4):
            io["guess"] = True
        if some(0.3):
            io["enc"] = rng.choice(ENCODINGS_FOR.get(fmt, ENCODINGS))
        if some(0.2):
            io["public"] = True
        if some(0.25):
            io["tkind"] = rng.choice(TARGET_KINDS)
        if fmt == "json-ld":
            if some(0.3):
                io["jsonld_base_kw"] = True
            if some(0.3):
                io["pkw"] = rng.choice([{"generalized_rdf": True}, {"version": 1.0}, {"version": 1.1}, {"extract_all_scripts": True}])
        elif fmt in ("turtle", "longturtle", "n3") and io.get("enc") in (None, "utf-8") and some(0.2):
            io["pkw"] = {"encoding": "utf-8"}
        elif fmt in ("xml", "pretty-xml") and some(0.2):
            io["pkw"] = {"preserve_bnode_ids": True}
        elif fmt == "nt" and some(0.2):
            io["pkw"] = {"bnode_context": {}}
        if io:
            per[fmt] = io
    if per:
        cio["fmt"] = per
    if some(0.3):
        fmt = rng.choice(FORMATS)
        subj = next((t[0] for t in spec["triples"]), ["i", gg.NAMESPACES[0] + "s"])
        pred = next((t[1] for t in spec["triples"]), ["i", gg.NAMESPACES[0] + "p"])
        bases = [spec.get("base"), None, rng.choice(gg.BASES)]
        rng.shuffle(bases)
        calls = []
        for k in range(rng.choice([3, 3, 4])):
            call = {}
            b = bases[k % 3]
            if b is not None and (fmt not in ("xml", "pretty-xml") or "xml_base" not in (opts.get(fmt) or {})):
                call["base"] = b
            if some(0.3):
                call["enc"] = rng.choice(["utf-8"] + [e for e in ENCODINGS_FOR.get(fmt, ENCODINGS) if fmt != "json-ld"])
            if some(0.6):
                o = gen_options(rng, {**spec, "base": call.get("base")}).get(fmt)
                if o:
                    call["opts"] = o
            if k >= 2 and some(0.5):
                call["add"] = [subj, pred, ["l", "added before call %d" % (k + 1), None, None]]
            calls.append(call)
        cio["reuse"] = {"fmt": fmt, "calls": calls}
    return cio


def gen_options(rng, spec):
    """Serializer keyword options, per format — every option the anchored serializers read from **kwargs
    (nt, hext: none).  -> {fmt: {keyword: JSON value}}"""
    o = {}

    def some(p):
        return rng.random() < p

    for fmt in ("turtle", "n3"):
        if some(0.3):
            o[fmt] = {"spacious": True}
    lt = {}
    if some(0.45):
        lt["canon"] = True
    if some(0.2):
        lt["spacious"] = True
    if lt:
        o["longturtle"] = lt
    for fmt in ("xml", "pretty-xml"):
        x = {}
        if some(0.2):        # also next to a base= (round g: the two may name different IRIs, finding F42)
            x["xml_base"] = rng.choice(["http://ex.org/a/", "http://example.org/doc/x", "http://ex.org/q?x=1&y=2"]
                                       + ([spec["base"]] * 2 if spec.get("base") else []))
        if fmt == "pretty-xml" and some(0.45):
            x["max_depth"] = rng.choice([1, 1, 2, 5, 8, 50])
        if x:
            o[fmt] = x
    j = {}
    if some(0.3):
        j["auto_compact"] = True
    elif some(0.2):
        ctx = {}
        for pfx, ns in rng.sample(_CTX_PREFIXES, rng.randint(1, 3)):
            ctx[pfx] = ns
        if some(0.3):
            ctx["@vocab"] = rng.choice(gg.NAMESPACES[:3])
        if some(0.2):
            ctx["@language"] = "en"
        j["context"] = ctx
    if some(0.2):
        j["use_native_types"] = rng.choice([True, False])
    if some(0.2):
        j["use_rdf_type"] = True
    if some(0.15):
        j["sort_keys"] = False
    if some(0.15):
        j["indent"] = rng.choice([None, 4])
    if some(0.1):
        j["separators"] = [",", ":"]
    if some(0.15):
        j["ensure_ascii"] = True
    if j:
        o["json-ld"] = j
    return o


_CTX_PREFIXES = [["ex", gg.NAMESPACES[0]], ["a", gg.NAMESPACES[1]], ["b", gg.NAMESPACES[2]], ["xsd", gg.XSD], ["rdf", gg.RDF],
                 ["rdfs", gg.RDFS], ["dot", gg.NAMESPACES[4]], ["u", gg.NAMESPACES[3]]]


def model_lines(case):
    return ([l for l, _e, _p in _probe(case["spec"]) + _hext_probe(case["spec"]) + _ntline_probe(case["spec"])
             + _ntdoc_probe(case["spec"]) + _xmltree_probe(case["spec"], (case.get("opts") or {}).get("xml"))]
            + [l for l, _e in _struct_probe(case["spec"]) + _base_probe(case["spec"])])


def select_model_obs(case, out):
    """The model's own encodings (`ntenc`, `tenc`) are handed to rdflib's readers; the observation is what they read."""
    res = []
    probe = (_probe(case["spec"]) + _hext_probe(case["spec"]) + _ntline_probe(case["spec"]) + _ntdoc_probe(case["spec"])
             + _xmltree_probe(case["spec"], (case.get("opts") or {}).get("xml")))
    for (_l, _e, post), o in zip(probe, out):
        if post == "xmltree" and o != "bad-op":
            res.append(_xcanon(o))
        elif post == "ntdoc" and o != "bad-op":
            res.append(_ntdoc_read_back(o, _l))
        elif post == "hext" and o != "bad-op":
            res.append(_hext_read_back(o))
        elif post == "ntrow" and o != "bad-op":
            res.append(_ntrow_read_back(o))
        elif post and o != "bad-op":
            res.append(_read_back(uncps(o), post))
        else:
            res.append(o)
    return res + list(out[len(probe):])


def shrink(case):
    if case.get("round2"):
        yield {k: v for k, v in case.items() if k != "round2"}
    if case.get("opts"):
        yield {k: v for k, v in case.items() if k != "opts"}
        for f, kw in case["opts"].items():
            yield {**case, "opts": {f: kw}}
            for k in kw:
                if len(kw) > 1:
                    yield {**case, "opts": {**case["opts"], f: {x: y for x, y in kw.items() if x != k}}}
    if case.get("io"):
        cio = case["io"]
        yield {k: v for k, v in case.items() if k != "io"}
        for k in cio:
            yield {**case, "io": {x: y for x, y in cio.items() if x != k}}
        for f, d in (cio.get("fmt") or {}).items():
            yield {**case, "io": {**cio, "fmt": {f: d}}}
            for k in d:
                yield {**case, "io": {**cio, "fmt": {**cio["fmt"], f: {x: y for x, y in d.items() if x != k}}}}
        if cio.get("reuse"):
            for j, call in enumerate(cio["reuse"]["calls"]):
                for k in call:
                    calls = [dict(c) for c in cio["reuse"]["calls"]]
                    del calls[j][k]
                    yield {**case, "io": {**cio, "reuse": {**cio["reuse"], "calls": calls}}}
    fm = case.get("fmts") or FORMATS
    if len(fm) > 1:
        for f in fm:
            yield {**case, "fmts": [f]}
    for s in gg.shrink(case["spec"]):
        yield {**case, "spec": s}


# ------------------------------------------------------------------ known findings: narrow matchers
# A case may show several listed findings at once (one per format).  A matcher accepts a case only if EVERY
# violation in the result is explained by some listed finding and at least one by its own; anything unexplained
# makes all matchers fail, the case is then shrunk and reported as a VIOLATION.

import re as _re

_N3_EQ_KEYWORDS = (gg.OWL + "sameAs", "http://www.w3.org/2000/10/swap/log#implies")  # written "=" and "=>"
_SIZES = _re.compile(r"\|g\|=(\d+) \|parsed\|=(\d+)")


def _tag(v):
    return v.split(":", 1)[0]


def _x_dotted_prefix(spec, v):
    """own Turtle-family output with a dotted prefix cannot be read back"""
    if _tag(v) not in ("parse-turtle", "parse-longturtle", "parse-n3") or "BadSyntax" not in v:
        return False
    iris = {x[1] for t in spec["triples"] for x in t if x[0] == "i"} | {x[2] for t in spec["triples"] for x in t
                                                                       if x[0] == "l" and x[2]}
    return any("." in pfx and any(i.startswith(ns) for i in iris) for pfx, ns in spec.get("prefixes", []))


def _x_n3_sameas(spec, v):
    """n3: owl:sameAs ("=") or log:implies ("=>") as a property of a blank node that can be written inline"""
    if _tag(v) not in ("rt-n3", "parse-n3"):
        return False
    if _tag(v) == "parse-n3" and "[=" not in v and "[ =" not in v:
        return False
    ts = spec["triples"]
    return any(s[0] == "b" and p[1] in _N3_EQ_KEYWORDS and sum(1 for t in ts if t[2] == s) <= 1 for s, p, _o in ts)


def _rdflib_like_local(iri):
    """the local name rdflib's split_uri takes: the longest suffix of name characters and ALLOWED_NAME_CHARS"""
    import unicodedata
    i = len(iri)
    while i > 0 and (unicodedata.category(iri[i - 1]) in gg._NAME or iri[i - 1] in "\u00b7\u0387-._%()"):
        i -= 1
    return iri[i:]


def _x_xml_name(spec, v):
    """xml / pretty-xml: element name with %, ( or )"""
    if _tag(v) not in ("parse-xml", "parse-pretty-xml") or "not well-formed (invalid token)" not in v:
        return False
    names = {p[1] for _s, p, _o in spec["triples"]}
    if _tag(v) == "parse-pretty-xml":
        names |= {o[1] for _s, p, o in spec["triples"] if p[1] == gg.TYPE and o[0] == "i"}
    return any(any(ch in _rdflib_like_local(n) for ch in "%()") for n in names)


def _x_jsonld_typed_cell(spec, v):
    """json-ld: only the rdf:type rdf:List triples of list cells are missing"""
    if _tag(v) != "rt-json-ld":
        return False
    m = _SIZES.search(v)
    if not m:
        return False
    ts = spec["triples"]
    cells = {s[1] for s, p, _o in ts if s[0] == "b" and p[1] in (gg.FIRST, gg.REST)}
    typed = sum(1 for s, p, o in ts if s[0] == "b" and s[1] in cells and p[1] == gg.TYPE and o == ["i", gg.LIST])
    lost = int(m.group(1)) - int(m.group(2))
    return typed > 0 and 0 < lost <= typed and " added " not in v


def _x_decimal_exponent(spec, v):
    """turtle family: an xsd:decimal literal whose lexical form carries an exponent comes back as xsd:double"""
    if _tag(v) not in ("rt-turtle", "rt-longturtle", "rt-n3") or "XMLSchema#double" not in v:
        return False
    for _s, _p, o in spec["triples"]:
        if o[0] == "l" and o[2] == gg.XSD + "decimal":
            lex = str(gg.term(o))
            if "e" in lex or "E" in lex:
                return True
    return False


_EXPLAIN = {"decimal_exponent_bare": _x_decimal_exponent, "dotted_prefix": _x_dotted_prefix, "n3_sameas_in_brackets": _x_n3_sameas, "xml_name_percent": _x_xml_name,
            "jsonld_typed_list_cell": _x_jsonld_typed_cell}


def _matcher(name):
    def m(case, result):
        spec = case["spec"]
        viol = result.get("viol", [])
        if not viol:
            return False

        def explained(v):
            t = _tag(v)
            m2 = _re.match(r"(rt|ser|parse|hang)2-(.*)", t)
            if m2:  # second round of a two-round case: only the SAME listed failure persisting from round one
                t1 = f"{m2.group(1)}-{m2.group(2)}"
                return any(_tag(w) == t1 and any(f(spec, w) for f in _EXPLAIN.values()) for w in viol)
            return any(f(spec, v) for f in _EXPLAIN.values())

        if not all(explained(v) for v in viol):
            return False
        return any(_EXPLAIN[name](spec, v) for v in viol)
    m.__doc__ = _EXPLAIN[name].__doc__
    return m


MATCHERS = {name: _matcher(name) for name in _EXPLAIN}
MATCHERS["none"] = lambda case, result: False


def TABLES():  # noqa: N802
    import c03tables
    return c03tables.render()
