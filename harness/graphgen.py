"""graphgen — reusable random RDF graph generator (built for C03; meant for C05/C06/C12/C13 too).

Everything is JSON-able, so a generated graph can be stored in a replay file and rebuilt
bit-for-bit; every random choice comes from the `random.Random` the caller passes in.

API
---
Terms (JSON):  ["i", iri]  |  ["b", label]  |  ["l", lexical, datatype_iri_or_None, lang_or_None]
               (a fifth element "raw" on a literal = build it with normalize=False; never generated, for witnesses)
Spec  (JSON):  {"triples": [[s, p, o], ...],           # terms as above, duplicates removed, order kept
                "prefixes": [[prefix, namespace], ...], # bindings to add with Graph.bind (may be [])
                "bind": "rdflib" | "none" | "core",      # Graph(bind_namespaces=…)
                "base": iri | None,                      # `base=` option for serializers
                "motifs": [name, ...]}                   # which shapes went in (for stats)

gen_spec(rng, size=None, profile="mixed", lists="all") -> Spec
      profile: "mixed" (default; everything the C03 quantifier names), "ground" (no blank nodes),
               "bnodes" (blank-node topologies, few literals), "literals" (many literal kinds),
               "lists" (rdf:List structures, proper and malformed)
      lists:   "all" | "proper" (only well-formed collections) | "none"
      size:    rough number of motifs (default rng-chosen 1..6); a motif adds 1..12 triples
gen_literal(rng, kind=None) -> term   kind in LITERAL_KINDS (None = random kind; "xml" = rdf:XMLLiteral fragments)
gen_langtag(rng) -> str               a language tag at the edges of the LANGTAG production (no subtag length limits)
gen_xml_fragment(rng) -> str          a well-formed XML fragment (siblings re-declaring a namespace, nesting, attributes…)
gen_iri(rng, role="node") -> term     role "node" | "pred" (predicates avoid IRIs Turtle cannot abbreviate only sometimes)
gen_text(rng, maxlen=8) -> str        from the character pool (quotes, backslashes, newlines, \r, tabs, controls, non-BMP…)
term(t) / unterm(x)                   JSON term <-> rdflib term
build(spec, graph=None) -> rdflib.Graph    (applies `bind`, `prefixes`; literals through rdflib's default constructor)
triples(spec) -> list of rdflib triples
spec_of(graph, **opts) -> Spec        (inverse of build, for shrinking / corpus)
features(spec) -> {counter: n}        what a spec exercises (for `stats`)
shrink(spec) -> iterator of smaller specs (drop triples, prefixes, base; simplify literals)
xml10_ok(s) -> bool                   every char of s is an XML 1.0 `Char`
xml_expressible(spec) -> (ok, reason) RDF/XML can express the graph (predicates splittable into namespace +
                                      NCName by an independent splitter, all literal text and language tags XML-1.0-safe)
gen_round2(rng, spec) -> dict          a prefix re-binding + new triple to apply to the SAME graph object after a first
                                       round of serialisations (two-round cases; mutates spec: adds a strict-split predicate)
xml_splittable(iri) -> bool            some split namespace + XML NCName exists
keywordise(rng, spec) -> spec          the same graph with prefixes and blank-node labels spelled like the syntaxes' keywords
                                       (a, true, false, base, prefix, PREFIX, BASE, is, of, has, this, e, E, inf, nan …;
                                       motifs "kw_prefix", "kw_label");  pools KEYWORD_PREFIXES, KEYWORD_LABELS
bnodes(spec) -> sorted blank-node labels of a spec
Pools (module constants, extend freely): NAMESPACES, LOCALS, SAFE_LOCALS, WELL_KNOWN, CHAR_POOL, TEXT_FIXED, LANGS,
DATATYPES (datatype, valid lexical forms, invalid lexical forms), BIND_SETS, BASES, MALFORMED (list defects), MOTIFS,
PROFILES.  A spec marked with the motif "xml_safe" has only XML-1.0 characters and splittable predicates.

Example
-------
    import random, graphgen as gg
    spec = gg.gen_spec(random.Random("7:C05:3"), profile="lists", lists="proper")
    g = gg.build(spec)                       # rdflib.Graph with the spec's bindings
    g.serialize(format="turtle", base=spec["base"]) if spec["base"] else g.serialize(format="turtle")

Nothing here looks at the serializers/parsers under test; `build` uses only Graph(), Graph.bind, Graph.add.
"""
from __future__ import annotations

import re
import unicodedata

RDF = "http://www.w3.org/1999/02/22-rdf-syntax-ns#"
RDFS = "http://www.w3.org/2000/01/rdf-schema#"
XSD = "http://www.w3.org/2001/XMLSchema#"
OWL = "http://www.w3.org/2002/07/owl#"
FIRST, REST, NIL, TYPE, LIST = RDF + "first", RDF + "rest", RDF + "nil", RDF + "type", RDF + "List"

# ------------------------------------------------------------------ pools

NAMESPACES = [
    "http://ex.org/ns#",        # ends in '#'
    "http://ex.org/a/",         # ends in '/'
    "http://ex.org/b",          # ends in neither (local part glued on)
    "urn:x:",                   # non-hierarchical
    "http://ex.org/dot/",       # used with locals that end in '.'
    "http://ex.org/a/deep/",    # nested under another namespace (longest-match)
    "http://\xfcn\xef.example/ns#",   # non-ASCII namespace
]
LOCALS = ["a", "b", "c", "p", "q", "r1", "Thing", "a.b", "a-b", "a_b", "x.", "1a", "42", "a%20b", "\xe9", "\u540d\u524d", "a\xb7b",
          "_u", "-d", "a(b)", "a'b", "a,b", "a~b", "a!b", "a:b", "a/b", "q?x=1&y=2", "a#b", "", "a;b", "a=b", "a@b",
          "a*b", "a+b", "a$b", "%41", "x&y", "a<b".replace("<", "%3C")]
SAFE_LOCALS = ["a", "b", "c", "p", "q", "r1", "Thing", "a_b", "\xe9"]
WELL_KNOWN = [RDF + "type", RDFS + "label", RDFS + "Class", RDF + "value", OWL + "sameAs", RDFS + "seeAlso",
              RDF + "Property", OWL + "Class", "http://www.w3.org/2000/10/swap/log#implies", RDF + "_1",
              XSD + "string"]

CHAR_POOL = (
    list("abcxyz019 ") + ['"', '"', "'", "\\", "\\", "\n", "\n", "\r", "\t", "\b", "\f", "\v", "\x00", "\x01", "\x1f",
                          "\x7f", "\x85", "\x85", "\xa0", "\u2028", "\u2028", "\u2029", "\x1c", "\x1d", "\x1e", "<", ">", "&", "]", "{", "}", "#", "@", "^", ".", ",", ";",
                          ":", "%", "_", "-", "\xe9", "\xfc", "\xdf", "\u03a9", "\u540d", "\u0301", "\u0308", "\u200d",
                          "\ufeff", "\ufffe", "\uffff", "\ud7ff", "\ue000", "\ufffd", "\U0001f600", "\U00010000",
                          "\U0010ffff", "e", "E", "+", "u", "U", "n", "r", "t"]
)
# str.splitlines() boundaries that N-Triples / Turtle leave unescaped inside a string: VT, FF, FS, GS, RS, NEL, LS, PS
TEXT_FIXED = ["first\u2028second", "a\u2029b", "a\x0cb", "x\x0by", "a\x1cb\x1dc\x1ed", "", " ", "0", "false", '"', '""', '"""', '""""', "\\", '\\"', '"\\', "\n", "\r", "\r\n", "a\nb", 'a\n"',
              'a\n""', 'a\n"""', 'x\n\\"', 'x\n\\', '\n"""a"""', "a\\nb", "\\u0041", "\\U00000041", "a\rb", "a<b>\rc",
              "<a>&amp;</a>", "]]>", "<x>]]></x>", "tab\there", " lead", "trail ", "a  b", "\x00", "a\x0bb", "\ud7ff",
              "'''", "it's", "@en", "^^", "\U0001f600", "e\u0301", "\ufeffbom", "{}", "a\xa0b", "a\x85b", "\\\\", '\\\\"',
              'q"\n', '\n\\\\"', "a\u2028b", "x\n\ufffe"]
# Language tags: everything `Literal` accepts = the LANGTAG production of Turtle / N-Triples,
# `[a-zA-Z]+ ('-' [a-zA-Z0-9]+)*` — NO length limits (BCP 47's 1..8 per subtag is not part of the RDF grammars):
# long primary subtag, long later subtags, many subtags, digits in later subtags, mixed case, one-letter subtags.
LANGS = ["en", "en-US", "EN", "en-gb", "de-DE-1996", "zh-Hant-TW", "x-priv", "fr-CA-x-ab12", "i-klingon", "sr-Latn",
         "en-x-transcribed", "portuguese", "x-a", "a", "Q", "de-CH-1901-x-verylongprivateuse", "en-a-b-c-d-e-f-g-h-i-j",
         "abcdefghijklmnopqrstuvwxyz", "EN-Latn-US-x-TWAIN9", "zh-cmn-Hans-CN-x-0123456789", "tlh-x-" + "k" * 40,
         "a-1", "x-1-2-3", "sl-rozaj-biske-1994", "en-US-u-islamcal", "xx-" + "-".join(["ab9"] * 12)]

# (datatype, valid lexical forms, invalid lexical forms)
DATATYPES = [
    (XSD + "string", ["", "abc", "a\nb", " x "], []),
    (XSD + "integer", ["0", "1", "-1", "+1", "007", "12345678901234567890123", "-0"], ["", "1.0", "abc", " 1 ", "1_0", "1e3", "\u0663"]),
    (XSD + "decimal", ["0.0", "1.5", "-1.5", "+1.5", "1", "1.", ".5", "100", "0.10", "123456789.123456789", "-0.0"],
     ["", "1E2", "abc", "1,5", "INF", "NaN", "1.5.2"]),
    (XSD + "double", ["0", "1", "1.0", "-1.5", "1e0", "1E3", "1.23456789", "0.123456789", "1.2345678901234567", "1e100",
                      "1e-100", "5e-324", "1.7976931348623157e308", "123456789012345678", "0.1", "-0.0", "INF", "-INF",
                      "NaN", "+INF", ".5", "1.", "1e+22", "9007199254740993", "0.30000000000000004", "1.0E1"],
     ["", "abc", "1e", "e5", "inf", "nan", "Infinity", "0x10", "1_0"]),
    (XSD + "float", ["0", "1.5", "1e3", "INF", "NaN", "3.4028235e38", "0.1"], ["abc", ""]),
    (XSD + "boolean", ["true", "false", "1", "0"], ["TRUE", "True", "yes", "", "2", " true"]),
    (XSD + "date", ["2020-01-31", "2020-01-31Z", "-0044-03-15", "2020-02-29+05:30"], ["2020-13-01", "31/01/2020", ""]),
    (XSD + "dateTime", ["2020-01-31T12:00:00", "2020-01-31T12:00:00Z", "2020-01-31T12:00:00.123456+01:00",
                        "2020-01-31T24:00:00"], ["2020-01-31", "now", "2020-01-31 12:00:00"]),
    (XSD + "time", ["12:00:00", "12:00:00Z", "23:59:59.999"], ["25:00:00", "noon"]),
    (XSD + "gYear", ["2020", "-0001", "12020"], ["20", "abc"]),
    (XSD + "gYearMonth", ["2020-01"], ["2020-13"]),
    (XSD + "duration", ["P1Y2M3DT4H5M6S", "PT0S", "-P1D", "P1M"], ["1Y", "P", ""]),
    (XSD + "dayTimeDuration", ["P1DT2H", "PT1.5S"], ["P1Y"]),
    (XSD + "yearMonthDuration", ["P1Y2M"], ["P1D"]),
    (XSD + "hexBinary", ["", "0FB7", "0fb7"], ["0FB", "xyz"]),
    (XSD + "base64Binary", ["", "aGVsbG8=", "aGVs bG8="], ["a", "!!!"]),
    (XSD + "anyURI", ["http://ex.org/", "a b", ""], []),
    (XSD + "nonNegativeInteger", ["0", "5", "+5"], ["-1", "a"]),
    (XSD + "positiveInteger", ["1"], ["0"]),
    (XSD + "negativeInteger", ["-1"], ["0", "1"]),
    (XSD + "nonPositiveInteger", ["0", "-3"], ["3"]),
    (XSD + "long", ["9223372036854775807"], ["9223372036854775808"]),
    (XSD + "int", ["2147483647", "-2147483648"], ["2147483648"]),
    (XSD + "short", ["32767"], ["32768"]),
    (XSD + "byte", ["127", "-128"], ["128"]),
    (XSD + "unsignedLong", ["18446744073709551615"], ["-1"]),
    (XSD + "unsignedInt", ["4294967295"], ["-1"]),
    (XSD + "unsignedShort", ["65535"], ["65536"]),
    (XSD + "unsignedByte", ["255"], ["256"]),
    (XSD + "normalizedString", ["a b", "a\tb"], []),
    (XSD + "token", ["a b", " a  b "], []),
    (XSD + "language", ["en"], ["not a lang"]),
    (XSD + "Name", ["a"], ["1a"]),
    (XSD + "NCName", ["a"], ["a:b"]),
    (RDF + "XMLLiteral", ["", "plain text", "<b>x</b>", "<a xmlns=\"http://ex.org/\">t</a>", "a &amp; b", "<e/>", "<e></e>",
                          "<a y=\"1\" x=\"2\"/>"], ["<open>", "a & b", "<a></b>"]),
    (RDF + "HTML", ["<p>x</p>", "plain", "<br>"], []),
    (RDF + "JSON", ["{}", "{\"a\": [1, 2]}", "1"], ["{"]),
    (RDF + "langString", ["x"], []),
    (OWL + "rational", ["1/3", "-2/4", "5"], ["1/0", "a/b", "1.5"]),
    (OWL + "real", ["1"], []),
    ("http://ex.org/dt#mine", ["anything", "", "1", "true", "a\"b\nc"], []),
    ("http://ex.org/q?x=1&y=2", ["v"], []),
    ("http://ex.org/dot/t.", ["v"], []),
]
LITERAL_KINDS = ["plain", "lang", "typed_valid", "typed_invalid", "typed_text", "number", "falsy", "fixed", "xml"]

# well-formed XML fragments for rdf:XMLLiteral (RDF/XML writers may embed them raw with parseType="Literal"):
XML_NS = ["http://x.example/", "http://www.w3.org/1999/xhtml", "http://ex.org/ns#"]
XML_FIXED = [
    '<a xmlns="http://x.example/">1</a><b xmlns="http://x.example/">2</b>',               # siblings, same default ns
    '<p:a xmlns:p="http://x.example/">1</p:a> and <p:b xmlns:p="http://x.example/">2</p:b>',  # siblings, same prefix
    '<d><a xmlns="http://x.example/">1</a><b xmlns="http://x.example/">2</b></d>',       # nested siblings
    '<a xmlns:p="http://x.example/" p:k="v">t</a>',                                       # namespaced attribute
    '<a>1</a><!-- c --><b>2</b>', '<?pi x?><a/>', '<a><![CDATA[x<y]]></a>',              # comment, PI, CDATA
    'text <b>bold</b> tail', '<a><b><c/></b></a>', '<a k="1" j="2"/>', '<a>&lt;&amp;&gt;</a>', '<a> </a>', ' <a/> ',
    '<p xmlns="http://www.w3.org/1999/xhtml">See <a href="#x">x</a></p>',
    '<a xmlns="http://x.example/"><b xmlns="">u</b><c/></a>',                             # un-declaration inside
    '<p:a xmlns:p="http://x.example/"><p:b/><q:c xmlns:q="http://x.example/"/></p:a>',
]

BIND_SETS = [
    [],
    [["ex", NAMESPACES[0]], ["a", NAMESPACES[1]]],
    [["ex", NAMESPACES[0]], ["a", NAMESPACES[1]], ["b", NAMESPACES[2]], ["u", NAMESPACES[3]], ["dot", NAMESPACES[4]],
     ["deep", NAMESPACES[5]], ["uni", NAMESPACES[6]]],
    [["", NAMESPACES[0]], ["dot", NAMESPACES[4]]],
    [["_p", NAMESPACES[1]], ["p_p", NAMESPACES[0]], ["dot", NAMESPACES[4]]],
    [["whole", NAMESPACES[1] + "a"], ["a", NAMESPACES[1]], ["deep", NAMESPACES[5]]],
    [["xsd2", XSD], ["dt", "http://ex.org/dt#"], ["r", RDF]],
    [["a.b", NAMESPACES[0]], ["\xe9", NAMESPACES[1]], ["A", NAMESPACES[2]], ["ns1", NAMESPACES[3]]],
]
BASES = ["http://ex.org/a/", "http://ex.org/ns", "http://ex.org/ns#", "http://ex.org/", "urn:x:", "http://ex.org/a/deep/x",
         "http://example.org/doc/", "http://ex.org/a/", "http://example.org/doc/", "http://ex.org/a/./b/", "http://ex.org/a/../b/"]
# IRIs *under the base*: base + remainder.  A writer may only cut the base off where the remainder, read as a relative
# reference (RFC 3986 §4.2, §5.2), resolves back to the IRI: not when it looks like `scheme:…`, starts with `/` or
# `//`, or contains dot segments; empty, `?…` and `#…` remainders are the other corner cases.
TRICKY_REMAINDERS = ["isbn:0451450523", "taxonomy:9606", "a:b", "x:", ":y", "mailto:z", "urn:x", "http:", "c:/d", "a:b/c",
                     "q?q=a:b", "?q=a:b", "#f:g", "f#f:g", "a/b:c", "", "?", "#", "?x", "#frag", "x?", "x#",
                     "/x", "//x", "//host/x", "..", "../x", ".", "./x", "a/../b", "a/./b", "a/..", "x/", "x//y", "plain",
                     "1st", "p:q", "a%3Ab", "\xe9:x", "a+b:c", "A.b-c:d"]
# local names that are not XML NCNames but split strictly (…1 + st): RDF/XML needs its own, generated prefix
STRICT_LOCALS = ["1st", "2nd", "3D", "9lives", "1a", "7_x"]

# ------------------------------------------------------------------ terms


def I(x):  # noqa: E743,N802
    return ["i", x]


def B(x):  # noqa: N802
    return ["b", x]


def L(lex, dt=None, lang=None):  # noqa: N802
    return ["l", lex, dt, lang]


def term(t):
    """JSON term -> rdflib term (literals through rdflib's default constructor, i.e. normalised as rdflib does)."""
    from rdflib.term import BNode, Literal, URIRef
    if t[0] == "i":
        return URIRef(t[1])
    if t[0] == "b":
        return BNode(t[1])
    if t[0] == "l":
        if len(t) > 4 and t[4] == "raw":   # lexical form kept as given (Literal(..., normalize=False)); witnesses only
            return Literal(t[1], datatype=URIRef(t[2]) if t[2] is not None else None, lang=t[3], normalize=False)
        return Literal(t[1], datatype=URIRef(t[2]) if t[2] is not None else None, lang=t[3])
    raise ValueError(t)


def unterm(x):
    from rdflib.term import BNode, Literal, URIRef
    if isinstance(x, URIRef):
        return ["i", str(x)]
    if isinstance(x, BNode):
        return ["b", str(x)]
    if isinstance(x, Literal):
        return ["l", str(x), str(x.datatype) if x.datatype is not None else None, x.language]
    raise ValueError(repr(x))


def triples(spec):
    return [tuple(term(x) for x in t) for t in spec["triples"]]


def build(spec, graph=None):
    from rdflib import Graph
    from rdflib.term import URIRef
    if graph is None:
        graph = Graph(bind_namespaces=spec.get("bind", "rdflib"))
    for pfx, ns in spec.get("prefixes", []):
        graph.bind(pfx, URIRef(ns))
    for t in triples(spec):
        graph.add(t)
    return graph


def spec_of(graph, prefixes=(), bind="rdflib", base=None):
    ts = sorted([unterm(s), unterm(p), unterm(o)] for s, p, o in graph)
    return {"triples": ts, "prefixes": [list(x) for x in prefixes], "bind": bind, "base": base, "motifs": []}


# ------------------------------------------------------------------ leaf generators


def gen_text(rng, maxlen=8):
    r = rng.random()
    if r < 0.3:
        return rng.choice(TEXT_FIXED)
    n = rng.choice([0, 1, 1, 2, 3, 4, 6, maxlen])
    s = "".join(rng.choice(CHAR_POOL) for _ in range(n))
    if r < 0.4 and "\n" not in s:
        s = s + "\n" + rng.choice(['"', "\\", '\\"', '""', "x", ""])
    return s


def gen_iri(rng, role="node"):
    r = rng.random()
    if r < 0.12:
        return I(rng.choice(WELL_KNOWN))
    ns = rng.choice(NAMESPACES)
    if role == "pred" and rng.random() < 0.75:
        loc = rng.choice(SAFE_LOCALS)
    else:
        loc = rng.choice(LOCALS if rng.random() < 0.6 else SAFE_LOCALS)
    if ns.endswith("dot/") and rng.random() < 0.6:
        loc = rng.choice(["x.", "a.b.", "v1.", "t."])
    iri = ns + loc
    if ":" not in iri.split("/")[0] and not iri.startswith("urn:"):
        iri = "http://ex.org/" + iri
    return I(iri)


def gen_xml_fragment(rng, depth=0):
    """a well-formed XML fragment: sibling / nested elements, namespace declarations (default and prefixed, the same
    namespace re-declared on siblings), attributes (plain and namespaced), mixed text, rarely comment / PI / CDATA"""
    parts = []
    ns = rng.choice(XML_NS)
    style = rng.choice(["none", "default", "prefix", "default", "prefix"])  # one style for all siblings: re-declarations
    for i in range(rng.choice([1, 2, 2, 3])):
        name = rng.choice(["a", "b", "c", "em"])
        decl, tag = "", name
        if style == "default":
            decl = f' xmlns="{ns}"'
        elif style == "prefix":
            tag = "p:" + name
            decl = f' xmlns:p="{ns}"'
        attr = rng.choice(["", "", ' k="1"', ' k="1" j="2"', ' p:k="v"' if style == "prefix" else ' x="&amp;"'])
        if depth < 2 and rng.random() < 0.3:
            inner = gen_xml_fragment(rng, depth + 1)
        else:
            inner = rng.choice(["", "1", "t&amp;u", " ", "x y"])
        if rng.random() < 0.04:
            inner += rng.choice(["<!-- c -->", "<?pi x?>", "<![CDATA[x<y]]>"])
        parts.append(f"<{tag}{decl}{attr}>{inner}</{tag}>" if inner or rng.random() < 0.5 else f"<{tag}{decl}{attr}/>")
        if rng.random() < 0.3:
            parts.append(rng.choice([" and ", "text", " "]))
    return "".join(parts)


def gen_langtag(rng):
    """a language tag at the edges of the LANGTAG production: fixed pool or composed (1..6 subtags of length 1..14,
    letters only in the first, letters and digits later, random case)"""
    if rng.random() < 0.6:
        return rng.choice(LANGS)
    letters = "abcdefghijklmnopqrstuvwxyzABCDEFGHXZ"
    subs = ["".join(rng.choice(letters) for _ in range(rng.choice([1, 2, 3, 8, 9, 14])))]
    for _ in range(rng.choice([0, 1, 2, 5])):
        subs.append("".join(rng.choice(letters + "0123456789") for _ in range(rng.choice([1, 2, 4, 8, 9, 12]))))
    return "-".join(subs)


def gen_literal(rng, kind=None):
    kind = kind or rng.choice(LITERAL_KINDS)
    if kind == "xml":
        return L(rng.choice(XML_FIXED) if rng.random() < 0.4 else gen_xml_fragment(rng), RDF + "XMLLiteral")
    if kind == "plain":
        return L(gen_text(rng))
    if kind == "lang":
        return L(gen_text(rng), None, gen_langtag(rng))
    if kind == "falsy":
        return rng.choice([L(""), L("0", XSD + "integer"), L("false", XSD + "boolean"), L("0.0", XSD + "double"),
                           L("0.0", XSD + "decimal"), L("", XSD + "string"), L("", None, "en"), L("0")])
    if kind == "fixed":
        return L(rng.choice(TEXT_FIXED), rng.choice([None, None, XSD + "string", "http://ex.org/dt#mine"]))
    if kind == "number":
        dt = rng.choice([XSD + "integer", XSD + "decimal", XSD + "double", XSD + "double", XSD + "boolean", XSD + "float"])
        if dt.endswith("integer"):
            lex = rng.choice(["", "-", "+"]) + str(rng.choice([0, 1, 7, 10, 255, 10**rng.randint(1, 30) + rng.randint(0, 9)]))
        elif dt.endswith("decimal"):
            lex = rng.choice(["", "-", "+"]) + str(rng.randint(0, 10**rng.randint(0, 12))) + rng.choice(
                ["", ".", ".0", ".5", ".%d" % rng.randint(0, 10**9), ".000"])
        elif dt.endswith("boolean"):
            lex = rng.choice(["true", "false", "1", "0"])
        else:
            m = rng.choice([str(rng.randint(0, 9)), "%d.%d" % (rng.randint(0, 999), rng.randint(0, 10**rng.randint(1, 17))),
                            repr(rng.random()), repr(rng.random() * 10 ** rng.randint(-30, 30)),
                            repr(rng.uniform(-1, 1) * 2.0 ** rng.randint(-1074, 1023))])
            lex = m if ("e" in m or rng.random() < 0.5) else m + rng.choice(["e0", "E3", "e-7", "e+12"])
        return L(lex, dt)
    dt, valid, invalid = rng.choice(DATATYPES)
    if kind == "typed_valid" or (kind == "typed_invalid" and not invalid):
        return L(rng.choice(valid), dt)
    if kind == "typed_invalid":
        return L(rng.choice(invalid), dt)
    return L(gen_text(rng), dt)  # typed_text: arbitrary text under a datatype


# ------------------------------------------------------------------ graph motifs


class _Ctx:
    def __init__(self, rng, lists):
        self.rng, self.ts, self.n, self.motifs, self.lists = rng, [], 0, [], lists
        self.iris = [gen_iri(rng) for _ in range(rng.randint(2, 5))]
        self.preds = [gen_iri(rng, "pred") for _ in range(rng.randint(1, 4))]
        self.bn_style = rng.choice(["b", "b", "N", "mixed"])

    def add(self, s, p, o):
        t = [s, p, o]
        if t not in self.ts:
            self.ts.append(t)

    def bnode(self):
        self.n += 1
        st = self.bn_style if self.bn_style != "mixed" else self.rng.choice(["b", "N", "x"])
        if st == "N":  # looks like rdflib's own generated labels
            return B("N%032x" % self.rng.getrandbits(128))
        if st == "x":
            return B(self.rng.choice(["x", "genid", "a1", "B", "node"]) + str(self.n))
        return B("b%d" % self.n)

    def iri(self):
        return self.rng.choice(self.iris) if self.rng.random() < 0.7 else gen_iri(self.rng)

    def pred(self):
        return self.rng.choice(self.preds) if self.rng.random() < 0.8 else gen_iri(self.rng, "pred")

    def obj(self, lit_p=0.5):
        return gen_literal(self.rng) if self.rng.random() < lit_p else self.iri()

    def props(self, s, lo=1, hi=3, lit_p=0.6):
        for _ in range(self.rng.randint(lo, hi)):
            self.add(s, self.pred(), self.obj(lit_p))


def _m_ground(c):
    s = c.iri()
    c.props(s, 1, 4)
    if c.rng.random() < 0.3:  # same predicate, several objects (object lists)
        p = c.pred()
        for _ in range(c.rng.randint(2, 3)):
            c.add(s, p, c.obj())
    if c.rng.random() < 0.2:
        c.add(s, I(TYPE), c.rng.choice([I(RDFS + "Class"), I(OWL + "Class"), c.iri()]))
    if c.rng.random() < 0.1:
        c.add(s, c.pred(), s)  # self loop on an IRI


def _m_literals(c):
    s = c.iri()
    for _ in range(c.rng.randint(2, 6)):
        c.add(s, c.pred(), gen_literal(c.rng))


def _m_tree(c):
    """IRI -> bnode -> bnode … (each referenced once: inlinable)"""
    def grow(parent, depth):
        b = c.bnode()
        c.add(parent, c.pred(), b)
        if c.rng.random() < 0.85:
            c.props(b, 0, 2)
        if depth < c.rng.choice([1, 2, 3, 5, 12]):
            for _ in range(c.rng.choice([0, 1, 1, 2])):
                grow(b, depth + 1)
    grow(c.iri(), 0)


def _m_dag(c):
    """a blank node referenced from two places"""
    b = c.bnode()
    c.props(b, 0, 2)
    c.add(c.iri(), c.pred(), b)
    src = c.rng.choice([c.iri(), c.bnode()])
    c.add(src, c.pred(), b)
    if src[0] == "b" and c.rng.random() < 0.5:
        c.add(c.iri(), c.pred(), src)


def _m_cycle(c):
    n = c.rng.randint(1, 4)
    bs = [c.bnode() for _ in range(n)]
    for i in range(n):
        c.add(bs[i], c.pred(), bs[(i + 1) % n])
        if c.rng.random() < 0.5:
            c.props(bs[i], 1, 1)
    if c.rng.random() < 0.5:  # IRI entry point
        c.add(c.iri(), c.pred(), c.rng.choice(bs))
    if c.rng.random() < 0.3:  # something hanging off the cycle (tree, list)
        _m_list(c, owner=c.rng.choice(bs))


def _m_unref(c):
    """unreferenced blank node as subject (`[] p o`), possibly with a subtree; or a bnode leaf object"""
    b = c.bnode()
    c.props(b, 1, 3)
    if c.rng.random() < 0.4:
        b2 = c.bnode()
        c.add(b, c.pred(), b2)
        c.props(b2, 0, 2)
    if c.rng.random() < 0.3:
        c.add(c.iri(), c.pred(), c.bnode())  # property-less leaf bnode


def _m_bnode_types(c):
    """typed blank nodes / typed IRIs (pretty-xml uses the type as element name)"""
    s = c.rng.choice([c.bnode(), c.iri()])
    c.add(s, I(TYPE), c.rng.choice([c.iri(), I(RDFS + "Class"), I("http://ex.org/ns#Thing")]))
    if c.rng.random() < 0.4:
        c.add(s, I(TYPE), c.iri())
    c.props(s, 0, 2)
    if s[0] == "b" and c.rng.random() < 0.6:
        c.add(c.iri(), c.pred(), s)


def _member(c, depth):
    r = c.rng.random()
    if r < 0.35:
        return gen_literal(c.rng)
    if r < 0.6:
        return c.iri()
    if r < 0.8:
        b = c.bnode()
        c.props(b, 0, 2)
        return b
    if depth < 2 and c.lists != "none":
        return _mk_list(c, c.rng.randint(0, 3), depth + 1)[0]
    return I(NIL)


def _mk_list(c, n, depth=0):
    """well-formed collection of n members; returns (head term, [cells])"""
    if n == 0:
        return I(NIL), []
    cells = [c.bnode() for _ in range(n)]
    for i, cell in enumerate(cells):
        c.add(cell, I(FIRST), _member(c, depth))
        c.add(cell, I(REST), cells[i + 1] if i + 1 < n else I(NIL))
    return cells[0], cells


MALFORMED = ["shared_tail", "head_twice", "two_firsts", "missing_rest", "missing_first", "extra_prop", "typed_cell",
             "rest_iri", "rest_literal", "cycle_self", "cycle_head", "cycle_mid", "two_rests", "iri_cell", "nil_props",
             "tail_ref_by_bnode", "falsy_first_dup", "inner_is_subject_elsewhere", "nil_rest", "self_member"]


def _m_list(c, owner=None, kind=None):
    rng = c.rng
    owner = owner or rng.choice([c.iri(), c.iri(), c.bnode()])
    if owner[0] == "b" and rng.random() < 0.5:
        c.add(c.iri(), c.pred(), owner)
    n = rng.choice([0, 1, 2, 3, 3, 4])
    head, cells = _mk_list(c, n)
    if rng.random() < 0.9:
        c.add(owner, c.pred(), head)
    else:
        c.motifs.append("list_unreferenced_head")  # `( … ) p o .` style: head is only a subject
        if cells:
            c.props(head, 0, 1)
    if c.lists != "all" or not cells:
        return
    kind = kind or (rng.choice(MALFORMED) if rng.random() < 0.45 else None)
    if kind is None:
        return
    c.motifs.append("mal_" + kind)
    mid = cells[min(len(cells) - 1, 1)]
    last = cells[-1]

    def set_rest(cell, new):
        c.ts[:] = [t for t in c.ts if not (t[0] == cell and t[1] == I(REST))]
        c.add(cell, I(REST), new)

    if kind == "shared_tail":
        c.add(c.iri(), c.pred(), mid)
    elif kind == "tail_ref_by_bnode":
        b = c.bnode()
        c.add(b, c.pred(), mid)
    elif kind == "head_twice":
        c.add(c.iri(), c.pred(), head)
    elif kind == "two_firsts":
        cell = rng.choice(cells)
        c.add(cell, I(FIRST), _member(c, 2))
        if rng.random() < 0.5:
            c.ts[:] = [t for t in c.ts if not (t[0] == cell and t[1] == I(REST))]
    elif kind == "falsy_first_dup":
        cell = rng.choice(cells)
        c.ts[:] = [t for t in c.ts if not (t[0] == cell and t[1] == I(FIRST))]
        c.add(cell, I(FIRST), L("0", XSD + "integer"))
        c.add(cell, I(FIRST), rng.choice([L(""), L("5", XSD + "integer"), c.iri()]))
    elif kind == "missing_rest":
        cell = rng.choice(cells)
        c.ts[:] = [t for t in c.ts if not (t[0] == cell and t[1] == I(REST))]
        if rng.random() < 0.5:
            c.add(cell, c.pred(), c.obj())  # keeps the cell at two properties
    elif kind == "missing_first":
        cell = rng.choice(cells)
        c.ts[:] = [t for t in c.ts if not (t[0] == cell and t[1] == I(FIRST))]
        if rng.random() < 0.5:
            c.add(cell, c.pred(), c.obj())
    elif kind == "extra_prop":
        c.add(rng.choice(cells), c.pred(), c.obj())
    elif kind == "typed_cell":
        for cell in (cells if rng.random() < 0.5 else [rng.choice(cells)]):
            c.add(cell, I(TYPE), I(LIST))
    elif kind == "rest_iri":
        set_rest(last, c.iri())
    elif kind == "rest_literal":
        set_rest(last, rng.choice([L(""), L("x"), L("0", XSD + "integer")]))
    elif kind == "cycle_self":
        set_rest(last, last)
    elif kind == "cycle_head":
        set_rest(last, head)
    elif kind == "cycle_mid":
        set_rest(last, mid)
    elif kind == "two_rests":
        c.add(rng.choice(cells), I(REST), rng.choice([I(NIL), _mk_list(c, 1, 2)[0]]))
    elif kind == "iri_cell":
        x = c.iri()
        c.add(x, I(FIRST), c.obj())
        c.add(x, I(REST), I(NIL))
        set_rest(last, x)
    elif kind == "nil_props":
        c.add(I(NIL), c.pred(), c.obj())
    elif kind == "nil_rest":          # rdf:nil itself carries list properties (walks must stop at rdf:nil)
        c.add(I(NIL), I(REST), rng.choice([head, I(NIL), last]))
        if rng.random() < 0.5:
            c.add(I(NIL), I(FIRST), c.obj())
    elif kind == "self_member":       # a cell is a member of its own list
        cell = rng.choice(cells)
        c.ts[:] = [t for t in c.ts if not (t[0] == cell and t[1] == I(FIRST))]
        c.add(cell, I(FIRST), rng.choice(cells))
    elif kind == "inner_is_subject_elsewhere":
        # a bnode cycle owning the list, so the serializer's subject ordering can reach an inner cell first
        a, b = c.bnode(), c.bnode()
        c.add(a, c.pred(), b)
        c.add(b, c.pred(), a)
        h2, _ = _mk_list(c, rng.randint(2, 3), 2)
        c.add(rng.choice([a, b]), c.pred(), h2)


def _m_anon_multiline(c):
    """several anonymous `[ … ]` nodes (members of a list, or objects of one property) whose contents hold multi-line
    literals with varied last-line lengths — N3 derives the identity of a `[` from its line/column position"""
    rng = c.rng
    n = rng.randint(2, 7)
    k0 = rng.randint(0, 30)
    members = []
    for i in range(n):
        b = c.bnode()
        tail = "x" * ((k0 + i * rng.choice([1, 1, 2, 3])) % 40)
        text = rng.choice(["first line\n", "a\nb\n", "\n", "l1\r\nl2\n", "q\"\n"]) + tail
        if i % 2 == 0 or rng.random() < 0.5:
            c.add(b, c.pred(), L(text, None, rng.choice([None, None, "en"])))
        if i % 2 == 1 or rng.random() < 0.3:
            c.add(b, c.pred(), rng.choice([L("1", XSD + "integer"), c.iri()]))
        members.append(b)
    owner = rng.choice([c.iri(), c.iri(), c.bnode()])
    if rng.random() < 0.6:
        cells = [c.bnode() for _ in members]
        for i, (cell, m) in enumerate(zip(cells, members)):
            c.add(cell, I(FIRST), m)
            c.add(cell, I(REST), cells[i + 1] if i + 1 < len(cells) else I(NIL))
        c.add(owner, c.pred(), cells[0])
    else:
        p = c.pred()
        for m in members:
            c.add(owner, p, m)


MOTIFS = {"anon_multiline": _m_anon_multiline, "ground": _m_ground, "literals": _m_literals, "tree": _m_tree, "dag": _m_dag, "cycle": _m_cycle,
          "unref": _m_unref, "types": _m_bnode_types, "list": _m_list}
PROFILES = {
    "mixed": [("ground", 3), ("literals", 3), ("tree", 3), ("dag", 2), ("cycle", 2), ("unref", 2), ("types", 1), ("list", 5),
              ("anon_multiline", 2)],
    "ground": [("ground", 3), ("literals", 3)],
    "literals": [("literals", 6), ("ground", 1), ("list", 1)],
    "bnodes": [("tree", 3), ("dag", 2), ("cycle", 3), ("unref", 2), ("types", 1), ("ground", 1), ("anon_multiline", 3)],
    "lists": [("list", 6), ("tree", 1), ("cycle", 1), ("ground", 1), ("anon_multiline", 2)],
}


def gen_spec(rng, size=None, profile="mixed", lists="all"):
    c = _Ctx(rng, lists)
    names = [n for n, w in PROFILES[profile] for _ in range(w) if not (lists == "none" and n == "list")]
    k = size if size is not None else rng.choice([1, 1, 2, 2, 3, 4, 6])
    for _ in range(k):
        m = rng.choice(names)
        c.motifs.append(m)
        MOTIFS[m](c)
    if rng.random() < 0.05:
        c.ts = []  # the empty graph
    if rng.random() < 0.15 and c.ts:  # relabel: blank-node label order decides serializer subject order
        labs = sorted({x[1] for t in c.ts for x in t if x[0] == "b"})
        perm = labs[:]
        rng.shuffle(perm)
        m = dict(zip(labs, perm))
        c.ts = [[(B(m[x[1]]) if x[0] == "b" else x) for x in t] for t in c.ts]
    if rng.random() < 0.55:
        # make the graph expressible in RDF/XML (XML 1.0 characters only, splittable predicates), so that the XML
        # writers see most of the topologies too; the rest keeps the hostile characters for the other formats
        safe_p = "http://ex.org/ns#p"
        ts = []
        for s_, p_, o_ in c.ts:
            if not xml_splittable(p_[1]):
                p_ = I(safe_p)
            if o_[0] == "l" and not xml10_ok(o_[1]):
                o_ = L("".join(ch for ch in o_[1] if xml10_ok(ch)), o_[2], o_[3])
            if [s_, p_, o_] not in ts:
                ts.append([s_, p_, o_])
        c.ts = ts
        c.motifs.append("xml_safe")
    r = rng.random()
    bind = "rdflib" if r < 0.5 else ("none" if r < 0.85 else "core")
    prefixes = rng.choice(BIND_SETS) if rng.random() < 0.6 else []
    base = rng.choice(BASES) if rng.random() < 0.4 else None
    if base is not None and rng.random() < 0.65:
        # IRIs under the base with RFC 3986-tricky remainders, in subject, predicate and object position
        c.motifs.append("base_tricky")
        for _ in range(rng.randint(1, 3)):
            def under():
                return I(base + rng.choice(TRICKY_REMAINDERS))
            pos = rng.choice(["s", "o", "so", "p", "spo", "o"])
            s_ = under() if "s" in pos else c.iri()
            p_ = under() if "p" in pos else c.pred()
            o_ = under() if "o" in pos else c.obj(0.3)
            if [s_, p_, o_] not in c.ts:
                c.ts.append([s_, p_, o_])
        if rng.random() < 0.3:
            c.ts.append([I(base), c.pred(), I(base)])
    return {"triples": c.ts, "prefixes": [list(p) for p in prefixes], "bind": bind, "base": base, "motifs": c.motifs}


OTHER_NAMESPACES = ["http://other.example/ns/", "http://other.example/v#", "urn:other:", "http://ex.org/a/deep/er/",
                    "http://other.example/ns/1"]


def gen_round2(rng, spec):
    """A second round for the same graph object (see C03): after the first serialisations, one of the prefixes they
    generated (ns1, ns2, …) or that the spec bound is re-bound to another namespace and a triple with a predicate in
    that namespace is added; then everything is serialised and parsed again.
    -> {"pick": n, "ns": namespace, "local": name, "mode": "replace" | "override" | "handle" (re-bind through a second
        Graph object on the same store) | "store" (store.bind directly), "subj": term, "obj": term}
    (`pick` indexes the sorted candidate prefixes at run time; the caller decides what a candidate is).
    Also makes sure the graph has a predicate whose local name needs the strict (RDF/XML) split."""
    if rng.random() < 0.7:
        ns = rng.choice(NAMESPACES[:3] + NAMESPACES[4:6])
        spec["triples"].append([gen_iri(rng), I(ns + rng.choice(STRICT_LOCALS)), gen_literal(rng, "plain")])
        if "xml_safe" in spec.get("motifs", []):
            t = spec["triples"][-1]
            t[2] = L("".join(ch for ch in t[2][1] if xml10_ok(ch)))
    return {"pick": rng.randint(0, 5), "ns": rng.choice(OTHER_NAMESPACES), "local": rng.choice(["p", "q1", "Rel", "x_y"]),
            "mode": rng.choice(["replace", "replace", "override", "handle", "handle", "store"]),
            "subj": gen_iri(rng), "obj": L(rng.choice(["other", "", "2"]))}


# ------------------------------------------------------------------ analysis helpers (independent of rdflib's serializers)


def bnodes(spec):
    return sorted({x[1] for t in spec["triples"] for x in t if x[0] == "b"})


KEYWORD_PREFIXES = ["a", "true", "false", "base", "prefix", "PREFIX", "BASE", "is", "of", "has", "this", "forAll", "forSome",
                    "keywords", "e", "E", "inf", "nan", "graph", "GRAPH", "id", "type", "list", "set", "value", "context"]
KEYWORD_LABELS = ["a", "true", "false", "base", "prefix", "PREFIX", "is", "of", "has", "this", "e", "E", "inf", "nan", "b", "x"]


def keywordise(rng, spec):
    """-> a copy of `spec` whose prefixes (for the namespaces its IRIs use) and/or blank-node labels are spelled like
    keywords of Turtle / N3 / SPARQL / JSON-LD.  The graph is the same up to blank-node renaming."""
    out = {**spec, "motifs": list(spec.get("motifs", []))}
    if rng.random() < 0.7:
        iris = sorted({x[1] for t in spec["triples"] for x in t if x[0] == "i"})
        nss = sorted({ns for ns in NAMESPACES for i in iris if i.startswith(ns)})
        taken = {ns for _p, ns in spec.get("prefixes", [])}
        names = rng.sample(KEYWORD_PREFIXES, min(len(KEYWORD_PREFIXES), len(nss)))
        extra = [[n, ns] for n, ns in zip(names, nss) if ns not in taken]
        if extra:
            have = {p for p, _ns in spec.get("prefixes", [])}
            out["prefixes"] = [list(x) for x in spec.get("prefixes", [])] + [x for x in extra if x[0] not in have]
            out["motifs"].append("kw_prefix")
    labels = bnodes(spec)
    if labels and (rng.random() < 0.6 or "kw_prefix" not in out["motifs"]):
        names = rng.sample(KEYWORD_LABELS, min(len(KEYWORD_LABELS), len(labels)))
        ren = {l: n for l, n in zip(rng.sample(labels, len(names)), names) if n not in labels}
        if ren:
            out["triples"] = [[["b", ren.get(x[1], x[1])] if x[0] == "b" else x for x in t] for t in spec["triples"]]
            out["motifs"].append("kw_label")
    return out


def features(spec):
    f = {}

    def inc(k, n=1):
        f[k] = f.get(k, 0) + n

    ts = spec["triples"]
    inc("triples", len(ts))
    inc("graphs_empty", int(not ts))
    inc("bnodes", len(bnodes(spec)))
    for m in spec.get("motifs", []):
        inc("motif_" + m)
    inc("opt_base", int(spec.get("base") is not None))
    inc("opt_bind_" + spec.get("bind", "rdflib"))
    inc("opt_prefixes", int(bool(spec.get("prefixes"))))
    for s, p, o in ts:
        if o[0] == "l":
            lex, dt, lang = o[1], o[2], o[3]
            inc("lit")
            if lang:
                inc("lit_lang")
            elif dt:
                inc("lit_typed")
            else:
                inc("lit_plain")
            if "\n" in lex:
                inc("lit_newline")
            if "\r" in lex:
                inc("lit_cr")
            if '"' in lex:
                inc("lit_quote")
            if "\\" in lex:
                inc("lit_backslash")
            if not xml10_ok(lex):
                inc("lit_non_xml_char")
            if any(ord(ch) > 0xFFFF for ch in lex):
                inc("lit_nonbmp")
            if lex == "":
                inc("lit_empty")
            if dt and dt.startswith(XSD) and dt[len(XSD):] in ("integer", "decimal", "double", "boolean"):
                inc("lit_shorthand_type")
        elif o[0] == "b":
            inc("obj_bnode")
    return f


def xml10_ok(s):
    """every character is an XML 1.0 (5th ed.) `Char`: #x9 | #xA | #xD | [#x20-#xD7FF] | [#xE000-#xFFFD] | [#x10000-#x10FFFF]"""
    for ch in s:
        o = ord(ch)
        if not (o in (9, 10, 13) or 0x20 <= o <= 0xD7FF or 0xE000 <= o <= 0xFFFD or 0x10000 <= o <= 0x10FFFF):
            return False
    return True


_NAME_START = {"Ll", "Lu", "Lo", "Lt", "Nl"}
_NAME = _NAME_START | {"Mc", "Me", "Mn", "Lm", "Nd"}


def _is_ncname(s):
    if not s:
        return False
    if not (s[0] == "_" or unicodedata.category(s[0]) in _NAME_START):
        return False
    return all(unicodedata.category(ch) in _NAME or ch in "\u00b7\u0387-._" for ch in s[1:])


def xml_splittable(iri):
    """some split iri = ns + local with local an XML NCName and ns non-empty (what an RDF/XML element name needs)"""
    return any(_is_ncname(iri[j:]) for j in range(1, len(iri)))


_LANG_RE = re.compile(r"[a-zA-Z]{1,8}(-[a-zA-Z0-9]{1,8})*\Z")


def xml_expressible(spec):
    for s, p, o in spec["triples"]:
        if not xml_splittable(p[1]):
            return False, "predicate not splittable into namespace + NCName"
        if o[0] == "l" and not xml10_ok(o[1]):
            return False, "literal with a character outside XML 1.0 Char"
    return True, ""


# ------------------------------------------------------------------ shrinking


def shrink(spec):
    ts = spec["triples"]
    n = len(ts)
    # halves first, then single triples
    if n > 3:
        yield {**spec, "triples": ts[: n // 2]}
        yield {**spec, "triples": ts[n // 2:]}
    for i in range(n):
        yield {**spec, "triples": ts[:i] + ts[i + 1:]}
    if spec.get("base") is not None:
        yield {**spec, "base": None}
    if spec.get("prefixes"):
        yield {**spec, "prefixes": []}
        for i in range(len(spec["prefixes"])):
            yield {**spec, "prefixes": spec["prefixes"][:i] + spec["prefixes"][i + 1:]}
    if spec.get("bind", "rdflib") != "none":
        yield {**spec, "bind": "none"}
    for i, (s, p, o) in enumerate(ts):
        if o[0] == "l":
            lex = o[1]
            cands = []
            if len(lex) > 1:
                cands += [lex[: len(lex) // 2], lex[len(lex) // 2:]] + [lex[:k] + lex[k + 1:] for k in range(min(len(lex), 12))]
            if o[2] is not None and o[3] is None:
                cands_t = [["l", lex, None, None]]
            else:
                cands_t = []
            if o[3] is not None:
                cands_t.append(["l", lex, None, None])
            for c in cands:
                cands_t.append(["l", c, o[2], o[3]])
            for c in cands_t:
                yield {**spec, "triples": ts[:i] + [[s, p, c]] + ts[i + 1:]}
        elif o[0] == "i" and o[1] not in (NIL,) and len(o[1]) > 14 and o[1] != "http://e/o":
            yield {**spec, "triples": ts[:i] + [[s, p, ["i", "http://e/o"]]] + ts[i + 1:]}
    if spec.get("motifs"):
        yield {**spec, "motifs": []}
