"""Independent decision procedure for "equal up to renaming of blank nodes".

Used by harnesses as the oracle for graph / dataset comparison (never rdflib.compare,
which is itself under test in C14).  Works on any iterable of tuples of rdflib terms
(triples or quads; blank nodes may occur in any position, including graph names).
Algorithm: iterated signature refinement, then backtracking over candidate images,
verifying the full tuple-set equality at the leaves.  Exact (sound and complete).
C14's check cross-validates it against the Lean `isoDecide` on every run.
"""
from __future__ import annotations

from rdflib.term import BNode


def _is_b(t):
    return isinstance(t, BNode)


def _tkey(y):
    if hasattr(y, "datatype") and hasattr(y, "language"):
        return ("L", str(y), str(y.datatype), (y.language or "").lower())
    return (type(y).__name__, str(y))


def _canon_colors(tuples, bnodes):
    """colour = structural signature string, comparable across graphs"""
    col = {b: "" for b in bnodes}
    for _ in range(4):
        sig = {b: [] for b in bnodes}
        for tp in tuples:
            for i, x in enumerate(tp):
                if _is_b(x):
                    sig[x].append((i, tuple(("b", col[y]) if _is_b(y) else ("t", _tkey(y)) for y in tp)))
        import hashlib
        col = {b: hashlib.sha1(repr((col[b], sorted(sig[b]))).encode()).hexdigest()[:12] for b in bnodes}
    return col


def iso(a, b) -> bool:
    A, B = set(map(tuple, a)), set(map(tuple, b))
    if len(A) != len(B):
        return False
    ba = sorted({x for t in A for x in t if _is_b(x)})
    bb = sorted({x for t in B for x in t if _is_b(x)})
    if len(ba) != len(bb):
        return False
    ground_a = {t for t in A if not any(_is_b(x) for x in t)}
    ground_b = {t for t in B if not any(_is_b(x) for x in t)}
    if ground_a != ground_b:
        return False
    A2, B2 = A - ground_a, B - ground_b
    if not ba:
        return True
    ca, cb = _canon_colors(A2, ba), _canon_colors(B2, bb)
    from collections import Counter
    if Counter(ca.values()) != Counter(cb.values()):
        return False
    cand = {x: [y for y in bb if cb[y] == ca[x]] for x in ba}
    order = sorted(ba, key=lambda x: (len(cand[x]), x))
    # index tuples by the bnodes they mention, to check incrementally
    by_node = {x: [t for t in A2 if x in t] for x in ba}
    m, used = {}, set()
    budget = [2_000_000]

    def ok_partial(x):
        for t in by_node[x]:
            if all((not _is_b(y)) or y in m for y in t):
                if tuple(m[y] if _is_b(y) else y for y in t) not in B2:
                    return False
        return True

    def rec(i):
        budget[0] -= 1
        if budget[0] < 0:
            raise RuntimeError("iso search budget exhausted")
        if i == len(order):
            return True
        x = order[i]
        for y in cand[x]:
            if y in used:
                continue
            m[x] = y
            used.add(y)
            if ok_partial(x) and rec(i + 1):
                return True
            used.discard(y)
            del m[x]
        return False

    return rec(0)


def graph_iso(g1, g2) -> bool:
    return iso(set(g1), set(g2))
