"""C05 round g: the tie between the Lean MODEL OF RDFLIB'S N-Triples / N-Quads PARSER (lean/RV/C05/NtParser.lean,
driver commands ntpl / nqpl / ntpd / nqpd) and the real parser (rdflib/plugins/parsers/ntriples.py, nquads.py).

real_line / real_doc run the real code and print what it handed on in the driver's answer syntax; canon_model
pushes the model's answer through the `Literal` constructor (the parser's last step, C09's subject: it normalises
some lexical forms), so both sides are compared after that same constructor.  gen_lines is the line stream: legal
lines, the lenient forms rdflib accepts beyond the grammar, and malformed ones.
"""
from __future__ import annotations

import logging

from rdflib import BNode, Dataset, Graph, Literal, URIRef

logging.getLogger("rdflib.term").setLevel(logging.ERROR)  # URIRef() warns on IRIs it does not like; not an observation


def _c(s):
    return ",".join(str(ord(x)) for x in s)


def enc_term(t, labels):
    if isinstance(t, BNode):
        return "B" + _c(labels.get(t, "?" + str(t)))
    if isinstance(t, URIRef):
        return "I" + _c(t)
    if t.language is not None:
        return "G" + _c(str(t)) + "|" + _c(t.language)
    if t.datatype is not None:
        return "T" + _c(str(t)) + "|" + _c(str(t.datatype))
    return "P" + _c(str(t))


def _exc(e):
    n = type(e).__name__
    if n in ("ParserError", "ParseError"):
        return "ParseError"
    return n if n in ("ValueError", "KeyError", "OverflowError") else "Other:" + n


class _Rec:
    def __init__(self):
        self.rows = []

    def triple(self, s, p, o):
        self.rows.append((s, p, o))


def real_rows(text, nq):
    """rows handed on by the real parser for the document `text` (list of encoded rows, in order for N-Triples,
    sorted for N-Quads where they are read back from the Dataset), or the name of the exception"""
    ctx = {}
    try:
        if nq:
            from rdflib.parser import create_input_source
            from rdflib.plugins.parsers.nquads import NQuadsParser
            ds = Dataset()
            NQuadsParser().parse(create_input_source(data=text, format="nquads"), ds, bnode_context=ctx)
            labels = {v: k for k, v in ctx.items()}
            rows = []
            for s, p, o, c in ds.quads((None, None, None, None)):
                cid = c.identifier if isinstance(c, Graph) else c
                g = "-" if cid is None or cid == ds.default_context.identifier else enc_term(cid, labels)
                rows.append(" ".join(enc_term(x, labels) for x in (s, p, o)) + " " + g)
            return sorted(set(rows))
        from rdflib.plugins.parsers.ntriples import W3CNTriplesParser
        sink = _Rec()
        W3CNTriplesParser(sink, bnode_context=ctx).parsestring(text)
        labels = {v: k for k, v in ctx.items()}
        return [" ".join(enc_term(x, labels) for x in r) for r in sink.rows]
    except Exception as e:  # noqa: BLE001
        return _exc(e)


def real_line(line, nq):
    """`parseline` on one line (no CR / LF inside): through the public entry point, the line end added"""
    r = real_rows(line + "\n", nq)
    if isinstance(r, str):
        return r
    if not r:
        return "ok -"
    return "ok " + r[0] if len(r) == 1 else "ok-many " + " ; ".join(r)


def real_doc(doc, nq):
    r = real_rows(doc, nq)
    if isinstance(r, str):
        return r
    return "ok" + "".join(" ; " + x for x in r)


def _s(cps):
    return "".join(chr(int(x)) for x in cps.split(",")) if cps else ""


def _canon_term(w):
    k, body = w[0], w[1:]
    if k in "IB" or w == "-":
        return w
    if k == "P":
        t = Literal(_s(body))
    elif k == "G":
        lex, lang = body.split("|")
        t = Literal(_s(lex), lang=_s(lang))
    else:
        lex, dt = body.split("|")
        t = Literal(_s(lex), datatype=URIRef(_s(dt)))
    return enc_term(t, {})


def canon_model(ans, nq, doc):
    """the model's answer, literals pushed through rdflib's Literal constructor; N-Quads documents as sorted sets"""
    if not ans.startswith("ok"):
        return ans
    if not doc:
        if ans == "ok -":
            return ans
        return "ok " + " ".join(_canon_term(w) for w in ans[3:].split(" "))
    rows = [" ".join(_canon_term(w) for w in r.split(" ")) for r in ans[2:].split(" ; ") if r.strip()]
    if nq:
        rows = sorted(set(rows))
    return "ok" + "".join(" ; " + r for r in rows)


# ------------------------------------------------------------------ the line stream

IRI_LEGAL = ["<http://a/s>", "<http://a/p>", "<http://example.org/ü>", "<http://a/\\u00e9>", "<http://a/\\U0001F600>",
             "<urn:x:y>", "<http://a/x\\u0020y>", "<http://a/a\\u003Eb>", "<a1.b-c+d:pred>", "<http\\u003A//a/b>",
             "<http://a/b#f>", "<http://a/b?q=1&r=2>", "<http://a/ x>", "<mailto:a@b>", "<http://a/\\u005Cn>"]
IRI_PIECES = ["http://a/", "x", "é", "\\u00e9", "\\U0001F600", "{", "}", "|", "^", "`", "\\n", "\\t", "\\\"", "\\x", "\\u12",
              "\\", ":", "\\uD800", "\\uDFFF", "\\U00110000", "\\UFFFFFFFF", "\\U0010FFFF", " ", "\"", "<", " ", "\\u0020",
              "\\\\", "#f", "?q=1", "\\u005Cn", "\\U0000005Cu0041", "\\\\u0041", "a:b", "1a:", "//h", "\t", "\\u003e", "\\U0000003C",
              "\\u", "\\U1234567", "\\u00E9", "퟿", "\U0010ffff", "'", "\\'", "\\b\\f\\r"]
IRI_BROKEN = ["<http://a/s", "http://a/s", "<http://a/s >", "<>", "<rel>", "<:a>", "<http://a/\\>", "< http://a/s>", "<<http://a/s>>"]
LABELS = ["_:a", "_:a1", "_:a.b", "_:b0", "_:1", "_:é", "_:a·b", "_:a-", "_:_", "_::", "_:a:b", "_:à", "_:x-y_z.w",
          "_:a‿", "_:\U00010000"]
LABELS_WILD = ["_:a.", "_:a..", "_:a..b", "_:.a", "_:-a", "_:1.2.", "_:·a", "_:", "_x", "_", "_: a", "_:a ", "_:a.b.",
               "_:a×", "_:̀a", "_:a;", "_ :a", "_:a\U000f0000"]
LIT_PIECES = ["a", "é", " ", "\\n", "\\t", "\\\"", "\\\\", "\\'", "\\u00e9", "\\U0001F600", "\\b\\f\\r", "'", "\t", "x y", "#",
              ".", "<", ">", "@", "^^", "\u0085", "\U0001F600", "\\u0041", "\\U00000041", "\\u00E9"]
LIT_WILD = ["\\x", "\\u12", "\\uD800", "\\U00110000", "\\UFFFFFFFF", "\\", "\"", "\\u", "\\U1234567", "\\\\n", "\\\\u0041", "\\uDFFF",
            "\\u005C", "\\N", "\\ ", "\\0", "\\u005Cu0041", "\\a", "\x0b", "\\é"]
SUFFIX = ["", "", "", "@en", "@en-US", "@EN-us-1996", "@x-a", "@zh-cmn-Hans-CN", "^^<http://a/dt>", "^^<http://a/\\u00e9>",
          "^^<http://www.w3.org/2001/XMLSchema#string>", "^^<http://www.w3.org/2001/XMLSchema#token>",
          "^^<http://www.w3.org/2001/XMLSchema#integer>"]
SUFFIX_WILD = ["@", "@en-", "@en--x", "@5", "@en5", "@e-5x-y", "@-en", "@en_US", "@é", "^^<>", "^^<rel>", "^^<http://a/\\n>", "^^",
               "^^ <http://a/dt>", "@en^^<http://a/dt>", "^^<http://a/dt>@en", "^<http://a/dt>", "^^<http://a/\\U00110000>",
               "^^<http://a/{x}>", "^^_:b", "^^\"x\"", "@en-é", "^^<http://a/dt", "@en @de", "^^<:x>", "^^<\\u003A>"]
SEPS = [" ", " ", " ", "", "", "\t", "  ", " \t "]
SEPS_WILD = [" ", "\x0b", "\x0c", " ", ","]
LEAD = ["", "", "", " ", "\t ", "  "]
LEAD_WILD = ["﻿", " ", "\x0c", "."]
TAILS = [" .", " .", ".", " . ", " .\t# c", ".#c", " . # c . d", " . #é x", "\t.\t", " . #"]
TAILS_WILD = ["", " . .", " ..", " . x", " ;", " .  ", " .\x0c", " #c", " . <http://a/x>", " . \"x\"", " , .", ". .", " . "]
SPECIAL = ["", "   ", "# c", " \t# c", "#", " ", "\x0c", "<a:b>", "<a:b> <a:b>", "<a:b> <a:b> <a:b>", "<a:b> <a:b> <a:b> <a:b> .",
           "<a:b> <a:b> <a:b> <a:b> <a:b> .", "\"x\" <a:b> <a:b> .", "<a:b> \"x\" <a:b> .", "<a:b> _:p <a:b> .",
           "<a:b> <a:b> <a:b> \"g\" .", "<a:b> <a:b> \"x\" _:g .", "<a:b><a:b><a:b>.", "<a:b><a:b>\"x\"@en<a:g>.", "_:s<a:p>_:o_:g.",
           "_:s<a:p>_:o._:g.", "_:s <a:p> _:o. .", "_:a.<a:p>_:o.", "<a:b> <a:b> \"x\"^^<a:dt><a:g> .", "<a:b> a <a:b> .",
           "<a:b> <a:b> 'x' .", "<a:b> <a:b> \"\"\"x\"\"\" .", "<a:b> <a:b> 5 .", "<a:b> <a:b> true .", "@prefix a: <a:b> .",
           "<a:b> <a:b> <a:b> ; <a:b> <a:b> .", "<a:b> <a:b> <a:b> , <a:b> .", "<a:b> <a:b> [] .", "﻿<a:b> <a:b> <a:b> .",
           ". ", " .", "<a:b> <a:b> \"\" .", "<a:b> <a:b> \"\"@en .", "<a:b> <a:b> \"\"^^<a:dt> .", "<a:b> <a:b> \"\"^^<> ."]
EOLS = ["\n", "\n", "\n", "\r\n", "\r", "\n\n", "\r\r\n", "\n\r"]
LAST_WS = ["", " ", " ", "\x0c", "　 \t", "\x1c", " ", " \u0085", "​", "﻿"]


def _iri(rng, wild):
    r = rng.random()
    if r < 1 - wild:
        return rng.choice(IRI_LEGAL)
    if r < 1 - wild / 4:
        return "<" + "".join(rng.choice(IRI_PIECES) for _ in range(rng.randint(1, 4))) + ">"
    return rng.choice(IRI_BROKEN)


def _label(rng, wild):
    return rng.choice(LABELS_WILD) if rng.random() < wild else rng.choice(LABELS)


def _literal(rng, wild):
    body = "".join(rng.choice(LIT_WILD) if rng.random() < wild / 2 else rng.choice(LIT_PIECES) for _ in range(rng.randint(0, 4)))
    close = "" if rng.random() < wild / 8 else '"'
    return '"' + body + close + (rng.choice(SUFFIX_WILD) if rng.random() < wild / 1.5 else rng.choice(SUFFIX))


def _pick(rng, wild, good, bad):
    return rng.choice(bad) if rng.random() < wild / 3 else rng.choice(good)


def gen_line(rng, nq, wild):
    if rng.random() < 0.08 + wild / 8:
        return rng.choice(SPECIAL)
    r = rng.random()
    s = _iri(rng, wild) if r < 0.6 else (_label(rng, wild) if r < 0.95 else _literal(rng, wild))
    r = rng.random()
    p = _iri(rng, wild) if r < 0.95 else _label(rng, wild)
    r = rng.random()
    o = _iri(rng, wild) if r < 0.3 else (_label(rng, wild) if r < 0.5 else _literal(rng, wild))
    toks = [s, p, o]
    if nq and rng.random() < 0.6:
        r = rng.random()
        toks.append(_iri(rng, wild) if r < 0.6 else (_label(rng, wild) if r < 0.95 else _literal(rng, wild)))
    line = _pick(rng, wild, LEAD, LEAD_WILD)
    for i, t in enumerate(toks):
        line += t
        if i < len(toks) - 1:
            line += _pick(rng, wild, SEPS, SEPS_WILD)
    return line + _pick(rng, wild, TAILS, TAILS_WILD)


def gen_case(rng, tier):
    nq = rng.random() < 0.5
    n = 24 if tier == "quick" else 40
    lines = [gen_line(rng, nq, rng.choice([0.0, 0.15, 0.15, 0.4, 0.8])) for _ in range(n)]
    docs = []
    for _ in range(4):
        d = ""
        k = rng.randint(0, 4)
        for j in range(k):
            d += gen_line(rng, nq, rng.choice([0.0, 0.0, 0.0, 0.1]))
            d += rng.choice(EOLS) if (j < k - 1 or rng.random() < 0.6) else ""
        if rng.random() < 0.4:
            d += rng.choice(LAST_WS)
        docs.append(d)
    return {"kind": "ntline", "nq": nq, "lines": lines, "docs": docs}
