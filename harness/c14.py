"""C14 — graph isomorphism and canonicalisation decide equality up to blank-node renaming.  DESIGN §6 C14.

Case kinds
  {"kind":"pair", "fam":…, "how":"relabel"|"mutate"|"twin"|"indep", "g1":[[s,p,o]…], "g2":[…], "map":{l1:l2}|None}
  {"kind":"skolem", "variant":"default"|"authority"|"per-bnode"|"new-graph"|"external-basepath"|"authority-basepath", "g":[…]}
  {"kind":"hist", "make":"to_isomorphic"|"ctor", "init":[…], "ops":[[add|remove|iadd|isub|addN|parse|update, [triples]]…], "salt":k}
  {"kind":"skolem-big", "variant":…, "n":1500..2500, "hubs":1..3, "chain":bool, "salt":k}   large star forest built from the parameters
  {"kind":"exh", "n":n, "mask":m}      thorough tier: class representative of the digraphs (loops allowed) on n ≤ 4
                                       blank nodes with one predicate, against every other class of the same size
Terms are strings: "_:label", "<iri>", '"lex"', '"lex"@lang', '"lex"^^<datatype>'.

Observations (pair): the four verdicts of the implementation
    isomorphic(g1,g2) | to_isomorphic(g1)==to_isomorphic(g2) | graph_digest equal | set(to_canonical_graph(g1))==set(…g2)
  each compared with the verified Lean `isoDecide g1 g2` (or `isoCheck` with the known relabelling for pairs too
  large for the exponential search), then the three `graph_diff` clauses (model: theorem `diff_clauses` ⇒ all true),
  `canon-search-verdict` (exhaustive search model, ≤7 blank nodes) and `canon-refine-verdict` (canonical-graph equality
  predicted by the colour-refinement model `canonRefine` when its refinement is discrete on both graphs, else by the
  isomorphism verdict); the public refinement stats of to_canonical_graph are compared with the model as a diagnostic.
Property oracle (viol): `harness/isoutil.iso` (independent Python search), cross-validated inside every case against
the Lean driver; a disagreement between the two oracles is a harness error, never a violation.
"""
from __future__ import annotations

import contextlib
import itertools
import os
import signal
import subprocess
import time
import warnings

import core
import isoutil
from rdflib import BNode, Graph, Literal, URIRef
from rdflib.compare import graph_diff, isomorphic, similar, to_canonical_graph, to_isomorphic

warnings.filterwarnings("ignore", category=DeprecationWarning)
import logging  # noqa: E402
warnings.filterwarnings("ignore", message="Parsing weird boolean")
logging.getLogger("rdflib.term").setLevel(logging.ERROR)   # "… does not look like a valid URI" for odd blank-node ids

ID = "C14"
LEAN_TARGETS = ["RV.C14.Props", "RV.C14.Audit"]
AUDIT = "RV/C14/Audit.lean"
DRIVER = "drv_c14"
N_EXH = None  # number of exhaustive class cases (computed lazily)
CASES = {"quick": 380, "thorough": 12000, "search": 6000}
RULE = ("pairs (g, relabel+shuffle g), (g, degree-preserving edge switch / edge move / predicate or ground-term change / "
        "near-miss literal edit (text case, tag, tag case, plain vs xsd:string, leading zero) of g), "
        "known non-isomorphic regular twins, over cycles, bidirected cycles, K_{m,n}, disjoint (non-)identical components, "
        "prisms, cube, Moebius ladders, Petersen, CFI(C3), rdf lists, star-of-stars, random sparse graphs mixing IRIs / "
        "literals / bnodes; skolemise->de-skolemise round trips (default / custom authority / custom basepath incl. the "
        "external genid path; literals whose text is a skolem IRI, genid IRIs in predicate position, genid IRIs already "
        "present = known finding; two star forests of 1500-2500 blank nodes per run whose hubs recur >1000 nodes apart); "
        "histories on one IsomorphicGraph (compare, mutate through add / remove / += / -= / addN / parse / update, compare "
        "again with a fresh to_isomorphic of the same content and with a same-size mutant); pairs whose two graphs share "
        "an identifier (same IRI / blank-node identifier on two stores, named graph of two datasets, one and the same "
        "object); skolemize authorities with paths / ports / userinfo and absolute or relative basepaths; "
        "thorough adds every pair of digraph classes on <=4 bnodes. "
        "non-trivial = some blank nodes are not separated by colour refinement alone (symmetric structure) or, for skolem "
        "cases, the graph has >=2 blank nodes; distinct = distinct (kind, family, how, colour-class profile, sizes)")
ASSUMPTIONS = ["blank nodes do not occur in predicate position (not RDF)",
               "blank-node ids are arbitrary strings (Python API) incl. '/', '#', '?', '%', ';', spaces, '<', empty; ids with a "
               "'.'/'..' path segment or containing '/.well-known/genid/' are known finding C14-K2 (skolemize cannot "
               "encode them faithfully); the Lean round-trip theorems assume the urllib contract LabelOk per label",
               "SHA-256 sums used as colour / graph digests do not collide on the generated inputs"]
TRUSTED = ["harness/c14.py generators, term numbering and canonicalisation", "driverHashes of RV/C14/Search.lean do not collide "
           "on the compared graphs (a collision can only produce `none` or a wrong verdict of the canon op, which is "
           "cross-checked against isoutil and isoDecide in every case)", "sumHash/termHash of RV/C14/Canon.lean do not collide on the compared graphs (a collision can only turn a "
           "canon-refine-verdict into a disagreement, i.e. a false alarm)", "lean/RV/C14/Drive.lean line protocol and "
           "string interning", "harness/isoutil.py (cross-validated against the verified isoDecide on every case "
           "small enough for the Lean search, and against isoCheck certificates for relabelled pairs)",
           "urllib.parse.urljoin/urlparse on skolem IRIs (contract stated as hypothesis UrlContract in Props.lean)"]

LEAN_MAX = int(os.environ.get("C14_LEAN_MAX", "8"))   # max blank nodes per graph sent to the exponential Lean search
IMPL_TIMEOUT = float(os.environ.get("C14_IMPL_TIMEOUT", "10"))

P, Q = "<http://e/p>", "<http://e/q>"
TYPE = "<http://www.w3.org/1999/02/22-rdf-syntax-ns#type>"
FIRST = "<http://www.w3.org/1999/02/22-rdf-syntax-ns#first>"
REST = "<http://www.w3.org/1999/02/22-rdf-syntax-ns#rest>"
NIL = "<http://www.w3.org/1999/02/22-rdf-syntax-ns#nil>"
XSD = "http://www.w3.org/2001/XMLSchema#"
GROUND = ["<http://e/a>", "<http://e/b>", "<http://e/c>", '""', '"0"^^<%sinteger>' % XSD, '"false"^^<%sboolean>' % XSD,
          '"x"', '"x"@en', '"x"@EN', "<x>", '"1"', '"1"^^<%sinteger>' % XSD, '"cb0"']
GENID_R = "/.well-known/genid/rdflib/"
GENID = "/.well-known/genid/"


# ---------------------------------------------------------------- terms

def T(s):
    if s.startswith("_:"):
        return BNode(s[2:])
    if s.startswith("<"):
        return URIRef(s[1:-1])
    k = s.rfind('"')
    lex, rest = s[1:k], s[k + 1:]
    if rest.startswith("@"):
        return Literal(lex, lang=rest[1:])
    if rest.startswith("^^<"):
        return Literal(lex, datatype=URIRef(rest[3:-1]))
    return Literal(lex)


def is_b(s):
    return type(s) is str and s.startswith("_:")   # rdflib terms are str subclasses: only plain strings are case terms


def mk_graph(triples):
    g = Graph()
    for s, p, o in triples:
        g.add((T(s), T(p), T(o)))
    return g


VIEWS = ["agg-disjoint", "agg-overlap", "agg-overlap", "agg-empty-member", "conjunctive", "simplememory", None]


def mk_view(ts, view):
    """one operand as a plain Graph, a ReadOnlyGraphAggregate over disjoint / overlapping member graphs (its __len__
    sums the members, its iteration de-duplicates), a ConjunctiveGraph whose triples sit in two overlapping named
    graphs (union view), or a Graph on the SimpleMemory store"""
    from rdflib import ConjunctiveGraph
    from rdflib.graph import ReadOnlyGraphAggregate
    n = len(ts)
    if view is None:
        return mk_graph(ts)
    if view == "simplememory":
        g = Graph(store="SimpleMemory")
        for t in ts:
            g.add(tuple(T(x) for x in t))
        return g
    if view == "agg-disjoint":
        parts = [ts[::2], ts[1::2]]
    elif view == "agg-empty-member":
        parts = [ts, [], ts[: n // 2]]
    else:
        parts = [ts[: (2 * n + 2) // 3], ts[n // 3:]]
    if view == "conjunctive":
        cg = ConjunctiveGraph()
        for k, part in enumerate(parts):
            ctx = cg.get_context(URIRef("http://e/ctx%d" % k))
            for t in part:
                ctx.add(tuple(T(x) for x in t))
        return cg
    return ReadOnlyGraphAggregate([mk_graph(part) for part in parts])


def mk_pair_graphs(case):
    """the two graphs of a pair case; `ident` says how they are made: anonymous (None), the same explicit IRI or blank
    node identifier on two stores, the named graph of the same name in two datasets, or one and the same object"""
    ident = case.get("ident")
    if case.get("views"):
        return mk_view(case["g1"], case["views"][0]), mk_view(case["g2"], case["views"][1])
    if ident in (None, "anonymous"):
        return mk_graph(case["g1"]), mk_graph(case["g2"])
    if ident == "same-object":
        g = mk_graph(case["g1"])
        return g, g
    name = BNode("graphname") if ident == "same-bnode" else URIRef("http://e/graph/name")
    out = []
    for ts in (case["g1"], case["g2"]):
        if ident == "dataset":
            from rdflib import Dataset
            g = Dataset().graph(name)
        else:
            g = Graph(identifier=name)
        for s_, p_, o_ in ts:
            g.add((T(s_), T(p_), T(o_)))
        out.append(g)
    return out[0], out[1]


def bn_of(triples):
    return sorted({x for t in triples for x in t if is_b(x)})


# ---------------------------------------------------------------- structures (abstract: ints = blank nodes)

def und(u, v, p=P):
    return [[u, p, v], [v, p, u]]


def cycle(n, bi=False, off=0, p=P):
    out = []
    for i in range(n):
        a, b = off + i, off + (i + 1) % n
        out += und(a, b, p) if bi else [[a, p, b]]
    return out


def kmn(m, n, bi=False):
    out = []
    for i in range(m):
        for j in range(n):
            out += und(i, m + j) if bi else [[i, P, m + j]]
    return out


def shift(g, off):
    return [[s + off if isinstance(s, int) else s, p, o + off if isinstance(o, int) else o] for s, p, o in g]


def nnodes(g):
    xs = [x for t in g for x in (t[0], t[2]) if isinstance(x, int)]
    return max(xs) + 1 if xs else 0


def disjoint(*parts):
    out, off = [], 0
    for g in parts:
        out += shift(g, off)
        off += nnodes(g)
    return out


def prism(n):
    out = cycle(n, True) + cycle(n, True, off=n)
    for i in range(n):
        out += und(i, n + i)
    return out


def mobius(n):  # Moebius ladder on 2n nodes
    out = cycle(2 * n, True)
    for i in range(n):
        out += und(i, i + n)
    return out


def petersen():
    out = cycle(5, True)
    for i in range(5):
        out += und(i, 5 + i) + und(5 + i, 5 + (i + 2) % 5)
    return out


def cfi_c3(twist):
    """Cai-Fuerer-Immerman construction over the triangle: vertex gadgets {even subsets of the 2 incident edges},
    edge nodes (e,0),(e,1); twisting one edge gives the non-isomorphic companion.  12 nodes."""
    edges = [(0, 1), (1, 2), (0, 2)]
    idx, out = {}, []

    def node(k):
        return idx.setdefault(k, len(idx))
    for v in range(3):
        inc = [e for e in edges if v in e]
        for sub in ((), tuple(inc)):
            m = node(("m", v, sub))
            for e in inc:
                bit = 1 if e in sub else 0
                if twist and e == edges[0] and v == e[0]:
                    bit ^= 1
                out += und(m, node(("e", e, bit)))
    return out


def perm_graph(rng, n, p=P):
    pi = list(range(n))
    rng.shuffle(pi)
    return [[i, p, pi[i]] for i in range(n)]


def rand_regular(rng, n, d):
    out = []
    for _ in range(d):
        pi = list(range(n))
        rng.shuffle(pi)
        for i in range(n):
            if i != pi[i]:
                for t in und(i, pi[i]):
                    if t not in out:
                        out.append(t)
    return out


def k4():
    return [e for i in range(4) for j in range(i + 1, 4) for e in und(i, j)]


def rdflists(k, items):
    out, n = [], 0
    for _ in range(k):
        for j, it in enumerate(items):
            out.append([n, FIRST, it])
            out.append([n, REST, n + 1 if j + 1 < len(items) else NIL])
            n += 1
    return out


def star_of_stars(k, m):
    out, n = [], 1
    for _ in range(k):
        arm = n
        n += 1
        out.append([0, P, arm])
        for _ in range(m):
            out.append([arm, P, n])
            n += 1
    return out


def random_sparse(rng):
    nb = rng.randint(0, 7)
    nt = rng.randint(1, 12)
    preds = [P, Q][: rng.choice([1, 2])]
    gr = rng.sample(GROUND, rng.randint(1, 4))
    subs = list(range(nb)) + [x for x in gr if x.startswith("<")]
    out = []
    for _ in range(nt):
        s = rng.choice(subs) if subs else "<http://e/a>"
        o = rng.choice(list(range(nb)) + gr) if rng.random() < 0.75 or not nb else rng.choice(range(nb))
        t = [s, rng.choice(preds), o]
        if t not in out:
            out.append(t)
    return out


# ---- vertex-transitive / strongly regular blank-node graphs (edge lists): refinement separates nothing, the search
# keeps several equal-trace branches per level and recurses below them (seeded C14-16: automorphisms found in one branch
# reused in a sibling branch show only on these).  Whether a wrong pruning shows depends on the hash VALUES, hence the
# pool of predicates.

def _cayley(n1, n2, conn):
    idx = lambda a, b: (a % n1) * n2 + (b % n2)   # noqa: E731
    e = set()
    for a in range(n1):
        for b in range(n2):
            for da, db in conn:
                u, v = idx(a, b), idx(a + da, b + db)
                e.add((min(u, v), max(u, v)))
    return sorted(e)


def _gpetersen(n, k):
    return [(i, (i + 1) % n) for i in range(n)] + [(i, n + i) for i in range(n)] + [(n + i, n + (i + k) % n) for i in range(n)]


def _lcf(n, pattern):
    e = set()
    for i in range(n):
        for j in ((i + 1) % n, (i + pattern[i % len(pattern)]) % n):
            e.add((min(i, j), max(i, j)))
    return sorted(e)


SYM_EDGES = {
    "heawood": [(i, (i + 1) % 14) for i in range(14)] + [(i, (i + 5) % 14) for i in range(0, 14, 2)],
    "shrikhande": _cayley(4, 4, [(1, 0), (0, 1), (1, 1)]),
    "rook4x4": _cayley(4, 4, [(1, 0), (2, 0), (3, 0), (0, 1), (0, 2), (0, 3)]),
    "moebius-kantor": _gpetersen(8, 3),
    "pappus": _lcf(18, [5, 7, -7, 7, -7, -5]),
    "desargues": _gpetersen(10, 3),
    "paley13": [(i, j) for i in range(13) for j in range(i + 1, 13) if (j - i) % 13 in {1, 3, 4, 9, 10, 12}],
    "q4": [(i, i ^ (1 << b)) for i in range(16) for b in range(4) if i < i ^ (1 << b)],
    "clebsch": [(i, i ^ (1 << b)) for i in range(16) for b in range(4) if i < i ^ (1 << b)] + [(i, i ^ 15) for i in range(16) if i < i ^ 15],
}
SYM_PREDS = ["<http://example.org/p>", "<http://example.org/knows>", P, Q, "<http://xmlns.com/foaf/0.1/knows>",
             "<http://purl.org/dc/terms/relation>", "<http://www.w3.org/2002/07/owl#sameAs>", "<urn:x>"]


def sym_graph(name, pred):
    return [t for u, v in SYM_EDGES[name] for t in und(u, v, pred)]


# ---- literals whose rdflib ORDER is not a consistent total order (numerics compare by value, unlike datatypes by
# datatype IRI: C07-K4 / C08-K1), as objects of ONE subject+predicate: anything that sorts triples (compare.similar)
# depends on the insertion order (seeded C14-17)
_X = "<%s" % XSD
LIT_CLUSTERS = [
    ['"5"^^%sdecimal>' % _X, '"P1D"^^%sduration>' % _X, '"1"^^%sinteger>' % _X],
    ['"1"^^%sinteger>' % _X, '"1.0"^^%sdecimal>' % _X],
    ['"1"^^%sinteger>' % _X, '"1.0"^^%sdecimal>' % _X, '"1"^^%sdouble>' % _X, '"01"^^%sinteger>' % _X],
    ['""', '"1"^^%sunsignedShort>' % _X, '"10"^^%snonNegativeInteger>' % _X],
    ['"1"^^%sunsignedInt>' % _X, '"a"', '"5"^^%sinteger>' % _X],
    ['"2"^^%sfloat>' % _X, '"2"^^%sinteger>' % _X, '"2.0"^^%sdecimal>' % _X, '"true"^^%sboolean>' % _X, '"b"@en'],
    ['"5"^^%sdecimal>' % _X, '"P1D"^^%sduration>' % _X, '"1"^^%sinteger>' % _X, '"2001-01-01"^^%sdate>' % _X, '"x"'],
]


def lit_order_graph(rng):
    """1-3 blank nodes (a chain or isolated), each with one or two clusters under one predicate"""
    n = rng.randint(1, 3)
    g = [[i, P, i + 1] for i in range(n - 1)] if rng.random() < 0.6 else []
    for i in range(n):
        for _ in range(rng.randint(1, 2)):
            cl = rng.choice(LIT_CLUSTERS)
            g += [[i, Q, x] for x in rng.sample(cl, rng.randint(2, len(cl)))]
    if rng.random() < 0.3:    # the same inconsistent cluster in ground triples
        g += [["<http://e/a>", Q, x] for x in rng.choice(LIT_CLUSTERS)]
    if n == 1 and not g:
        g = [[0, Q, x] for x in LIT_CLUSTERS[0]]
    out = []
    for t in g:
        if t not in out:
            out.append(t)
    return out


FAMILIES = {
    "symmetric": lambda r: sym_graph(r.choice(sorted(SYM_EDGES)), r.choice(SYM_PREDS)),
    "lit-order": lit_order_graph,
    "cycle": lambda r: cycle(r.randint(3, 8), r.random() < 0.5),
    "cycle-big": lambda r: cycle(r.randint(9, 12), r.random() < 0.5),
    "kmn": lambda r: kmn(*r.choice([(1, 3), (2, 2), (2, 3), (3, 3), (2, 4), (4, 4), (3, 4), (2, 5)]), r.random() < 0.5),
    "copies": lambda r: (lambda n, k, bi: disjoint(*[cycle(n, bi)] * k))(*r.choice([(3, 2), (4, 2), (3, 3), (2, 3), (5, 2), (2, 4)]),
                                                                        r.random() < 0.5),
    "mixed-cycles": lambda r: (lambda bi, ns: disjoint(*[cycle(n, bi) for n in ns]))(
        r.random() < 0.5, r.choice([(3, 4), (3, 5), (4, 5), (3, 3, 4), (3, 4, 5), (2, 3), (2, 2, 3), (3, 6), (4, 4, 3)])),
    # one colour class, several orbits: directed cycles of pairwise different lengths (1 = self-loop, 2 = 2-cycle)
    "orbits": lambda r: disjoint(*[cycle(n) for n in r.sample([1, 2, 3, 4, 5], r.choice([3, 3, 4]))]),
    "orbits-regular": lambda r: disjoint(*r.sample([k4(), prism(3), kmn(3, 3, True), cycle(3, True), cycle(4, True)],
                                                   r.choice([2, 2, 3]))),
    # every node has in/out-degree 1 per predicate: refinement alone separates nothing, one individualisation makes
    # the colouring discrete after a single round (the colour hashes then say little about the structure)
    "perm": lambda r: perm_graph(r, r.randint(4, 9)),
    "perm2": lambda r: (lambda n: perm_graph(r, n, P) + perm_graph(r, n, Q))(r.randint(4, 7)),
    "perm2-uneven": lambda r: perm_graph(r, r.randint(4, 7), P) + perm_graph(r, r.randint(3, 6), Q),
    "rand-regular": lambda r: rand_regular(r, r.randint(5, 9), r.choice([1, 2, 2])),
    # near-miss literals ("Foo"@en / "foo"@en / "Foo"@EN / "Foo" / "Foo"^^xsd:string / "1" / "01") on blank nodes and in
    # ground triples: the digest hashes the TEXT of terms
    "literals": lambda r: with_literals(r, r.choice([cycle(r.randint(2, 5)), perm_graph(r, r.randint(3, 5)), kmn(1, 3),
                                                     star_of_stars(2, 1), []])),
    "prism": lambda r: prism(r.choice([3, 3, 4, 4, 5])),
    "mobius": lambda r: mobius(r.choice([3, 4, 4, 5])),
    "petersen": lambda r: petersen(),
    "cfi": lambda r: cfi_c3(r.random() < 0.5),
    "lists": lambda r: rdflists(r.randint(1, 3), r.choice([['"x"'], ['"x"', '"x"'], ['"x"', '"1"', '"x"'], ["<http://e/a>", '""']])),
    "stars": lambda r: star_of_stars(*r.choice([(2, 2), (2, 3), (3, 2), (3, 1), (4, 1), (2, 1)])),
    "sparse": random_sparse,
    "ground": lambda r: [[r.choice(GROUND[:3]), r.choice([P, Q]), r.choice(GROUND)] for _ in range(r.randint(0, 4))],
}
FAM_WEIGHTS = [("cycle", 12), ("cycle-big", 3), ("kmn", 9), ("copies", 10), ("mixed-cycles", 10), ("orbits", 9), ("orbits-regular", 3), ("perm", 6), ("perm2", 14), ("perm2-uneven", 4),
               ("rand-regular", 6), ("literals", 16), ("prism", 7), ("mobius", 6),
               ("petersen", 3), ("cfi", 4), ("lists", 6), ("stars", 7), ("sparse", 18), ("ground", 3), ("symmetric", 1), ("lit-order", 8)]
TWINS = [
    ("c6|2c3", lambda: cycle(6, True), lambda: disjoint(cycle(3, True), cycle(3, True))),
    ("dc6|2dc3", lambda: cycle(6), lambda: disjoint(cycle(3), cycle(3))),
    ("c8|2c4", lambda: cycle(8, True), lambda: disjoint(cycle(4, True), cycle(4, True))),
    ("c8|c3c5", lambda: cycle(8), lambda: disjoint(cycle(3), cycle(5))),
    ("c7|c3c4", lambda: cycle(7, True), lambda: disjoint(cycle(3, True), cycle(4, True))),
    ("prism3|k33", lambda: prism(3), lambda: kmn(3, 3, True)),
    ("cube|mobius4", lambda: prism(4), lambda: mobius(4)),
    ("petersen|prism5", petersen, lambda: prism(5)),
    ("cfi|cfi-twisted", lambda: cfi_c3(False), lambda: cfi_c3(True)),
    ("c3c4c5|c5c7", lambda: disjoint(cycle(3), cycle(4), cycle(5)), lambda: disjoint(cycle(5), cycle(7))),
    ("c4c4c3|c3c3c5", lambda: disjoint(cycle(4, True), cycle(4, True), cycle(3, True)),
     lambda: disjoint(cycle(3, True), cycle(3, True), cycle(5, True))),
]


XS = "<" + XSD + "string>"
XI = "<" + XSD + "integer>"
NEAR_LITS = ['"Foo"@en', '"foo"@en', '"Foo"@EN', '"Foo"@de', '"Foo"', '"foo"', '"Foo"^^' + XS, '"1"^^' + XI, '"01"^^' + XI,
             '"FOO"@en-GB', '"Foo"@en-gb', '"Foo"@en-GB', '"Straße"@de', '"STRASSE"@de']


def is_lit(x):
    return type(x) is str and x.startswith('"')


def near_miss(rng, lit):
    """(variant, kind): a literal that differs from `lit` as little as possible.  `tagcase` gives an EQUAL rdflib term
    (graphs stay isomorphic), every other kind a different term"""
    k = lit.rfind('"')
    lex, rest = lit[1:k], lit[k + 1:]
    opts = []
    if rest.startswith("@"):
        opts += [('"%s"@%s' % (lex.swapcase(), rest[1:]), "textcase"), ('"%s"@%s' % (lex.lower(), rest[1:]), "textcase"),
                 ('"%s"@%s' % (lex, "de" if not rest[1:].lower().startswith("de") else "en"), "othertag"),
                 ('"%s"@%s' % (lex, rest[1:].swapcase()), "tagcase"), ('"%s"' % lex, "droptag")]
    elif rest == "":
        opts += [('"%s"^^%s' % (lex, XS), "plain-vs-xsdstring"), ('"%s"' % lex.swapcase(), "textcase"), ('"%s"@en' % lex, "addtag")]
    else:
        opts += [('"0%s"%s' % (lex, rest), "leading-zero"), ('"%s"' % lex, "droptype"), ('"%s"%s' % (lex.swapcase(), rest), "textcase")]
    opts = [(v, kd) for v, kd in opts if v != lit]
    return rng.choice(opts)


def with_literals(rng, g):
    """attach near-miss-prone literals to the nodes and to an IRI (ground triples)"""
    g = [list(t) for t in g]
    n = nnodes(g)
    same = rng.random() < 0.5
    l0 = rng.choice(NEAR_LITS)
    for i in range(n):
        g.append([i, Q, l0 if same else rng.choice(NEAR_LITS)])
    for _ in range(rng.randint(1, 2)):
        t = ["<http://e/a>", Q, rng.choice(NEAR_LITS)]
        if t not in g:
            g.append(t)
    return g


NEAR_KINDS = [('"Foo"@en', "textcase"), ('"Straße"@de', "textcase"), ('"Foo"@en', "othertag"), ('"Foo"@en-GB', "tagcase"),
              ('"Foo"', "plain-vs-xsdstring"), ('"1"^^' + XI, "leading-zero"), ('"Foo"', "textcase"), ('"Foo"@en', "droptag")]


def gen_nearmiss(rng, spec):
    """every run: one pair per kind of near-miss literal edit, on a blank node or in a ground triple"""
    lit, kind = spec
    v = None
    while v is None:
        cand, kd = near_miss(rng, lit)
        v = cand if kd == kind else None
    base = rng.choice([cycle(rng.randint(2, 4)), perm_graph(rng, 3), kmn(1, 2), []])
    n = nnodes(base)
    a = [list(t) for t in base] + [[i, Q, lit] for i in range(n)] + [["<http://e/a>", Q, lit]]
    where = rng.randrange(n + 1)
    b = [list(t) for t in a]
    k = len(base) + where                      # one literal occurrence edited: on node `where` or in the ground triple
    b[k] = [b[k][0], b[k][1], v]
    g1, _ = render(rng, a)
    g2, _ = render(rng, b)
    return {"kind": "pair", "fam": "literals", "how": "mutate-lit-" + kind, "g1": g1, "g2": g2, "map": None}


def decorate(rng, g):
    """break or keep symmetry with ground properties on the nodes"""
    n = nnodes(g)
    r = rng.random()
    if not n or r < 0.55:
        return g
    g = [list(t) for t in g]
    if r < 0.7:       # same class on every node: symmetry kept
        g += [[i, TYPE, "<http://e/C>"] for i in range(n)]
    elif r < 0.85:    # one or two marked nodes
        for i in rng.sample(range(n), min(n, rng.randint(1, 2))):
            g.append([i, Q, rng.choice(GROUND)])
    else:             # incoming edge from an IRI to some nodes
        for i in rng.sample(range(n), min(n, rng.randint(1, 3))):
            g.append(["<http://e/a>", rng.choice([P, Q]), i])
    return g


def mutate(rng, g):
    """returns (mutated copy, how) — mostly degree-preserving switches inside the structure"""
    g = [list(t) for t in g]
    bb = [t for t in g if isinstance(t[0], int) and isinstance(t[2], int)]
    n = nnodes(g)
    have = {tuple(t) for t in g}
    lits = [t for t in g if is_lit(t[2])]
    if lits and rng.random() < 0.45:
        t = rng.choice(lits)
        v, kd = near_miss(rng, t[2])
        new = [t[0], t[1], v]
        if tuple(new) not in have and (T(v) == T(t[2]) or not any(T(v) == T(x[2]) and x[:2] == t[:2] for x in lits)):
            return [x for x in g if x != t] + [new], "lit-" + kd
    for _try in range(30):
        r = rng.random()
        if r < 0.45 and len(bb) >= 2:
            t1, t2 = rng.sample(bb, 2)
            (a, p, b), (c, p2, d) = t1, t2
            if p != p2:
                continue
            sym = (b, p, a) in have and (d, p, c) in have
            new = [[a, p, d], [c, p, b]]
            if any(tuple(x) in have for x in new) or a == c or b == d:
                continue
            if sym:
                if a == d or c == b:
                    continue
                new += [[d, p, a], [b, p, c]]
                old = [t1, t2, [b, p, a], [d, p, c]]
                if any(tuple(x) in have for x in new) or len({tuple(x) for x in old}) < 4:
                    continue
            else:
                old = [t1, t2]
            return [t for t in g if t not in old] + new, "switch"
        if r < 0.65 and bb and n >= 2:
            t = rng.choice(bb)
            new = list(t)
            new[rng.choice([0, 2])] = rng.randrange(n)
            if tuple(new) in have:
                continue
            return [x for x in g if x != t] + [new], "move"
        if r < 0.75 and bb:
            t = rng.choice(bb)
            new = [t[2], t[1], t[0]]
            if tuple(new) in have:
                continue
            return [x for x in g if x != t] + [new], "flip"
        if r < 0.87 and g:
            t = rng.choice(g)
            new = [t[0], Q if t[1] != Q else P, t[2]]
            if tuple(new) in have:
                continue
            return [x for x in g if x != t] + [new], "pred"
        if g:
            t = rng.choice(g)
            new = [t[0], t[1], rng.choice(GROUND + ([rng.randrange(n)] if n else []))]
            if tuple(new) in have:
                continue
            return [x for x in g if x != t] + [new], "object"
    return g + [["<http://e/a>", P, "<http://e/zz>"]], "extra"


LABEL_STYLES = [lambda i, r: "b%d" % i, lambda i, r: "N%032x" % r.getrandbits(128), lambda i, r: "cb%d" % i,
                lambda i, r: "%d" % (i * 7 + 1), lambda i, r: "x.%d-y" % i, lambda i, r: "n%03d" % (997 * (i + 1) % 1000)]


def render(rng, g, style=None, shuffle=True):
    """abstract graph -> term-string triples with fresh labels; returns (triples, labels list)"""
    n = nnodes(g)
    style = style or rng.choice(LABEL_STYLES)
    labels = []
    while len(set(labels)) < n or len(labels) < n:
        labels = [style(i, rng) for i in range(n)]
        if len(set(labels)) < n:
            style = LABEL_STYLES[1]
    perm = list(range(n))
    rng.shuffle(perm)
    lab = ["_:" + labels[perm[i]] for i in range(n)]
    out = []
    for s, p, o in g:
        t = [lab[s] if isinstance(s, int) else s, p, lab[o] if isinstance(o, int) else o]
        if t not in out:
            out.append(t)
    if shuffle:
        rng.shuffle(out)
    return out, lab


def pick_family(rng):
    tot = sum(w for _f, w in FAM_WEIGHTS)
    x = rng.randrange(tot)
    for f, w in FAM_WEIGHTS:
        if x < w:
            return f
        x -= w


# ---------------------------------------------------------------- exhaustive classes (thorough)

_CLASSES = None


def classes():
    """class representatives (n, mask) of digraphs with loops on n<=4 nodes, grouped later by (n, edges, loops)"""
    global _CLASSES
    if _CLASSES is None:
        out = []
        for n in (1, 2, 3, 4):
            bits = n * n
            perms = []
            for pm in itertools.permutations(range(n)):
                perms.append([pm[b // n] * n + pm[b % n] for b in range(bits)])
            seen = bytearray(1 << bits)
            for m in range(1 << bits):
                if seen[m]:
                    continue
                ones = [b for b in range(bits) if m >> b & 1]
                for pb in perms:
                    seen[sum(1 << pb[b] for b in ones)] = 1
                loops = sum(1 for i in range(n) if m >> (i * n + i) & 1)
                out.append((n, len(ones), loops, m))
        out.sort()
        _CLASSES = out
    return _CLASSES


def mask_graph(n, m):
    return [[b // n, P, b % n] for b in range(n * n) if m >> b & 1]


# ---------------------------------------------------------------- cases

# ---------------------------------------------------------------- histories on one IsomorphicGraph

H_GROUND = ["<http://e/a>", "<http://e/b>", '"x"', '"0"^^<%sinteger>' % XSD, '""', '"x"@en']
H_OPS = ["add", "remove", "iadd", "isub", "addN", "parse", "update"]


def gen_hist(rng):
    """an IsomorphicGraph that is compared, mutated through every mutating API, and compared again"""
    fam = rng.choice(["cycle", "perm2", "sparse", "stars", "orbits", "kmn"])
    a = FAMILIES[fam](rng)
    while nnodes(a) > 6 or len(a) > 14:
        a = FAMILIES[rng.choice(["cycle", "perm2", "sparse"])](rng)
    init, lab = render(rng, a, style=LABEL_STYLES[0])
    init = [t for t in init if all(x != "<x>" for x in t)]
    content = [list(t) for t in init]
    pool = list(lab) + ["_:n%d" % k for k in range(2)]
    ops = []
    for k in range(rng.randint(2, 5)):
        kind = rng.choice(H_OPS)

        def new_triple(doc=False):
            nodes = (["_:d0", "_:d1"] if doc else pool) + ["<http://e/a>"]
            s_ = rng.choice(nodes)
            o_ = rng.choice(nodes + H_GROUND) if rng.random() < 0.7 else rng.choice(H_GROUND)
            return [s_, rng.choice([P, Q]), o_]
        if kind in ("remove", "isub"):
            # blank nodes that came from a parsed / inserted document have labels only the graph knows
            removable = [t for t in content if not any(is_b(x) and x.startswith("_:p") for x in t)]
            if not removable:
                kind = "add"
            else:
                ts = rng.sample(removable, min(len(removable), 1 if kind == "remove" else rng.randint(1, 3)))
                if kind == "isub" and rng.random() < 0.3:
                    ts.append(new_triple())      # subtracting an absent triple changes nothing
        if kind == "add":
            # re-adding a triple that is already there must change nothing; like remove / -=, only triples whose blank
            # nodes the caller can name (not those of a parsed / inserted document) can be offered
            known = [t for t in content if not any(is_b(x) and x.startswith("_:p") for x in t)]
            ts = [rng.choice(known) if known and rng.random() < 0.15 else new_triple()]
        elif kind in ("iadd", "addN"):
            ts = [new_triple() for _ in range(rng.randint(1, 3))]
        elif kind in ("parse", "update"):
            ts = [new_triple(doc=True) for _ in range(rng.randint(1, 2))]
        ops.append([kind, ts])
        content = hist_apply(content, kind, ts, k)
    return {"kind": "hist", "fam": fam, "make": rng.choice(["to_isomorphic", "ctor"]), "init": init, "ops": ops,
            "salt": rng.randrange(10 ** 6)}


def hist_apply(content, kind, ts, k):
    """reference semantics of one mutating call on the triple set (blank nodes of a parsed / inserted document are
    fresh: renamed with a prefix unique to the step)"""
    content = [list(t) for t in content]
    if kind in ("parse", "update"):
        ts = [[("_:p%d." % k + x[2:]) if is_b(x) else x for x in t] for t in ts]
    if kind in ("remove", "isub"):
        return [t for t in content if t not in ts]
    for t in ts:
        if t not in content:
            content.append(list(t))
    return content


def hist_steps(case):
    """for the initial state and after every op: (reference content, relabelled+shuffled copy, same-size mutant)"""
    out, content = [], [list(t) for t in case["init"]]
    states = [content]
    for k, (kind, ts) in enumerate(case["ops"]):
        content = hist_apply(content, kind, ts, k)
        states.append(content)
    for k, ref in enumerate(states):
        rng = core.case_rng(case["salt"], ID, k, "hist")
        bn = bn_of(ref)
        perm = list(range(len(bn)))
        rng.shuffle(perm)
        ren = {b: "_:c%d" % perm[j] for j, b in enumerate(bn)}
        same = [[ren.get(x, x) for x in t] for t in ref]
        rng.shuffle(same)
        other = None
        if same:
            other = [list(t) for t in same]
            j = rng.randrange(len(other))
            other[j] = [other[j][0], other[j][1], "<http://e/zz%d>" % k]
            if other[j] in same:
                other = None
        out.append((ref, same, other))
    return out


def nt_doc(ts):
    return "".join("%s %s %s .\n" % tuple(t) for t in ts)


IDENTS = [None, None, None, "same-iri", "same-iri", "same-bnode", "dataset", "same-object"]


def with_ident(rng, case):
    if rng.random() < 0.22:
        v1, v2 = rng.choice(VIEWS), rng.choice(VIEWS)
        if v1 is None and v2 is None:
            v1 = "agg-overlap"
        case["ident"] = None
        case["views"] = [v1, v2]
        return case
    ident = rng.choice(IDENTS)
    if ident == "same-object":
        case = {**case, "g2": [list(t) for t in case["g1"]], "how": "same-object", "map": None}
    case["ident"] = ident
    return case


def gen_case(rng, tier, i):
    case = gen_case0(rng, tier, i)
    return with_ident(rng, case) if case["kind"] == "pair" else case


# fixed slots of every run: symmetric graphs with the predicates for which a wrong pruning is likely to show, and the
# inconsistent literal clusters (several draws each: the outcome depends on insertion order / the process hash seed)
SYM_FIXED = {13: ("heawood", "<http://example.org/p>", 4), 14: ("shrikhande", "<http://example.org/p>", 3),
             15: ("rook4x4", "<http://e/q>", 3)}
SYM_CHEAP = {"heawood", "moebius-kantor", "paley13", "q4"}
CASE_TIMEOUT_S = 45.0   # core's per-case watchdog (CPU seconds); every rdflib call keeps its own 10 s CPU guard (`call`)
LIT_FIXED = {16: 0, 17: 1, 18: 2, 19: 0, 20: 1, 21: 3, 22: 4, 23: 0, 24: 2}


# non-isomorphic twins with equal parameters among the vertex-transitive graphs (20+ s of CPU per pair: thorough only)
TWINS_BIG = [
    ("shrikhande|rook4x4", lambda: sym_graph("shrikhande", P), lambda: sym_graph("rook4x4", P)),
    ("desargues|gp10-2", lambda: sym_graph("desargues", P), lambda: [t for u, v in _gpetersen(10, 2) for t in und(u, v)]),
]


def gen_case0(rng, tier, i):
    if tier == "thorough" and i < len(classes()):
        n, _e, _l, m = classes()[i]
        return {"kind": "exh", "n": n, "mask": m}
    j = i - (len(classes()) if tier == "thorough" else 0)
    if 5 <= j < 5 + len(NEAR_KINDS) or (tier == "thorough" and j % 97 == 11):
        return gen_nearmiss(rng, NEAR_KINDS[(j - 5) % len(NEAR_KINDS)])
    if j in (3, 211) or (tier == "thorough" and j % 1500 == 7):
        return gen_skolem_big(rng, "external-basepath" if j == 3 else rng.choice(["default", "external-basepath"]))
    if j in SYM_FIXED:
        name, pred, k = SYM_FIXED[j]
        return gen_multi(rng, "symmetric", sym_graph(name, pred), k)
    if j in LIT_FIXED:
        a = [[0, TYPE, "<http://e/C>"]] + [[0, Q, x] for x in LIT_CLUSTERS[LIT_FIXED[j]]]
        g1, lab1 = render(rng, a)
        g2, lab2 = render(rng, a)
        return {"kind": "pair", "fam": "lit-order", "how": "relabel", "g1": g1, "g2": g2,
                "map": {x: y for x, y in zip(lab1, lab2)}}
    if tier == "thorough" and j % 1700 == 23:
        # one Heawood pair per ~1700 cases goes through the Lean model of `_traces` (6 s of driver time each)
        a = sym_graph("heawood", rng.choice(SYM_PREDS))
        g1, lab1 = render(rng, a)
        g2, lab2 = render(rng, a)
        return {"kind": "pair", "fam": "symmetric", "how": "relabel", "g1": g1, "g2": g2, "traces": True,
                "map": {x: y for x, y in zip(lab1, lab2)}}
    r = rng.random()
    if r < 0.14:
        return gen_skolem(rng)
    if r < 0.23:
        return gen_hist(rng)
    if r < 0.29:
        name, fa, fb = rng.choice(TWINS + (TWINS_BIG if tier == "thorough" and rng.random() < 0.15 else []))
        a, b = fa(), fb()
        dec = rng.random()
        if dec < 0.3:
            a = a + [[i, TYPE, "<http://e/C>"] for i in range(nnodes(a))]
            b = b + [[i, TYPE, "<http://e/C>"] for i in range(nnodes(b))]
        g1, _ = render(rng, a)
        g2, _ = render(rng, b)
        return {"kind": "pair", "fam": name, "how": "twin", "g1": g1, "g2": g2, "map": None}
    fam = pick_family(rng)
    if fam == "symmetric":
        name = rng.choice(sorted(SYM_EDGES))
        a = sym_graph(name, rng.choice(SYM_PREDS))
        if name not in SYM_CHEAP:    # 1-2 s of CPU per canonicalisation: only the cheaper multi route, few copies
            return gen_multi(rng, fam, a, 3)
        a = decorate(rng, a)
        if r < 0.40:
            return gen_multi(rng, fam, a, 3)
    else:
        a = decorate(rng, FAMILIES[fam](rng))
    if fam != "symmetric" and r < 0.40:
        return gen_multi(rng, fam, a, rng.randint(4, 7))
    g1, lab1 = render(rng, a)
    if rng.random() < 0.5:
        g2, lab2 = render(rng, a)
        return {"kind": "pair", "fam": fam, "how": "relabel", "g1": g1, "g2": g2,
                "map": {x: y for x, y in zip(lab1, lab2)}}
    b, how = mutate(rng, a)
    g2, _ = render(rng, b)
    return {"kind": "pair", "fam": fam, "how": "mutate-" + how, "g1": g1, "g2": g2, "map": None}


def gen_multi(rng, fam, a, k):
    """one abstract graph, k relabelled and shuffled copies: every copy must get the same digest / canonical graph"""
    g0, lab0 = render(rng, a)
    gs, maps = [g0], []
    for _ in range(k):
        g, lab = render(rng, a)
        gs.append(g)
        maps.append({x: y for x, y in zip(lab0, lab)})
    return {"kind": "multi", "fam": fam, "gs": gs, "maps": maps}


def _alt(a, b):
    return lambda i: (a if i % 2 else b) % (i // 2)


# blank-node ids are arbitrary strings in the Python API: ids with URL delimiters, sharing their last segment / suffix
ODD_IDS = [_alt("person/%d", "address/%d"), _alt("x/y/%d", "z/y/%d"), _alt("a#%d", "b#%d"), _alt("q?%d", "r?%d"),
           _alt("p%%20%d", "q%%20%d"), _alt("sp ace %d", "other ace %d"), _alt("semi;%d", "colon;%d"), lambda i: "%d/" % i,
           lambda i: "/lead%d" % i, _alt("a//%d", "a/%d"), _alt("ä/%d", "ö/%d"), _alt("a<%d", "a>%d"),
           lambda i: "" if i == 0 else "n%d" % i]
# ids for which skolemize cannot produce a faithful IRI (known finding C14-K2): dot segments, the genid path itself
K2_IDS = [lambda i: "x/../b" if i == 0 else "b" if i == 1 else "n%d" % i, lambda i: "./b" if i == 0 else "b" if i == 1 else "n%d" % i,
          lambda i: "a/./b" if i == 0 else "a/b" if i == 1 else "n%d" % i,
          lambda i: "x/.well-known/genid/rdflib/y" if i == 0 else "n%d" % i, lambda i: ".." if i == 0 else "n%d" % i]


def k2_ids(triples, base=None):
    """blank-node ids with a '.' / '..' path segment (urljoin removes them), containing the genid path, or - when the
    basepath is RELATIVE - with an empty path segment (urljoin drops empty segments of relative references)"""
    rel = base is not None and not base.startswith("/")
    return sorted({x for t in triples for x in (t[0], t[2]) if is_b(x)
                   and (any(seg in (".", "..") for seg in x[2:].split("/")) or GENID in x
                        or (rel and "" in x[2:].split("/")[:-1]))})


def k2_case(case):
    return k2_ids(case["g"], sk_args(case)[1])


SK_LABELS = ["b%d", "N%dabcdef0123456789", "x.%d-y", "%d", "a:%d", "é%d", "_%d", "cb%d", "B_%d.z"]


SK_VARIANTS = {   # variant -> (authority, basepath) given to Graph.skolemize (None = rdflib's default)
    "default": (None, None), "per-bnode": (None, None), "new-graph": (None, None), "partial": (None, None),
    "authority": ("http://example.org/", None),
    "external-basepath": ("http://example.org", GENID),          # de_skolemize takes the *external* genid branch
    "authority-basepath": ("http://b.example", GENID_R),
}
SK_AUTHORITIES = ["http://example.org/datasets/42/", "http://example.org/datasets/42", "http://example.org/a/b/c/",
                  "https://user@example.org:8443/x/", "http://example.org:8080", "http://example.org/", "http://EXAMPLE.org",
                  "http://example.org/a.b/c-d/", "http://example.org"]
SK_BASEPATHS = [GENID_R, GENID_R, GENID, ".well-known/genid/rdflib/", ".well-known/genid/"]


def sk_args(case):
    """(authority, basepath) passed to Graph.skolemize; (None, None) = rdflib's defaults"""
    if "authority" in case:
        return case["authority"], case["basepath"]
    return SK_VARIANTS[case["variant"]]


def sk_outside(auth, base):
    """a RELATIVE basepath joined to an authority that has a path does not put the skolem IRIs under the well-known
    path at the root: de_skolemize cannot recognise them and the clause does not speak about them (observed only)"""
    if auth is None or base is None or base.startswith("/"):
        return False
    from urllib.parse import urlparse
    path = urlparse(auth).path
    return (path[: path.rfind("/") + 1] or "/") != "/"


LIT_KINDS = ['"%s"', '"%s"^^<' + XSD + 'anyURI>', '"%s"^^<' + XSD + 'string>', '"%s"@en']


def genid_lookalikes(rng, lab):
    """literals whose lexical form is a skolem IRI (rdflib's authority or a foreign one) — they are NOT skolem IRIs"""
    own = (lab[rng.randrange(len(lab))][2:] if lab else "b0")
    texts = ["https://rdflib.github.io%s%s" % (GENID_R, own), "http://example.org%s%s" % (GENID, own),
             "http://a.example%sabc" % GENID, "http://a.example%sx1" % GENID_R, "http://example.org%s%s" % (GENID_R, own)]
    return [rng.choice(LIT_KINDS) % rng.choice(texts) for _ in range(rng.randint(1, 3))]


def gen_skolem(rng):
    fam = rng.choice(["sparse", "sparse", "cycle", "lists", "stars", "kmn"])
    a = FAMILIES[fam](rng)
    pat = rng.choice(SK_LABELS)
    style = lambda i, r: pat % i   # noqa: E731
    rr = rng.random()
    if rr < 0.30:
        f = rng.choice(ODD_IDS)
        style = lambda i, r: f(i)   # noqa: E731
    elif rr < 0.34:
        f = rng.choice(K2_IDS)
        style = lambda i, r: f(i)   # noqa: E731
    g, lab = render(rng, a, style=style)
    r = rng.random()
    if r < 0.10 and g:
        # an IRI that is already under the well-known genid path (known finding C14-K1) or a near miss
        iri = rng.choice([
            "<http://a.example%sx1>" % GENID_R, "<https://rdflib.github.io%s%s>" % (GENID_R, (lab[0][2:] if lab else "b0")),
            "<http://a.example%sabc>" % GENID, "<http://a.example/x%sabc>" % GENID, "<http://a.example/.well-known/genidx/abc>",
            "<http://a.example%sx1?y=1>" % GENID_R])
        k = rng.randrange(len(g))
        g[k] = [iri, g[k][1], g[k][2]] if rng.random() < 0.5 else [g[k][0], g[k][1], iri]
    if rng.random() < 0.45:
        # look-alike literals in object position, next to real blank nodes (and on an IRI subject)
        for lit in genid_lookalikes(rng, lab):
            subj = rng.choice(lab) if lab and rng.random() < 0.8 else "<http://e/a>"
            t = [subj, rng.choice([P, Q, "<http://e/seeAlso>"]), lit]
            if t not in g:
                g.append(t)
    if rng.random() < 0.15 and g:
        # an IRI that merely contains the genid path, in PREDICATE position (never touched by either function)
        k = rng.randrange(len(g))
        g[k] = [g[k][0], rng.choice(["<http://a.example%spred>" % GENID, "<https://rdflib.github.io%sp>" % GENID_R]), g[k][2]]
    rng.shuffle(g)
    variant = rng.choice(["default", "default", "authority", "per-bnode", "new-graph", "external-basepath",
                          "external-basepath", "authority-basepath", "custom", "custom", "custom"])
    case = {"kind": "skolem", "variant": variant, "g": g}
    if rng.random() < 0.30 and lab:
        # PARTIAL skolemisation: skolemize(bnode=b) for chosen nodes only, next to nodes that stay blank
        bsub = {t[0] for t in g if is_b(t[0])}
        bobj_of_blank = sorted({t[2] for t in g if is_b(t[2]) and is_b(t[0])})
        kind = rng.choice(["objects-of-blank", "objects-of-blank", "one", "some", "subjects-only"])
        if kind == "objects-of-blank" and bobj_of_blank:
            sel = rng.sample(bobj_of_blank, rng.randint(1, min(2, len(bobj_of_blank))))
        elif kind == "subjects-only":
            only = sorted(bsub - {t[2] for t in g if is_b(t[2])})
            sel = rng.sample(only, 1) if only else [rng.choice(sorted(bn_of(g)))]
        elif kind == "one":
            sel = [rng.choice(sorted(bn_of(g)))]
        else:
            allb = sorted(bn_of(g))
            sel = rng.sample(allb, rng.randint(1, len(allb)))
        if rng.random() < 0.5:
            # reflexive triples: the chosen node is subject AND object of the same triple
            for b in rng.sample(sel, rng.randint(1, len(sel))):
                t = [b, rng.choice([P, Q]), b]
                if t not in g:
                    g.insert(rng.randrange(len(g) + 1), t)
        case["variant"] = "partial"
        case["sel"] = sel
        case["back"] = rng.choice(["full", "full", "uriref-genid", "uriref-plain"])
        return case
    if variant == "custom":
        case["authority"], case["basepath"] = rng.choice(SK_AUTHORITIES), rng.choice(SK_BASEPATHS)
    return case


def gen_skolem_big(rng, variant):
    """LARGE star/forest (1500-2500 blank nodes): a few hubs are the OBJECT of spokes inserted at the start, in the
    middle and at the end, so that in the store's iteration order (by subject) each hub recurs after more than a
    thousand other new nodes; spokes also carry an index literal.  Generated from the parameters in `run_impl`."""
    case = {"kind": "skolem-big", "variant": variant, "n": rng.randint(1500, 2500), "hubs": rng.randint(1, 3),
            "chain": rng.random() < 0.5, "salt": rng.randrange(10 ** 6)}
    if variant == "external-basepath":
        # several graphs one after the other in ONE process: the module-level `skolems` table of rdflib.term sees more
        # than 4500 distinct external skolem IRIs before the last graph is checked
        case["seq"] = 3
        case["n"] = rng.randint(1500, 1900)
    return case


def big_graph(case):
    n, hubs = case["n"], case["hubs"]
    g = []
    for i in range(n):
        s = "_:s%d_%d" % (case["salt"], i)
        g.append([s, P, "_:hub%d" % (i % hubs)])
        g.append([s, Q, '"%d"' % (i % 7)])
        if case["chain"] and i % 5 == 0 and i + 1 < n:
            g.append([s, "<http://e/next>", "_:s%d_%d" % (case["salt"], i + 1)])
    for h in range(hubs):
        g.append(["_:hub%d" % h, Q, '"hub"'])
    return g


# ---------------------------------------------------------------- Lean encoding

def encode_pair(g1, g2):
    """term codes 2*id+blank; g1's triples ordered so that blank nodes first occur in BFS order (search efficiency)"""
    voc = {}

    def code(x):
        k = x if is_b(x) or type(x) is not str else T(x)   # ground terms are numbered by rdflib term equality
        if k not in voc:
            voc[k] = len(voc)
        return 2 * voc[k] + (1 if is_b(x) else 0)
    g1 = bfs_order(g1)

    def coded(g):
        # equal rdflib terms share a code ("x"@en / "x"@EN): the graph holds such a triple once, and the models that
        # read the list as a multiset (canonSearch, the colour refinement) need it once
        seen, out = set(), []
        for t in g:
            ct = tuple(code(x) for x in t)
            if ct not in seen:
                seen.add(ct)
                out.extend(ct)
        return " ".join(str(c) for c in out)
    return coded(g1), coded(g2), voc


def bfs_order(g):
    bn = bn_of(g)
    if not bn:
        return list(g)
    adj = {b: set() for b in bn}
    gdeg = {b: 0 for b in bn}
    for s, _p, o in g:
        if is_b(s) and is_b(o):
            adj[s].add(o)
            adj[o].add(s)
        for x in (s, o):
            if is_b(x):
                gdeg[x] += 1
    order, seen = [], set()
    for start in sorted(bn, key=lambda b: (-gdeg[b], b)):
        if start in seen:
            continue
        queue = [start]
        seen.add(start)
        while queue:
            x = queue.pop(0)
            order.append(x)
            for y in sorted(adj[x]):
                if y not in seen:
                    seen.add(y)
                    queue.append(y)
    pos = {b: k for k, b in enumerate(order)}
    return sorted(g, key=lambda t: (max([pos[x] for x in t if is_b(x)], default=-1), [str(x) for x in t]))


def iso_line(g1, g2):
    a, b, _ = encode_pair(g1, g2)
    return f"iso {a} | {b}"


def cert_line(g1, g2, mp):
    a, b, voc = encode_pair(g1, g2)
    m = " ".join(f"{voc[x]} {voc[y]}" for x, y in sorted(mp.items()) if x in voc and y in voc)
    return f"cert {m} | {a} | {b}"


def small(*gs):
    return all(len(bn_of(g)) <= LEAN_MAX for g in gs)


def cps(s):
    return ".".join(str(ord(c)) for c in s)


def sk_term(x, lits):
    if is_b(x):
        return "b:" + cps(x[2:])
    if x.startswith("<"):
        return "i:" + cps(x[1:-1])
    lit = T(x)   # literal: lexical form + opaque tag for (datatype, language)
    tag = lits.setdefault((str(lit.datatype), (lit.language or "").lower()), len(lits))
    return "l:%d:%s" % (tag, cps(str(lit)))


def skolem_line(case):
    auth, base = sk_args(case)
    lits = {}
    if case["variant"] == "partial":
        return "skolemsel %s %s %s %d %s %s" % ("full" if case["back"] == "full" else "uriref", cps("https://rdflib.github.io"), cps(GENID_R), len(case["sel"]),
                                             " ".join(sk_term(b, lits) for b in case["sel"]),
                                             " ".join(sk_term(x, lits) for t in case["g"] for x in t))
    return "skolem %s %s %s" % (cps(auth or "https://rdflib.github.io"), cps(base or GENID_R),
                                " ".join(sk_term(x, lits) for t in case["g"] for x in t))


CANON_MAX = int(os.environ.get("C14_CANON_MAX", "7"))   # blank nodes per graph given to the exhaustive canonSearch


def canon_ok(g1, g2):
    return max(len(bn_of(g1)), len(bn_of(g2))) <= CANON_MAX


def canon_line(g1, g2):
    a, b, _ = encode_pair(g1, g2)
    return f"canon {a} | {b}"


TRACES_MAX = int(os.environ.get("C14_TRACES_MAX", "8"))   # blank nodes per graph given to the model of `_traces`


def traces_ok(g1, g2, case=None):
    return bool(case and case.get("traces")) or max(len(bn_of(g1)), len(bn_of(g2))) <= TRACES_MAX


def refine_lines(g1, g2, case=None):
    """driver lines for the colour-refinement model (RV/C14/Canon.lean `refineInit`, `canonRefine`): triples are coded
    with the pair's shared vocabulary and de-duplicated by CODE (equal rdflib terms share a code; the model reads the
    list as the graph's triples, the store holds each triple once)"""
    a, b, _ = encode_pair(g1, g2)

    def uniq(txt):
        ws = txt.split()
        seen, out = set(), []
        for k in range(0, len(ws), 3):
            t = tuple(ws[k:k + 3])
            if t not in seen:
                seen.add(t)
                out.extend(t)
        return " ".join(out)
    a, b = uniq(a), uniq(b)
    return [f"canonrefine {a} | {b}"] + ([f"canontraces {a} | {b}"] if traces_ok(g1, g2, case) else [])


def refine_stats_obs(st):
    """PUBLIC observable of the initial refinement: the `stats` dict of to_canonical_graph / graph_digest
    (number of colours after the initial `_refine` minus the ground neighbours = number of blank-node cells;
    `individuations` == 0 <=> the refined colouring was already discrete, no search)"""
    cells = int(st.get("initial_color_count", 0)) - int(st.get("adjacent_nodes", 0))
    return cells, int(st.get("individuations", 0)) == 0


def pair_model_line(case):
    g1, g2 = case["g1"], case["g2"]
    if small(g1, g2):
        return iso_line(g1, g2)
    if case.get("map"):
        return cert_line(g1, g2, case["map"])
    return None


def model_lines(case):
    if case["kind"] == "pair":
        l = pair_model_line(case)
        if not l:
            return []
        return ([l, "diff"] + ([canon_line(case["g1"], case["g2"])] if canon_ok(case["g1"], case["g2"]) else [])
                + refine_lines(case["g1"], case["g2"], case))
    if case["kind"] == "skolem":
        return [] if k2_case(case) else [skolem_line(case)]
    if case["kind"] == "exh":
        g, partners, rel = exh_graphs(case)
        return [iso_line(g, h) for h in partners + rel]
    if case["kind"] == "hist":
        lines = []
        for ref, same, other in hist_steps(case):
            lines.append(iso_line(ref, same))
            lines.append(iso_line(ref, other) if other is not None else iso_line(ref, same))
        return lines
    if case["kind"] == "multi":
        g0 = case["gs"][0]
        return [iso_line(g0, g) if small(g0, g) else cert_line(g0, g, m) for g, m in zip(case["gs"][1:], case["maps"])]
    return []


def select_model_obs(case, out):
    if case["kind"] == "pair":
        if not out:
            return []
        n = 3 if canon_ok(case["g1"], case["g2"]) else 2
        # equality of the two canonical graphs as predicted by the model: by `canonRefine` (labels from the refined
        # colour hashes, theorems canon_complete_partial / canon_sound_partial) when the model's refinement is discrete
        # on both graphs, otherwise (driver answers n/a) by the verified isomorphism verdict (theorem canon_decides)
        ne = "true" if out[0] == "false" else "false" if out[0] == "true" else out[0]
        return ([out[0]] * 4 + ["diff " + out[1], "ne " + ne] + (["canon-search-verdict " + out[2]] if n == 3 else [])
                + ["canon-refine-verdict " + (out[n] if out[n] != "n/a" else out[0])]
                + (["canon-traces-verdict " + out[n + 1]] if traces_ok(case["g1"], case["g2"], case) else []))
    if case["kind"] == "skolem":
        return ["skolem-roundtrip-iso " + out[0]] if out else []
    if case["kind"] == "hist":
        return ["step %d eq-copy=%s eq-mutant=%s" % (k, out[2 * k], out[2 * k + 1] if hist_steps(case)[k][2] is not None else "n/a")
                for k in range(len(out) // 2)]
    if case["kind"] == "multi":
        return ["copy %d same-digest-and-canonical-graph %s" % (k + 1, o) for k, o in enumerate(out)]
    return ["hash-equal " + o for o in out]


# ---------------------------------------------------------------- oracles

def drive(lines, timeout=60):
    exe = os.path.join(core.LEAN, ".lake", "build", "bin", DRIVER)
    p = subprocess.run([exe], input="\n".join(lines) + "\n", stdout=subprocess.PIPE, stderr=subprocess.PIPE, text=True,
                       timeout=timeout, cwd=core.LEAN)
    out = p.stdout.split("\n")[:-1]
    if p.returncode != 0 or len(out) != len(lines) or "bad-op" in out:
        raise RuntimeError(f"drv_c14 failed: rc={p.returncode} out={out[:3]} err={p.stderr[-200:]}")
    return [o == "true" for o in out]


def py_iso(t1, t2):
    """isoutil on rdflib terms, with blank nodes of the first graph relabelled in BFS order (isoutil searches in label order)"""
    t1 = [tuple(t) for t in t1]
    bn = sorted({x for t in t1 for x in t if isinstance(x, BNode)})
    if bn:
        strs = [[("_:" + x if isinstance(x, BNode) else "<k%d>" % i) for i, x in enumerate(t)] for t in t1]
        order = []
        for t in bfs_order(strs):
            for x in t:
                if is_b(x) and x not in order:
                    order.append(x)
        ren = {BNode(x[2:]): BNode("n%04d" % k) for k, x in enumerate(order)}
        t1 = [tuple(ren.get(x, x) for x in t) for t in t1]
    return isoutil.iso(t1, [tuple(t) for t in t2])


def to_strs(triples):
    """rdflib terms -> term strings (for the Lean cross-check of graphs produced by the implementation)"""
    return [[("_:" + str(x)) if isinstance(x, BNode) else x for x in t] for t in triples]


class ImplTimeout(Exception):
    pass


WALL_BACKSTOP = 600.0


def _rearm_wall():
    """core arms a 20 s *wall-clock* watchdog per case; on a loaded machine (many builders, 16 workers) wall time says
    nothing about the implementation.  Each rdflib call below is bounded in *CPU time* instead (`guard`), and the
    wall-clock timer is kept only as a distant backstop."""
    if signal.getitimer(signal.ITIMER_REAL)[0] > 0:
        signal.setitimer(signal.ITIMER_REAL, WALL_BACKSTOP)


@contextlib.contextmanager
def guard(seconds):
    """CPU-time watchdog for one call into rdflib"""
    def h(_s, _f):
        raise ImplTimeout()
    old_h = signal.signal(signal.SIGVTALRM, h)
    signal.setitimer(signal.ITIMER_VIRTUAL, seconds)
    try:
        yield
    finally:
        signal.setitimer(signal.ITIMER_VIRTUAL, 0)
        signal.signal(signal.SIGVTALRM, old_h)


def call(viol, tag, fn, *a):
    """run one implementation call; an exception or a timeout is a violation of the property ("decides")"""
    try:
        with guard(IMPL_TIMEOUT):
            return True, fn(*a)
    except ImplTimeout:
        viol.append(f"timeout: {tag} used more than {IMPL_TIMEOUT}s of CPU time without returning")
    except core.CaseTimeout:
        raise
    except Exception as e:  # noqa: BLE001
        viol.append(f"raises: {tag} raised {type(e).__name__}: {str(e)[:80]}")
    return False, None


def refine_probe(triples, stats, public=None):
    """DIAGNOSTIC ONLY (never a verdict, private API): partition of the blank nodes after rdflib's initial colour
    refinement vs the partition computed by the Lean transcription RV/C14/Canon.lean (`refine` op of the driver)."""
    try:
        from rdflib.compare import _TripleCanonicalizer
        tc = _TripleCanonicalizer(mk_graph(triples))
        col = tc._initial_color()
        col = tc._refine(col, col[:])
        impl = sorted(sorted("_:" + str(n) for n in c.nodes) for c in col if isinstance(c.nodes[0], BNode))
    except Exception:  # noqa: BLE001  (a refactoring of private code must not alarm)
        stats["refine_probe_unavailable"] = stats.get("refine_probe_unavailable", 0) + 1
        return
    voc = {}

    def code(x):
        k = x if is_b(x) else T(x)
        if k not in voc:
            voc[k] = len(voc)
        return 2 * voc[k] + (1 if is_b(x) else 0)
    codes, seen = [], set()
    for t in triples:
        ct = tuple(code(x) for x in t)
        if ct not in seen:   # equal rdflib terms share a code: the store holds the triple once
            seen.add(ct)
            codes.extend(ct)
    line = "refine " + " ".join(str(c) for c in codes)
    exe = os.path.join(core.LEAN, ".lake", "build", "bin", DRIVER)
    nb = len({c for c in codes if c % 2 == 1})
    tline = (line.replace("refine", "tracesstat", 1) + "\n") if nb <= TRACES_MAX else ""
    outs = subprocess.run([exe], input=line + "\n" + line.replace("refine", "refinestat", 1) + "\n" + tline, stdout=subprocess.PIPE,
                          text=True, timeout=60, cwd=core.LEAN).stdout.split("\n")
    if public is not None and tline and len(outs) > 2 and outs[2].startswith("individuations="):
        # DIAGNOSTIC: number of `_traces` calls (stats["individuations"]) of the code vs the model.  The candidates are
        # visited in the iteration order of Python sets, which the automorphism pruning depends on, so the count is
        # order-dependent and never a verdict
        k_model = int(outs[2].split()[0].split("=")[1])
        k_impl = int(public.get("individuations", 0))
        key3 = "traces_individuations_agree" if k_model == k_impl else "traces_individuations_differ"
        stats[key3] = stats.get(key3, 0) + 1
    out = outs[0].strip()
    if public is not None and len(outs) > 1:
        # DIAGNOSTIC: the PUBLIC stats of to_canonical_graph (number of blank-node colours after the initial _refine,
        # search needed or not) vs the model.  Not a verdict: `_refine` ends by merging colours whose hashes are equal,
        # and a child colour that received no new item has its parent's hash, so with other hash VALUES (the model's
        # hashes are not SHA-256) the splitters are popped in another order and such a merge may hit other colours;
        # the count after the merge is therefore hash-dependent (false alarm on seed 2, see design.d/C14.md)
        k, dis = refine_stats_obs(public)
        key2 = "refine_stats_agree" if outs[1].strip() == "cells=%d discrete=%s" % (k, b2s(dis)) else "refine_stats_differ"
        stats[key2] = stats.get(key2, 0) + 1
    rev = {v: k for k, v in voc.items()}
    model = sorted(sorted(rev[int(i)] for i in cl.split(",")) for cl in out.split(" | ")) if out and out != "bad-op" else []
    key = "refine_probe_agree" if model == impl else "refine_probe_differ"
    stats[key] = stats.get(key, 0) + 1


def profile(triples):
    """sizes of the colour classes blank nodes fall into under plain refinement (independent of rdflib)"""
    ts = [tuple(T(x) for x in t) for t in triples]
    bn = sorted({x for t in ts for x in t if isinstance(x, BNode)})
    if not bn:
        return ()
    col = isoutil._canon_colors([t for t in ts if any(isinstance(x, BNode) for x in t)], bn)
    cnt = {}
    for c in col.values():
        cnt[c] = cnt.get(c, 0) + 1
    return tuple(sorted(cnt.values(), reverse=True))


def b2s(b):
    return "true" if b else "false"


# ---------------------------------------------------------------- implementation side

def run_impl(case):
    _rearm_wall()
    return {"pair": run_pair, "skolem": run_skolem, "exh": run_exh, "multi": run_multi,
            "skolem-big": run_skolem_big, "hist": run_hist}[case["kind"]](case)


def run_pair(case):
    g1s, g2s = case["g1"], case["g2"]
    g1, g2 = mk_pair_graphs(case)
    s1, s2 = set(g1), set(g2)
    viol, obs, stats = [], [], {"pair": 1, "fam_" + case["fam"].split("|")[0]: 1, "how_" + case["how"]: 1,
                                "ident_" + (case.get("ident") or "anonymous"): 1}
    for v in case.get("views") or []:
        stats["view_" + (v or "plain")] = stats.get("view_" + (v or "plain"), 0) + 1
    nb = max(len(bn_of(g1s)), len(bn_of(g2s)))
    stats["bnodes_%s" % ("0" if nb == 0 else "1-4" if nb <= 4 else "5-8" if nb <= 8 else "9-12" if nb <= 12 else "13+")] = 1

    truth = py_iso(s1, s2)
    stats["truth_iso" if truth else "truth_noniso"] = 1
    line = pair_model_line(case)
    xlines = [line] if line else []
    if line is None:
        stats["lean_skipped_big"] = 1
    elif line.startswith("cert"):
        stats["lean_certificate"] = 1
    else:
        stats["lean_search"] = 1

    ok, r_iso = call(viol, "isomorphic(g1,g2)", isomorphic, g1, g2)
    if nb <= LEAN_MAX:
        ok2, r_iso_rev = call(viol, "isomorphic(g2,g1)", isomorphic, g2, g1) if ok else (False, None)
    else:   # large symmetric graphs: canonicalisation is expensive, the argument order is exercised on the small ones
        ok2, r_iso_rev = ok, r_iso
    ok3, r_eq = call(viol, "to_isomorphic(g1)==to_isomorphic(g2)", lambda: to_isomorphic(g1) == to_isomorphic(g2)) if ok else (False, None)
    if nb <= LEAN_MAX:
        ok4, r_dig = call(viol, "graph_digest", lambda: to_isomorphic(g1).graph_digest() == to_isomorphic(g2).graph_digest()) if ok else (False, None)
    else:
        ok4, r_dig = ok3, r_eq
    st1, st2 = {}, {}
    ok5, cgs = call(viol, "to_canonical_graph", lambda: (set(to_canonical_graph(g1, stats=st1)), set(to_canonical_graph(g2, stats=st2)))) if ok else (False, None)
    ok6, diff = call(viol, "graph_diff", lambda: tuple(set(x) for x in graph_diff(g1, g2))) if ok else (False, None)
    if nb <= LEAN_MAX:
        ok7, r_ne = call(viol, "to_isomorphic(g1)!=to_isomorphic(g2)", lambda: to_isomorphic(g1) != to_isomorphic(g2)) if ok else (False, None)
    else:
        ok7, r_ne = ok3, (not r_eq if ok3 else None)
    ok8, r_sim = call(viol, "similar(g1,g2)", similar, g1, g2) if ok else (False, None)
    if not (ok and ok2 and ok3 and ok4 and ok5 and ok6 and ok7 and ok8):
        return {"obs": [], "viol": viol, "nontrivial": True, "key": "abort", "stats": stats}

    r_can = cgs[0] == cgs[1]
    if truth and not r_sim:
        # `similar` (triples equal once blank nodes are squashed) is a necessary condition of isomorphism
        viol.append("similar-false-negative: similar(g1,g2) is False for graphs that are equal up to blank-node renaming")
    stats["similar_true" if r_sim else "similar_false"] = 1
    for name, r in (("isomorphic", r_iso), ("to_isomorphic-eq", r_eq), ("graph_digest-eq", r_dig), ("not to_isomorphic-ne", not r_ne)):
        if bool(r) != truth:
            viol.append(f"{'false-positive' if r else 'false-negative'}: {name} returned {r} but the graphs are "
                        f"{'' if truth else 'not '}equal up to blank-node renaming")
    if r_iso_rev != r_iso:
        viol.append("asymmetric: isomorphic(g1,g2) != isomorphic(g2,g1)")
    if truth and not r_can:
        viol.append("canon-differs: isomorphic inputs but to_canonical_graph results are different triple sets")
    if not truth and r_can:
        viol.append("canon-collides: non-isomorphic inputs but to_canonical_graph results are equal")
    both, first, second = diff
    d1 = py_iso(both | first, s1)
    d2 = py_iso(both | second, s2)
    d3 = not (first & second)
    if not d1:
        viol.append("diff-first: graph_diff 'both'+'first' is not isomorphic to g1")
    if not d2:
        viol.append("diff-second: graph_diff 'both'+'second' is not isomorphic to g2")
    if not d3:
        viol.append("diff-overlap: graph_diff 'first' and 'second' share a triple")
    # canonical graph of each input must itself be a relabelling of the input (implied by the diff clauses)
    c1 = py_iso(cgs[0], s1)
    if not c1:
        viol.append("canon-not-iso: to_canonical_graph(g1) is not isomorphic to g1")

    # cross-validate the two oracles (Python isoutil vs verified Lean isoDecide / isoCheck)
    expect = [truth] if line else []
    for (x, y, v) in ((both | first, s1, d1), (both | second, s2, d2), (cgs[0], s1, c1)):
        xs, ys = to_strs(x), to_strs(y)
        if small(xs, ys):
            xlines.append(iso_line(xs, ys))
            expect.append(v)
    if line and canon_ok(g1s, g2s):
        # the unpruned exhaustive search of RV/C14/Search.lean must give the same VERDICT as isoutil (and as rdflib's
        # pruned `_traces`, compared through obs): its canonical texts are not comparable with rdflib's hashes
        xlines.append(canon_line(g1s, g2s))
        expect.append(truth)
        stats["canon_search_verdicts"] = 1
    if xlines:
        got = drive(xlines)
        stats["oracle_crosschecks"] = len(got)
        if got != expect:
            if line and line.startswith("cert") and got[0] is False and truth:
                raise RuntimeError("certificate rejected by isoCheck although isoutil says isomorphic")
            raise RuntimeError(f"ORACLE DISAGREEMENT isoutil={expect} lean={got} case={case}")
    if line:
        obs = [b2s(r_iso), b2s(r_eq), b2s(r_dig), b2s(r_can), "diff %s %s %s" % (b2s(d1), b2s(d2), b2s(d3))]
        obs.append("ne " + b2s(bool(r_ne)))
        if canon_ok(g1s, g2s):
            obs.append("canon-search-verdict " + b2s(r_can))
        # the colour-refinement model, through the public `stats` of to_canonical_graph
        (k1, dis1), (k2, dis2) = refine_stats_obs(st1), refine_stats_obs(st2)
        obs.append("canon-refine-verdict " + b2s(r_can))
        if traces_ok(g1s, g2s, case):
            # the model of canonical_triples INCLUDING the `_traces` search (RV/C14/Traces.lean) predicts the equality
            # of the two canonical graphs from its own canonical triples
            obs.append("canon-traces-verdict " + b2s(r_can))
            stats["canon_traces_verdicts"] = 1
        stats["refine_discrete_graphs"] = int(dis1) + int(dis2)
        if dis1 and dis2:
            stats["canon_refine_verdicts_both_discrete"] = 1
    refine_probe(g1s, stats, st1)
    prof = (profile(g1s), profile(g2s))
    nontrivial = any(c > 1 for pr in prof for c in pr)
    if nontrivial:
        stats["symmetric"] = 1
    return {"obs": obs, "viol": viol, "nontrivial": nontrivial,
            "key": repr((case["fam"], case["how"], prof, len(s1), len(s2), truth)), "stats": stats}


def run_multi(case):
    gs = case["gs"]
    viol, obs, stats = [], [], {"multi": 1, "multi_copies": len(gs) - 1, "fam_" + case["fam"]: 1}
    graphs = [mk_graph(g) for g in gs]
    res = []
    big = len(bn_of(gs[0])) > 12    # vertex-transitive graphs: one canonicalisation costs 0.5-2 s of CPU
    for k, g in enumerate(graphs):
        ok, d = call(viol, "graph_digest", lambda: to_isomorphic(g).graph_digest())
        if ok and (not big or k < 1):
            ok, c = call(viol, "to_canonical_graph", lambda: set(to_canonical_graph(g)))
        else:
            c = None     # the digest (sum of the hashes of the canonical triples) stands for the canonical graph
        if not ok:
            return {"obs": [], "viol": viol, "nontrivial": True, "key": "abort", "stats": stats}
        res.append((d, c))
    s0 = set(graphs[0])
    xlines, expect = [], []
    for k in range(1, len(gs)):
        truth = py_iso(s0, set(graphs[k]))
        if not truth:
            raise RuntimeError("generator error: relabelled copy is not isomorphic according to isoutil")
        same_d = res[k][0] == res[0][0]
        same_c = same_d if res[k][1] is None else res[k][1] == res[0][1]
        if k == 1 and not big:
            ok, r = call(viol, "isomorphic", isomorphic, graphs[0], graphs[1])
            if ok and not r:
                viol.append("false-negative: isomorphic returned False for a relabelled and shuffled copy")
        if not same_d:
            viol.append(f"false-negative: graph_digest of relabelled copy {k} differs (the digest depends on blank-node "
                        f"labels or insertion order)")
        if not same_c:
            viol.append(f"canon-differs: to_canonical_graph of relabelled copy {k} is a different triple set")
        obs.append("copy %d same-digest-and-canonical-graph %s" % (k, b2s(same_d and same_c)))
        xlines.append(iso_line(gs[0], gs[k]) if small(gs[0], gs[k]) else cert_line(gs[0], gs[k], case["maps"][k - 1]))
        expect.append(True)
    got = drive(xlines)
    stats["oracle_crosschecks"] = len(got)
    if got != expect:
        raise RuntimeError(f"ORACLE DISAGREEMENT (multi) isoutil={expect} lean={got} case={case}")
    c1 = py_iso(res[0][1], s0)
    if not c1:
        viol.append("canon-not-iso: to_canonical_graph(g) is not isomorphic to g")
    refine_probe(gs[0], stats)
    prof = profile(gs[0])
    nontrivial = any(c > 1 for c in prof)
    if nontrivial:
        stats["symmetric"] = 1
    nb = len(bn_of(gs[0]))
    stats["bnodes_%s" % ("0" if nb == 0 else "1-4" if nb <= 4 else "5-8" if nb <= 8 else "9-12" if nb <= 12 else "13+")] = 1
    return {"obs": obs, "viol": viol, "nontrivial": nontrivial,
            "key": repr(("multi", case["fam"], prof, len(s0), len(gs))), "stats": stats}


def run_skolem(case):
    gs = case["g"]
    g = mk_graph(gs)
    viol, stats = [], {"skolem": 1, "skolem_" + case["variant"]: 1}
    has_genid = any(GENID in x for t in gs for x in (t[0], t[2]) if x.startswith("<"))
    if has_genid:
        stats["skolem_with_genid_like_iri"] = 1

    def roundtrip():
        v = case["variant"]
        auth, base = sk_args(case)
        if v == "partial":
            from rdflib.term import Genid, RDFLibGenid
            sk = g
            iris = []
            for b in case["sel"]:
                sk = sk.skolemize(bnode=BNode(b[2:]))
                iris.append(BNode(b[2:]).skolemize())
            if case["back"] == "full":
                return set(sk), set(sk.de_skolemize())
            back = sk
            for u in iris:
                # an id with '?', '#' or ';' gives an IRI that is an external genid, not an rdflib one
                cls = Genid if any(ch in str(u).rsplit("/", 1)[-1] for ch in "?#;") else RDFLibGenid
                back = back.de_skolemize(uriref=cls(u) if case["back"] == "uriref-genid" else u)
            return set(sk), set(back)
        if auth is not None:
            sk = g.skolemize(authority=auth, basepath=base)
        elif v == "per-bnode":
            sk = g
            for b in sorted({x for t in g for x in t if isinstance(x, BNode)}):
                sk = sk.skolemize(bnode=b)
        elif v == "new-graph":
            sk = Graph()
            g.skolemize(new_graph=sk)
        else:
            sk = g.skolemize()
        back = sk.de_skolemize()
        return set(sk), set(back)
    ok, r = call(viol, "skolemize/de_skolemize", roundtrip)
    if not ok:
        return {"obs": [], "viol": viol, "nontrivial": True, "key": "abort", "stats": stats}
    sk, back = r
    if any(isinstance(x, Literal) and GENID in str(x) for t in g for x in t):
        stats["skolem_with_genid_like_literal"] = 1
    if any(GENID in t[1] for t in gs):
        stats["skolem_with_genid_like_predicate"] = 1
    good = py_iso(back, set(g))
    outside = sk_outside(*sk_args(case))
    if outside:
        stats["skolem_outside_claim_observed_only"] = 1
    if case["variant"] == "partial":
        stats["skolem_partial_back_" + case["back"]] = 1
        if any(is_b(t[0]) and t[2] in case["sel"] and t[0] not in case["sel"] for t in gs):
            stats["skolem_partial_skolem_object_of_blank_subject"] = 1
        if any(t[0] == t[2] and t[0] in case["sel"] for t in gs):
            stats["skolem_partial_self_loop_on_chosen_node"] = 1
    if "authority" in case:
        stats["skolem_authority_%s" % ("with-path" if sk_args(case)[0].count("/") > 2 and not sk_args(case)[0].endswith("org/") else "host-only")] = 1
        stats["skolem_basepath_%s" % ("absolute" if sk_args(case)[1].startswith("/") else "relative")] = 1
    if not good and not outside:
        viol.append("skolem: de_skolemize(skolemize(g)) is not isomorphic to g")
    if {x for t in g for x in t if isinstance(x, Literal)} != {x for t in back for x in t if isinstance(x, Literal)}:
        viol.append("skolem-literal: the round trip changed the set of literals of the graph")
    bs, gss = to_strs(back), to_strs(set(g))
    if small(bs, gss):
        got = drive([iso_line(bs, gss)])
        stats["oracle_crosschecks"] = 1
        if got != [good]:
            raise RuntimeError(f"ORACLE DISAGREEMENT (skolem) isoutil={good} lean={got} case={case}")
    nb = len(bn_of(gs))
    k2 = k2_case(case)
    if k2:
        stats["skolem_ids_skolemize_cannot_encode"] = 1
    if any(is_b(x) and any(ch in x for ch in "/#?% ;<>") for t in gs for x in (t[0], t[2])):
        stats["skolem_odd_bnode_ids"] = 1
    return {"obs": [] if k2 else ["skolem-roundtrip-iso " + b2s(good)], "viol": viol, "nontrivial": nb >= 2,
            "key": repr(("skolem", case["variant"], nb, len(set(map(tuple, gs))), has_genid, sorted(gs)[:3])), "stats": stats}


def run_hist(case):
    from rdflib.compare import IsomorphicGraph
    viol, obs, stats = [], [], {"hist": 1, "hist_ops": len(case["ops"]), "hist_make_" + case["make"]: 1}
    if case["make"] == "ctor":
        ig = IsomorphicGraph()
        for t in case["init"]:
            ig.add(tuple(T(x) for x in t))
    else:
        ig = to_isomorphic(mk_graph(case["init"]))
    steps = hist_steps(case)
    xlines, expect = [], []
    for k, (ref, same, other) in enumerate(steps):
        if k > 0:
            kind, ts = case["ops"][k - 1]
            stats["hist_op_" + kind] = stats.get("hist_op_" + kind, 0) + 1
            trs = [tuple(T(x) for x in t) for t in ts]

            def apply():
                if kind == "add":
                    ig.add(trs[0])
                elif kind == "remove":
                    ig.remove(trs[0])
                elif kind == "iadd":
                    ig.__iadd__(mk_graph(ts))
                elif kind == "isub":
                    ig.__isub__(mk_graph(ts))
                elif kind == "addN":
                    ig.addN((s_, p_, o_, ig) for s_, p_, o_ in trs)
                elif kind == "parse":
                    ig.parse(data=nt_doc(ts), format="nt")
                elif kind == "update":
                    ig.update("INSERT DATA { %s }" % nt_doc(ts))
            ok, _ = call(viol, "IsomorphicGraph." + kind, apply)
            if not ok:
                return {"obs": obs, "viol": viol, "nontrivial": True, "key": "abort", "stats": stats}
        cur = set(ig)
        if not py_iso(cur, [tuple(T(x) for x in t) for t in ref]):
            raise RuntimeError(f"history reference semantics differ from the graph's content after step {k}: {case}")
        what = "initially" if k == 0 else "after %s (step %d)" % (case["ops"][k - 1][0], k)
        fresh = to_isomorphic(mk_graph(same))
        ok, r = call(viol, "IsomorphicGraph comparisons", lambda: (ig == fresh, fresh == ig, ig != fresh,
                     ig.graph_digest() == fresh.graph_digest(), ig.internal_hash() == fresh.internal_hash(),
                     isomorphic(ig, mk_graph(same))))
        if not ok:
            return {"obs": obs, "viol": viol, "nontrivial": True, "key": "abort", "stats": stats}
        names = ["ig == copy", "copy == ig", "not (ig != copy)", "graph_digest equal", "internal_hash equal", "isomorphic(ig, copy)"]
        vals = [r[0], r[1], not r[2], r[3], r[4], r[5]]
        for nme, v in zip(names, vals):
            if not v:
                viol.append(f"false-negative: {what} '{nme}' is False for a relabelled copy of the graph's current content")
        eq_other = "n/a"
        if other is not None:
            og = to_isomorphic(mk_graph(other))
            truth = py_iso(cur, set(mk_graph(other)))
            ok, r2 = call(viol, "IsomorphicGraph comparisons", lambda: (ig == og, ig.graph_digest() == og.graph_digest()))
            if not ok:
                return {"obs": obs, "viol": viol, "nontrivial": True, "key": "abort", "stats": stats}
            if bool(r2[0]) != truth or bool(r2[1]) != truth:
                viol.append(f"{'false-positive' if not truth else 'false-negative'}: {what} ig == same-size graph gave "
                            f"{r2[0]} / digest-equal {r2[1]}, the contents are {'' if truth else 'not '}isomorphic")
            eq_other = b2s(r2[0] and r2[1])
            xlines.append(iso_line(ref, other))
            expect.append(truth)
        obs.append("step %d eq-copy=%s eq-mutant=%s" % (k, b2s(all(vals)), eq_other))
        xlines.append(iso_line(ref, same))
        expect.append(True)
    got = drive(xlines)
    stats["oracle_crosschecks"] = len(got)
    if got != expect:
        raise RuntimeError(f"ORACLE DISAGREEMENT (hist) isoutil={expect} lean={got} case={case}")
    return {"obs": obs, "viol": viol, "nontrivial": len(case["ops"]) >= 2 and len(bn_of(steps[-1][0])) >= 2,
            "key": repr(("hist", case["make"], [o[0] for o in case["ops"]], len(case["init"]), profile(steps[-1][0]))),
            "stats": stats}


def wl_profile(triples, rounds=3):
    """multiset of colour-refinement signatures of the blank nodes (complete invariant on forests, which is what
    `big_graph` builds: stars, optionally with chain links between spokes... see design.d/C14.md)"""
    bn = {x for t in triples for x in (t[0], t[2]) if isinstance(x, BNode)}
    col = {b: 0 for b in bn}
    for _ in range(rounds):
        sig = {b: [] for b in bn}
        for s_, p_, o_ in triples:
            if s_ in sig:
                sig[s_].append(("o", str(p_), ("b", col[o_]) if o_ in col else ("t", o_.n3())))
            if o_ in sig:
                sig[o_].append(("i", str(p_), ("b", col[s_]) if s_ in col else ("t", s_.n3())))
        col = {b: hash((col[b], tuple(sorted(sig[b])))) for b in bn}
    cnt = {}
    for c in col.values():
        cnt[c] = cnt.get(c, 0) + 1
    return cnt


def run_skolem_big(case):
    if case.get("seq", 1) > 1:
        res = None
        for k in range(case["seq"]):
            r = run_skolem_big({**case, "seq": 1, "salt": case["salt"] + k})
            if res is None:
                res = r
            else:
                res["viol"] += ["%s (graph %d of a sequence in one process)" % (v, k + 1) for v in r["viol"]]
                for kk, vv in r["stats"].items():
                    res["stats"][kk] = res["stats"].get(kk, 0) + vv
        res["stats"]["skolem_big_sequences"] = 1
        return res
    gs = big_graph(case)
    g = mk_graph(gs)
    viol, stats = [], {"skolem_big": 1, "skolem_big_" + case["variant"]: 1, "skolem_big_triples": len(gs)}
    auth, base = sk_args(case)

    def roundtrip():
        sk = g.skolemize(authority=auth, basepath=base) if auth is not None else g.skolemize()
        return set(sk), set(sk.de_skolemize())
    ok, r = call(viol, "skolemize/de_skolemize (large graph)", roundtrip)
    if not ok:
        return {"obs": [], "viol": viol, "nontrivial": True, "key": "abort", "stats": stats}
    sk, back = r
    orig = set(g)

    def bnodes(ts):
        return {x for t in ts for x in (t[0], t[2]) if isinstance(x, BNode)}
    if any(isinstance(x, BNode) for t in sk for x in t):
        stats["skolem_big_bnodes_left_after_skolemize"] = 1
    if len(back) != len(orig):
        viol.append(f"skolem: round trip of a large graph changed the number of triples {len(orig)} -> {len(back)}")
    elif len(bnodes(back)) != len(bnodes(orig)):
        viol.append(f"skolem: round trip of a large graph changed the number of blank nodes {len(bnodes(orig))} -> "
                    f"{len(bnodes(back))} (a node was split or two were merged)")
    elif wl_profile(orig) != wl_profile(back):
        viol.append("skolem: round trip of a large graph is not isomorphic to the input (refinement signatures of the "
                    "blank nodes differ)")
    return {"obs": [], "viol": viol, "nontrivial": True,
            "key": repr(("skolem-big", case["variant"], case["n"], case["hubs"], case["chain"])), "stats": stats}


def exh_graphs(case):
    """(g, partner class representatives of the same (n, edges, loops) group listed after it, two relabelled copies)"""
    n, m = case["n"], case["mask"]
    cl = classes()
    me = next(k for k, c in enumerate(cl) if c[0] == n and c[3] == m)
    grp = cl[me][:3]
    rng = core.case_rng(0, ID, m, "exh%d" % n)
    g, _ = render(rng, mask_graph(n, m), style=LABEL_STYLES[0])
    partners = []
    k = me + 1
    while k < len(cl) and cl[k][:3] == grp:
        partners.append(render(rng, mask_graph(n, cl[k][3]), style=LABEL_STYLES[0])[0])
        k += 1
    rel = [render(rng, mask_graph(n, m))[0] for _ in range(2)]
    return g, partners, rel


def run_exh(case):
    g, partners, rel = exh_graphs(case)
    viol, obs, stats = [], [], {"exh": 1, "exh_pairs": len(partners) + len(rel)}
    gg = mk_graph(g)
    ok, d0 = call(viol, "graph_digest", lambda: to_isomorphic(gg).graph_digest())
    if not ok:
        return {"obs": [], "viol": viol, "nontrivial": True, "key": "abort", "stats": stats}
    for j, h in enumerate(partners + rel):
        want = j >= len(partners)
        hh = mk_graph(h)
        if j % 5 == 0:
            ok, r = call(viol, "isomorphic", isomorphic, gg, hh)
        else:
            ok, r = call(viol, "graph_digest", lambda: to_isomorphic(hh).graph_digest() == d0)
        if not ok:
            break
        obs.append("hash-equal " + b2s(r))
        if bool(r) != want:
            viol.append(f"{'false-positive' if r else 'false-negative'}: digraph class n={case['n']} mask={case['mask']} "
                        f"vs {'relabelled copy' if want else 'other class'} #{j}: equal={r}")
        if want:
            ok, r = call(viol, "to_canonical_graph", lambda: set(to_canonical_graph(gg)) == set(to_canonical_graph(hh)))
            if ok and not r:
                viol.append("canon-differs: isomorphic inputs but to_canonical_graph results are different triple sets")
    return {"obs": obs, "viol": viol, "nontrivial": case["n"] >= 2, "key": repr(("exh", case["n"], case["mask"])),
            "stats": stats}


# ---------------------------------------------------------------- shrinking, known findings

def shrink(case):
    if case["kind"] == "skolem":
        g = case["g"]
        for i in range(len(g)):
            yield {**case, "g": g[:i] + g[i + 1:]}
        if case["variant"] not in ("default", "partial"):
            yield {**case, "variant": "default"}
        if case["variant"] == "partial" and len(case["sel"]) > 1:
            for b in case["sel"]:
                yield {**case, "sel": [x for x in case["sel"] if x != b]}
        return
    if case["kind"] == "hist":
        ops = case["ops"]
        for i in range(len(ops)):
            yield {**case, "ops": ops[:i] + ops[i + 1:]}
        for i in range(len(case["init"])):
            yield {**case, "init": case["init"][:i] + case["init"][i + 1:]}
        for i, (kind, ts) in enumerate(ops):
            if len(ts) > 1:
                for j in range(len(ts)):
                    yield {**case, "ops": ops[:i] + [[kind, ts[:j] + ts[j + 1:]]] + ops[i + 1:]}
        return
    if case["kind"] == "skolem-big" and case.get("seq", 1) > 1:
        return      # the sequence is the point: the state of the process matters
    if case["kind"] == "skolem-big":
        if case["n"] > 1100:
            yield {**case, "n": max(1100, case["n"] // 2)}
            yield {**case, "n": case["n"] - 100}
        if case["hubs"] > 1:
            yield {**case, "hubs": 1}
        if case["chain"]:
            yield {**case, "chain": False}
        return
    if case["kind"] == "multi":
        gs, maps = case["gs"], case["maps"]
        for k in range(1, len(gs)):
            if len(gs) > 2:
                yield {**case, "gs": gs[:k] + gs[k + 1:], "maps": maps[:k - 1] + maps[k:]}
        for i in range(len(gs[0])):
            new = [gs[0][:i] + gs[0][i + 1:]]
            for g, m in zip(gs[1:], maps):
                img = [m.get(x, x) for x in gs[0][i]]
                new.append([t for t in g if t != img])
            yield {**case, "gs": new}
        return
    if case["kind"] != "pair":
        return
    g1, g2, mp = case["g1"], case["g2"], case.get("map")
    if mp:
        for i in range(len(g1)):
            img = [mp.get(x, x) for x in g1[i]]
            if img in g2:
                yield {**case, "g1": g1[:i] + g1[i + 1:], "g2": [t for t in g2 if t != img]}
    for i in range(len(g1)):
        yield {**case, "g1": g1[:i] + g1[i + 1:], "map": None}
    for i in range(len(g2)):
        yield {**case, "g2": g2[:i] + g2[i + 1:], "map": None}


def _neutral(x):
    return x.replace("/.well-known/genid", "/not-well-known/gen-id") if x.startswith("<") else x


def _neutral_both(case):
    """the case with BOTH known shapes taken out: genid IRIs in subject / object position moved off the genid path
    (C14-K1) and blank-node ids that skolemize cannot encode replaced by plain ones (C14-K2).  A generated graph may show
    the two at once (seed 7 of the thorough search did); each matcher then has to discount the other mechanism, or
    neither accepts the case."""
    ren = {b: "_:plainid%d" % k for k, b in enumerate(k2_case(case))}
    return {**case, "g": [[ren.get(t[0], _neutral(t[0])), t[1], ren.get(t[2], _neutral(t[2]))] for t in case["g"]]}


def _m_genid(case, result):
    """skolem round trip fails *because* the input already contains an IRI under /.well-known/genid/ in subject or
    object position: the same graph with those IRIs moved off the genid path (and ids of the K2 kind, if any, replaced)
    round-trips."""
    if case.get("kind") != "skolem" or not result["viol"] or any(v.split(":")[0] != "skolem" for v in result["viol"]):
        return False
    if not any(GENID in x for t in case["g"] for x in (t[0], t[2]) if x.startswith("<")):
        return False
    return not run_skolem(_neutral_both(case))["viol"]


def _m_langtag(case, result):
    """(fixed, C14-F1) the two graphs contain literals that differ only in the case of the language tag"""
    if case.get("kind") != "pair" or not result["viol"]:
        return False
    lits = {x for g in (case["g1"], case["g2"]) for t in g for x in t if x.startswith('"') and "@" in x[x.rfind('"'):]}
    return len({x.lower() for x in lits}) < len(lits) or len(lits) != len({T(x).n3() for x in lits})


def _m_similar(case, result):
    """(fixed, C14-F5) similar() is False for isomorphic graphs that hold literals of different datatypes under one
    subject and predicate"""
    if case.get("kind") != "pair" or not any(v.startswith("similar-false-negative") for v in result["viol"]):
        return False
    for g in (case["g1"], case["g2"]):
        by = {}
        for s_, p_, o_ in g:
            if type(o_) is str and o_.startswith('"'):
                by.setdefault((s_ if not is_b(s_) else "_", p_), set()).add(o_[o_.rfind('"'):])
        if any(len(v) > 1 for v in by.values()):
            return True
    return False


def _m_traces(case, result):
    """(fixed, C14-F2) relabelled copies of a graph whose blank nodes form one colour class with >= 3 orbits get
    different digests"""
    if case.get("kind") not in ("multi", "pair") or not result["viol"]:
        return False
    if any(v.split(":")[0] not in ("false-negative", "canon-differs") for v in result["viol"]):
        return False
    g = case["gs"][0] if case["kind"] == "multi" else case["g1"]
    prof = profile(g)
    return bool(prof) and prof[0] >= 6


def _m_traces_leaves(case, result):
    """(fixed, C14-F3) relabelled copies of a graph in which one individualisation already makes the colouring discrete
    (all blank nodes in one class, at most one out- and in-edge per predicate) get different digests"""
    if case.get("kind") not in ("multi", "pair") or not result["viol"]:
        return False
    if any(v.split(":")[0] not in ("false-negative", "canon-differs") for v in result["viol"]):
        return False
    g = case["gs"][0] if case["kind"] == "multi" else case["g1"]
    prof = profile(g)
    return len(prof) == 1 and prof[0] >= 5


def _m_dotseg(case, result):
    """(known, C14-K2) the skolem round trip fails *because* a blank-node id has a '.' / '..' path segment or contains
    the genid path: the same graph with those ids replaced by plain ones (and genid IRIs of the K1 kind, if any, moved
    off the genid path) round-trips"""
    if case.get("kind") != "skolem" or not result["viol"] or any(v.split(":")[0] != "skolem" for v in result["viol"]):
        return False
    if not k2_case(case):
        return False
    return not run_skolem(_neutral_both(case))["viol"]


def _m_uriref(case, result):
    """(fixed, C14-F4) partial skolemisation undone with de_skolemize(uriref=…)"""
    return (case.get("kind") == "skolem" and case.get("variant") == "partial" and case.get("back") != "full"
            and bool(result["viol"]))


MATCHERS = {"similar_literal_order": _m_similar, "deskolemize_uriref_mode": _m_uriref, "dot_segment_or_genid_in_bnode_id": _m_dotseg, "genid_iri_in_input": _m_genid, "langtag_case": _m_langtag, "traces_unverified_generator": _m_traces,
            "traces_equal_trace_leaves": _m_traces_leaves}
