"""C10 — SPARQL Update changes the dataset exactly as the Update semantics prescribe.  DESIGN §6 C10.

Case = {"api": "graph"|"cg"|"cgi"|"ds"|"dsu", "union": bool,
        "init": [[s,p,o,g]…]           g = 0 is the real default graph, 90…93 named graphs
        "reg":  [g…]                   graphs registered empty (graph-aware stores record them)
        "ops":  [op…]}                 one update request = 1–4 operations, sent as ONE string

op =  {"k":"insertdata"|"deletedata"|"deletewhere", "q":[[s,p,o,g]…]}
    | {"k":"modify","with":g|None,"del":[quad…]|None,"ins":[quad…]|None,"using":[g…],"named":[g…],
       "where":[quad…],"filter":[var,"="|"!=",iri]|None}
    | {"k":"clear"|"drop","silent":bool,"t":"DEFAULT"|"NAMED"|"ALL"|g}
    | {"k":"add"|"move"|"copy","silent":bool,"src":0|g,"dst":0|g}
    | {"k":"create","silent":bool,"g":g}
    | {"k":"load","silent":bool,"doc":[[s,p,o]…]|None,"into":0|g}     doc = the N-Triples document at the source
                                     (50…52 its blank-node labels), None = a source that does not exist

Terms are small integers owned by the harness (kinds by range, see KIND below):
  1…9 IRIs, 20…24 literals (three falsy ones), 30…31 blank nodes of the store, 40…46 variables,
  50…52 blank-node labels of the request text, 90…93 graph-name IRIs (also usable as terms);
  blank nodes minted by the update are numbered 1000… in a canonical order.

api: graph = Graph(); cg = ConjunctiveGraph(); cgi = ConjunctiveGraph(identifier=<iri>);
     ds = Dataset(); dsu = Dataset(default_union=True).
union = rdflib.plugins.sparql.SPARQL_DEFAULT_GRAPH_UNION for the call (restored afterwards).
rdflib.plugins.sparql.SPARQL_LOAD_GRAPHS is False for the call (no network: USING must name
graphs of the store, as the Update specification says anyway).

Observations compared with the Lean model: per request  ok|error,  the quad set afterwards
(fresh blank nodes canonically numbered),  the registered graph names.
Property oracle (independent of Lean and of rdflib's evaluator): `spec_request` below — a direct
Python transcription of SPARQL 1.1 Update §3/§4.3 over dict-of-sets, with its own BGP matcher —
compared with the implementation's quads through `isoutil.iso`.
"""
import hashlib
import itertools
import os
import re
import warnings

import core  # noqa: F401
import isoutil
import sparqlgen as sg
import rdflib.plugins.sparql as SPARQL_MOD
from rdflib import BNode, ConjunctiveGraph, Dataset, Graph, Literal, URIRef, Variable
from rdflib.plugins.sparql import prepareQuery, prepareUpdate

warnings.filterwarnings("ignore", category=DeprecationWarning)

ID = "C10"
LEAN_TARGETS = ["RV.C10.Props", "RV.C10.Audit"]
AUDIT = "RV/C10/Audit.lean"
DRIVER = "drv_c10"
CASES = {"quick": 2600, "thorough": 60000, "search": 20000}
RULE = ("random update requests (1-4 operations: INSERT/DELETE DATA, DELETE WHERE, DELETE/INSERT..WHERE with WITH / USING / "
        "USING NAMED / GRAPH templates and patterns — WHERE clauses: BGP blocks with a FILTER / UNION / sub-select, or (a fifth of "
        "the requests) full-algebra patterns with OPTIONAL, MINUS, UNION, FILTER, BIND, VALUES, GRAPH, sub-select, EXISTS — "
        "CLEAR, DROP, ADD, MOVE, COPY, and (7 %) CREATE / LOAD of a local document or of a missing source) over datasets with 0-3 named graphs "
        "(one possibly registered-but-empty, one missing), through Graph / ConjunctiveGraph / Dataset with the union "
        "switch on and off; non-trivial = the request changed the dataset or a WHERE had at least one solution; "
        "distinct = distinct (api, union, init, request)")
ASSUMPTIONS = ["the Memory store behind Graph/ConjunctiveGraph/Dataset behaves as a set of quads (C01/C02)",
               "WHERE clauses are basic graph patterns in the default graph and in GRAPH blocks plus one (in)equality FILTER "
               "against an IRI (own matcher), or patterns of the full algebra evaluated by the C04 model of evaluate.py; on "
               "patterns outside C04's Alg.safe (its known findings) and on patterns whose solutions depend on empty graphs "
               "being graphs of the dataset the specification oracle abstains (model and implementation are still compared)",
               "literals in full-algebra requests are the typed ones of LIT (= litTable of Model.lean)",
               "BNode() returns identifiers distinct from each other and from every identifier already present",
               "SPARQL_LOAD_GRAPHS is on only for requests with a LOAD (local N-Triples files, no USING in them), off otherwise "
               "(no network); LOAD and CREATE are outside the property's operation list: LOAD is judged by §3.1.4, every CREATE "
               "is taken as a failure (rdflib does not implement it) and only abort / SILENT / nothing-changed are judged"]
TRUSTED = ["harness/c10.py generators, request printer, canonical numbering of minted blank nodes (component-wise exact)",
           "lean/RV/C10/Drive.lean line protocol", "harness/isoutil.py (exact isomorphism decision)",
           "harness/sparqlgen.py (pattern generator, §18 reference evaluator, Python mirror of RV/C04/Safe.lean)",
           "harness/c10.py enc_alg (encoding of rdflib's translated WHERE tree for the driver)", "lean/RV/C04 (model + proofs of C04)"]

# ------------------------------------------------------------------ vocabulary

E = "http://e/"
TERM = {}
for _i in range(1, 10):
    TERM[_i] = URIRef(f"{E}n{_i}")
TERM[7] = URIRef(f"{E}doc#x")        # spelled <#x> under BASE <http://e/doc>
TERM[8] = URIRef(f"{E}sub/z")        # spelled <z> under BASE <http://e/sub/doc>, <../n1> goes the other way
TERM.update({20: Literal(""), 21: Literal(0), 22: Literal(False), 23: Literal("x", lang="en"), 24: Literal(1)})
# literals only used by requests whose WHERE clause is a full-algebra pattern ("walg", see below): with 20, 21, 22, 24 they
# are the literals the C04 model has a type for (plain strings, integers, booleans); LIT = what Model.lean's `litTable` says
TERM.update({25: Literal(2), 26: Literal("a"), 27: Literal(True)})
LIT = {20: ("s", ""), 21: ("n", 0), 22: ("t", False), 24: ("n", 1), 25: ("n", 2), 26: ("s", "a"), 27: ("t", True)}
LIT_REV = {v: k for k, v in LIT.items()}
TERM.update({30: BNode("b30"), 31: BNode("b31")})
for _i in range(40, 50):
    TERM[_i] = Variable(f"v{_i}")
for _i in range(50, 53):
    TERM[_i] = BNode(f"t{_i}")
for _i in range(90, 94):
    TERM[_i] = URIRef(f"{E}g{_i}")
REV = {v: k for k, v in TERM.items() if not isinstance(v, Variable) and not (50 <= k < 60)}
GNAMES = [90, 91, 92, 93]
# the IRI under which the default graph can also be named: Dataset's urn:x-rdflib:default, and the identifier the
# harness gives to ConjunctiveGraph(identifier=…) (api "cgi").  Term 99; only used as a graph reference of
# CLEAR / DROP / ADD / MOVE / COPY on ds / dsu / cgi, where it denotes the SAME graph as DEFAULT.
DFLT_IRI = 99
TERM[DFLT_IRI] = URIRef("urn:x-rdflib:default")
CGI_ID = TERM[DFLT_IRI]


def kind(n):
    if n >= 1000 or 30 <= n < 40:
        return "b"
    if 20 <= n < 30:
        return "l"
    if 40 <= n < 50:
        return "v"
    if 50 <= n < 60:
        return "t"
    return "i"


def n3(n):
    t = TERM[n]
    if isinstance(t, Variable):
        return "?" + str(t)
    if isinstance(t, BNode):
        return "_:" + str(t)
    return t.n3()


# ------------------------------------------------------------------ prologues: BASE / PREFIX, relative IRIs, prefixed names
#
# case["decl"][k] = declarations written before operation k:  ["base", b] | ["prefix", p, ns] | ["prefixrel", p, ref]
# (b, p, ns index BASES / PFX / NSS; "prefixrel" declares the prefix with the relative IRI `ref`, resolved against
# the base in force).  op["sp"] = spelling modes: IRI number n of the operation is written absolute (0), relative
# to the base in force (1) or as a prefixed name (2) according to sp[n % len(sp)], when such a spelling exists.
# The printer only emits a relative reference / prefixed name that DENOTES the intended IRI: `resolve` below is
# RFC 3986 §5.2 written out here, independent of urllib and of rdflib.

BASES = [E, E + "doc", E + "sub/doc"]
NSS = [E, E + "sub/", E + "doc#"]
PFX = ["e", "f"]
_URI = re.compile(r"^(([^:/?#]+):)?(//([^/?#]*))?([^?#]*)(\?([^#]*))?(#(.*))?$")


def _remove_dot_segments(path):
    inp, out = path, []
    while inp:
        if inp.startswith("../"):
            inp = inp[3:]
        elif inp.startswith("./"):
            inp = inp[2:]
        elif inp.startswith("/./"):
            inp = inp[2:]
        elif inp == "/.":
            inp = "/"
        elif inp.startswith("/../"):
            inp = inp[3:]
            if out:
                out.pop()
        elif inp == "/..":
            inp = "/"
            if out:
                out.pop()
        elif inp in (".", ".."):
            inp = ""
        else:
            j = inp.find("/", 1)
            seg, inp = (inp, "") if j < 0 else (inp[:j], inp[j:])
            out.append(seg)
    return "".join(out)


def resolve(base, ref):
    """RFC 3986 §5.2.2 (strict)"""
    m, b = _URI.match(ref), _URI.match(base)
    rs, ra, rp, rq, rf = m.group(2), m.group(4), m.group(5), m.group(7), m.group(9)
    bs, ba, bp, bq = b.group(2), b.group(4), b.group(5), b.group(7)
    if rs is not None:
        ts, ta, tp, tq = rs, ra, _remove_dot_segments(rp), rq
    elif ra is not None:
        ts, ta, tp, tq = bs, ra, _remove_dot_segments(rp), rq
    elif rp == "":
        ts, ta, tp, tq = bs, ba, bp, (rq if rq is not None else bq)
    else:
        if rp.startswith("/"):
            tp = _remove_dot_segments(rp)
        else:
            merged = ("/" + rp) if (ba is not None and bp == "") else bp[: bp.rfind("/") + 1] + rp
            tp = _remove_dot_segments(merged)
        ts, ta, tq = bs, ba, rq
    out = (ts + ":" if ts is not None else "") + ("//" + ta if ta is not None else "") + tp
    out += ("?" + tq if tq is not None else "") + ("#" + rf if rf is not None else "")
    return out


def relative_spellings(base, target):
    """relative references that denote `target` under `base` (each one checked with `resolve`)"""
    cands = []
    d = base[: base.rfind("/") + 1]
    if target.startswith(d) and len(target) > len(d):
        cands.append(target[len(d):])
        cands.append("./" + target[len(d):])
    if "#" in target and target.split("#")[0] == base.split("#")[0]:
        cands.append("#" + target.split("#", 1)[1])
    parent = d[: d.rstrip("/").rfind("/") + 1]
    if len(parent) > len("http://") and target.startswith(parent) and len(target) > len(parent):
        cands.append("../" + target[len(parent):])
    mm = _URI.match(target)
    cands.append(mm.group(5) + ("#" + mm.group(9) if mm.group(9) is not None else ""))      # absolute-path reference
    return [c for c in dict.fromkeys(cands) if c and ":" not in c and resolve(base, c) == target]


_PN_LOCAL = re.compile(r"^[A-Za-z][A-Za-z0-9]*$")


class Prologue:
    """the declarations in force: one state threaded through the whole request"""

    def __init__(self):
        self.base, self.prefixes = None, {}

    def declare(self, d):
        if d[0] == "base":
            self.base = d[1]
        elif d[0] == "prefix":
            self.prefixes[d[1]] = d[2]
        elif d[0] == "prefixrel" and self.base is not None:
            ns = resolve(BASES[self.base], d[2])
            if ns in NSS:
                self.prefixes[d[1]] = NSS.index(ns)

    @staticmethod
    def text(d):
        if d[0] == "base":
            return f"BASE <{BASES[d[1]]}>"
        if d[0] == "prefix":
            return f"PREFIX {PFX[d[1]]}: <{NSS[d[2]]}>"
        return f"PREFIX {PFX[d[1]]}: <{d[2]}>"


class Ids:
    """numbers for the relative references / local names of one case (the model gets them as table keys)"""

    def __init__(self):
        self.refs, self.locals = {}, {}

    def ref(self, r):
        return self.refs.setdefault(r, len(self.refs))

    def local(self, x):
        return self.locals.setdefault(x, len(self.locals))


class Speller:
    """how the IRIs of ONE operation are written, given the prologue in force"""

    def __init__(self, pro=None, modes=None, k=0, ids=None):
        self.pro, self.modes, self.k, self.ids, self.memo = pro, modes or [0], k, ids, {}

    def choose(self, n):
        if n in self.memo:
            return self.memo[n]
        c = ("abs",)
        if self.pro is not None and kind(n) == "i" and n in TERM:
            iri, mode = str(TERM[n]), self.modes[n % len(self.modes)]
            if mode == 1 and self.pro.base is not None:
                cands = relative_spellings(BASES[self.pro.base], iri)
                if cands:
                    c = ("rel", cands[(n // 3 + self.k) % len(cands)])
            elif mode == 2:
                for p, ns in sorted(self.pro.prefixes.items()):
                    if iri.startswith(NSS[ns]) and _PN_LOCAL.match(iri[len(NSS[ns]):]):
                        c = ("pn", p, ns, iri[len(NSS[ns]):])
                        break
        self.memo[n] = c
        return c

    def t(self, n):
        """text of term n"""
        c = self.choose(n)
        if c[0] == "rel":
            return f"<{c[1]}>"
        if c[0] == "pn":
            return f"{PFX[c[1]]}:{c[3]}"
        return n3(n)

    def m(self, n):
        """token of term n for the model: the number, or what was written (@r.<ref> / @p.<prefix>.<local>)"""
        c = self.choose(n) if isinstance(n, int) else ("abs",)
        if c[0] == "rel":
            return f"@r.{self.ids.ref(c[1])}"
        if c[0] == "pn":
            return f"@p.{c[1]}.{self.ids.local(c[3])}"
        return str(n)


ABS = Speller()


def render(case):
    """-> (per operation: (declaration text, body text, declaration lines for the model, operation line), Ids)"""
    pro, ids, out = Prologue(), Ids(), []
    decl = case.get("decl") or [[] for _ in case["ops"]]
    for k, op in enumerate(case["ops"]):
        dl = []
        for d in decl[k] if k < len(decl) else []:
            if d[0] == "prefixrel":
                dl.append(f"prefixrel {d[1]} {ids.ref(d[2])}")
            else:
                dl.append(" ".join(map(str, d)))
            pro.declare(d)
        sp = Speller(pro, op.get("sp"), k, ids) if case.get("decl") else ABS
        dtext = " ".join(Prologue.text(d) for d in (decl[k] if k < len(decl) else []))
        out.append((dtext, op_text(op, sp), dl, op_line(op, sp)))
    return out, ids


def table_lines(ids):
    """what each written reference / prefixed name denotes under EVERY base / namespace (so that a model using
    the wrong prologue would get a different term, or none)"""
    iri_no = {str(v): k for k, v in TERM.items() if kind(k) == "i"}
    lines = []
    for r, rid in ids.refs.items():
        for b, base in enumerate(BASES):
            t = resolve(base, r)
            if t in iri_no:
                lines.append(f"tabrel {b} {rid} {iri_no[t]}")
            if t in NSS:
                lines.append(f"tabns {b} {rid} {NSS.index(t)}")
    for x, lid in ids.locals.items():
        for n_, ns in enumerate(NSS):
            if ns + x in iri_no:
                lines.append(f"tabpn {n_} {lid} {iri_no[ns + x]}")
    return lines


# ------------------------------------------------------------------ documents for LOAD (local files)

LOAD_DIR = "/tmp/c10-load"


def doc_text(doc):
    return "".join(f"{n3(a)} {n3(b)} {n3(c)} .\n" for a, b, c in doc)


def doc_url(doc):
    """file: URL of the N-Triples document (named by its content, so that every process agrees); None -> a missing file"""
    if doc is None:
        return f"file://{LOAD_DIR}/missing.nt"
    return f"file://{LOAD_DIR}/d{hashlib.sha1(doc_text(doc).encode()).hexdigest()[:16]}.nt"


def ensure_docs(case):
    for op in case["ops"]:
        if op["k"] == "load" and op["doc"] is not None:
            path = doc_url(op["doc"])[len("file://"):]
            if not os.path.exists(path):
                os.makedirs(LOAD_DIR, exist_ok=True)
                tmp = f"{path}.{os.getpid()}.tmp"
                with open(tmp, "w") as f:
                    f.write(doc_text(op["doc"]))
                os.replace(tmp, path)


# ------------------------------------------------------------------ request text


def parts(quads, split=False, eb=()):
    """the quad list as the sequence of parts a user writes: runs of equal graph (with `split`: every quad on
    its own) — (0, triples) outside GRAPH, (g, triples) one GRAPH block; then one EMPTY block per graph of `eb`"""
    runs = ([(q[3], [q[:3]]) for q in quads] if split
            else [(g, [q[:3] for q in grp]) for g, grp in itertools.groupby(quads, key=lambda q: q[3])])
    return runs + [(g, []) for g in (eb or ())]


def _block(quads, split=False, sp=ABS, eb=()):
    """text of a quad list: default-graph runs as plain triples, the others as one GRAPH block each.  The same
    graph may be named by several GRAPH blocks of one operation (translateQuads has to collect them all)."""
    out = []
    for g, grp in parts(quads, split, eb):
        ts = " . ".join(f"{sp.t(s)} {sp.t(p)} {sp.t(o)}" for s, p, o in grp)
        out.append(ts + " ." if g == 0 else f"GRAPH {sp.t(g)} {{ {ts} }}")
    return " ".join(out)


def repeated_graph_blocks(quads, split=False):
    """number of graph terms that the text of this quad list names in two or more GRAPH blocks"""
    runs = [q[3] for q in quads] if split else [g for g, _ in itertools.groupby(quads, key=lambda q: q[3])]
    named = [g for g in runs if g != 0]
    return sum(1 for g in set(named) if named.count(g) > 1)


def _gref(t, sp=ABS):
    return t if isinstance(t, str) else ("DEFAULT" if t == 0 else f"GRAPH {sp.t(t)}")


def _gref2(t, sp=ABS):
    return "DEFAULT" if t == 0 else sp.t(t)


def op_text(op, sp=ABS):
    k = op["k"]
    if k == "insertdata":
        return f"INSERT DATA {{ {_block(op['q'], op.get('split'), sp, op.get('eb'))} }}"
    if k == "deletedata":
        return f"DELETE DATA {{ {_block(op['q'], op.get('split'), sp, op.get('eb'))} }}"
    if k == "deletewhere":
        return f"DELETE WHERE {{ {_block(op['q'], op.get('split'), sp)} }}"
    if k == "modify":
        parts = []
        if op.get("with"):
            parts.append(f"WITH {sp.t(op['with'])}")
        if op.get("del") is not None:
            parts.append(f"DELETE {{ {_block(op['del'], op.get('split'), sp, op.get('eb'))} }}")
        if op.get("ins") is not None:
            parts.append(f"INSERT {{ {_block(op['ins'], op.get('split'), sp, op.get('eb'))} }}")
        for g in op.get("using", []):
            parts.append(f"USING {sp.t(g)}")
        for g in op.get("named", []):
            parts.append(f"USING NAMED {sp.t(g)}")
        if op.get("walg"):
            parts.append(f"WHERE {walg_group_text(op['walg'])}")
            return " ".join(parts)
        w = _block(op["where"], False, sp)
        wm = op.get("wmode")
        if wm and wm[0] == "union":
            w = f"{{ {w} }} UNION {{ {_block(wm[1], False, sp)} }}"
        elif wm and wm[0] == "proj":
            w = f"{{ SELECT {' '.join(n3(v) for v in wm[1])} WHERE {{ {w} }} }}"
        if op.get("filter"):
            v, o, c = op["filter"]
            w += f" FILTER ({sp.t(v)} {o} {sp.t(c)})"
        parts.append(f"WHERE {{ {w} }}")
        return " ".join(parts)
    s = " SILENT" if op.get("silent") else ""
    if k == "create":
        return f"CREATE{s} GRAPH {sp.t(op['g'])}"
    if k == "load":
        return f"LOAD{s} <{doc_url(op['doc'])}>" + (f" INTO GRAPH {sp.t(op['into'])}" if op["into"] else "")
    if k in ("clear", "drop"):
        return f"{k.upper()}{s} {_gref(op['t'], sp)}"
    return f"{k.upper()}{s} {_gref2(op['src'], sp)} TO {_gref2(op['dst'], sp)}"


def request_text(case):
    return " ;\n".join((d + "\n" if d else "") + body for d, body, _dl, _ol in render(case)[0])


def stepwise_texts(case):
    """each operation as a request of its own, under the declarations accumulated up to it"""
    seen, out = [], []
    for d, body, _dl, _ol in render(case)[0]:
        if d:
            seen.append(d)
        out.append(("\n".join(seen) + "\n" if seen else "") + body)
    return out


# ------------------------------------------------------------------ WHERE clauses of the full algebra ("walg")
#
# op["walg"] = the group graph pattern of a DELETE/INSERT … WHERE as a syntax tree (grammar of harness/sparqlgen.py):
#   group ::= ["group", [elt…]]     elt ::= ["tri", [[s,p,o]…]] | ["opt", group] | ["minus", group] | ["union", [group…]]
#           | ["graph", pos, group] | ["values", [v…], [[term|None…]…]] | ["bind", expr, v] | ["filter", expr]
#           | ["subsel", None|[v…], group]
#   expr  ::= ["var", v] | ["const", t] | ["cmp", op, e, e] | ["and", e, e] | ["or", e, e] | ["not", e] | ["bound", v]
#           | ["exists", group] | ["nexists", group]
# with THIS module's numbers in every position (40…49 variables, anything else a term).  Three independent readers:
#   * the text printer below -> rdflib parses, translates and evaluates it (the implementation);
#   * the oracle: sparqlgen.translate_group / eval_alg, a plain bottom-up SPARQL 1.1 §18 evaluator (no rdflib);
#   * the model: rdflib's OWN translated tree of the update (`prepareUpdate(text).algebra[k].where`, with its lazy /
#     _vars annotations) is encoded and handed to the Lean driver, which runs the C04 model of evaluate.py on it.


def _map_expr(e, fv, ft, fg):
    k = e[0]
    if k in ("var", "bound"):
        return [k, fv(e[1])]
    if k == "const":
        return ["const", ft(e[1])]
    if k == "cmp":
        return ["cmp", e[1], _map_expr(e[2], fv, ft, fg), _map_expr(e[3], fv, ft, fg)]
    if k in ("and", "or"):
        return [k, _map_expr(e[1], fv, ft, fg), _map_expr(e[2], fv, ft, fg)]
    if k == "not":
        return ["not", _map_expr(e[1], fv, ft, fg)]
    if k in ("exists", "nexists"):
        return [k, fg(e[1])]
    raise ValueError(e)


def _map_group(g, fp, fv, ft):
    def rec(h):
        return _map_group(h, fp, fv, ft)

    def ex(e):
        return _map_expr(e, fv, ft, rec)
    out = []
    for x in g[1]:
        k = x[0]
        if k == "tri":
            out.append(["tri", [[fp(q) for q in tp] for tp in x[1]]])
        elif k in ("opt", "minus"):
            out.append([k, rec(x[1])])
        elif k == "union":
            out.append(["union", [rec(h) for h in x[1]]])
        elif k == "graph":
            out.append(["graph", fp(x[1]), rec(x[2])])
        elif k == "values":
            out.append(["values", [fv(v) for v in x[1]], [[None if c is None else ft(c) for c in r] for r in x[2]]])
        elif k == "bind":
            out.append(["bind", ex(x[1]), fv(x[2])])
        elif k == "filter":
            out.append(["filter", ex(x[1])])
        elif k == "subsel":
            out.append(["subsel", None if x[1] is None else [fv(v) for v in x[1]], rec(x[2])])
        else:
            raise ValueError(x)
    return ["group", out]


def sg_term(n):
    """this module's term number -> sparqlgen term tuple"""
    k = kind(n)
    if k == "i":
        return ("i", n)
    if k == "b":
        return ("b", n)
    return LIT[n]                    # KeyError for a literal the algebra has no type for (23): never generated with walg


def c10_term(t):
    t = sg.T(t)
    return t[1] if t[0] in "ib" else LIT_REV[t]


def walg_to_sg(g):
    return _map_group(g, lambda n: ["v", n] if kind(n) == "v" else list(sg_term(n)), lambda v: v, lambda n: list(sg_term(n)))


def walg_from_sg(g, off=40):
    """sparqlgen tree -> this module's numbers; variables k -> off + k (off = 0: inverse of walg_to_sg)"""
    return _map_group(g, lambda q: off + q[1] if q[0] == "v" else c10_term(q), lambda v: off + v, c10_term)


def walg_expr_text(e):
    k = e[0]
    if k == "var":
        return n3(e[1])
    if k == "const":
        return n3(e[1])
    if k == "cmp":
        return f"({walg_expr_text(e[2])} {sg.OPTXT[e[1]]} {walg_expr_text(e[3])})"
    if k in ("and", "or"):
        return f"({walg_expr_text(e[1])} {'&&' if k == 'and' else '||'} {walg_expr_text(e[2])})"
    if k == "not":
        return f"(!{walg_expr_text(e[1])})"
    if k == "bound":
        return f"bound({n3(e[1])})"
    if k in ("exists", "nexists"):
        return ("EXISTS " if k == "exists" else "NOT EXISTS ") + walg_group_text(e[1])
    raise ValueError(e)


def walg_group_text(g):
    out = []
    for x in g[1]:
        k = x[0]
        if k == "tri":
            out.append(" ".join(f"{n3(a)} {n3(b)} {n3(c)} ." for a, b, c in x[1]))
        elif k == "opt":
            out.append("OPTIONAL " + walg_group_text(x[1]))
        elif k == "minus":
            out.append("MINUS " + walg_group_text(x[1]))
        elif k == "union":
            out.append(" UNION ".join(walg_group_text(h) for h in x[1]))
        elif k == "graph":
            out.append(f"GRAPH {n3(x[1])} " + walg_group_text(x[2]))
        elif k == "values":
            rows = " ".join("(" + " ".join("UNDEF" if c is None else n3(c) for c in r) + ")" for r in x[2])
            out.append(f"VALUES ({' '.join(n3(v) for v in x[1])}) {{ {rows} }}")
        elif k == "bind":
            out.append(f"BIND({walg_expr_text(x[1])} AS {n3(x[2])})")
        elif k == "filter":
            out.append(f"FILTER({walg_expr_text(x[1])})")
        elif k == "subsel":
            proj = "*" if x[1] is None else " ".join(n3(v) for v in x[1])
            out.append("{ SELECT " + proj + " WHERE " + walg_group_text(x[2]) + " }")
        else:
            raise ValueError(x)
    return "{ " + " ".join(out) + " }"


def walg_features(g, out=None):
    out = out if out is not None else set()

    def ex(e):
        if e[0] in ("exists", "nexists"):
            out.add("exists")
            walg_features(e[1], out)
        elif e[0] == "cmp":
            ex(e[2]); ex(e[3])
        elif e[0] in ("and", "or"):
            ex(e[1]); ex(e[2])
        elif e[0] == "not":
            ex(e[1])
    for x in g[1]:
        if x[0] != "tri":
            out.add(x[0])
        if x[0] in ("opt", "minus"):
            walg_features(x[1], out)
        elif x[0] == "union":
            for h in x[1]:
                walg_features(h, out)
        elif x[0] in ("graph", "subsel"):
            walg_features(x[2], out)
        elif x[0] in ("bind", "filter"):
            ex(x[1])
    return out


# ---- rdflib's translated tree -> tokens for the Lean driver (grammar of Drive.lean; terms = this module's numbers)


def _enc_term(x):
    if x in REV:
        return str(REV[x])
    raise ValueError(f"term {x!r} outside the vocabulary")


def _enc_pos(x):
    if isinstance(x, Variable):
        return "?" + str(x)[1:]
    if isinstance(x, BNode):
        raise ValueError("blank node in a pattern")
    return _enc_term(x)


def _enc_vars(vs):
    return "( vars" + "".join(f" {k}" for k in sorted({int(str(v)[1:]) for v in (vs or []) if isinstance(v, Variable)})) + " )"


def _enc_ovars(vs):
    return "none" if vs is None else _enc_vars(vs)


_RELOP = {"=": "eq", "!=": "ne", "<": "lt", ">": "gt", "<=": "le", ">=": "ge"}


def _enc_expr(e):
    from rdflib.plugins.sparql.parserutils import CompValue
    if isinstance(e, Variable):
        return f"( var {str(e)[1:]} )"
    if isinstance(e, CompValue):
        n = e.name
        raw = lambda k: dict.get(e, k)  # noqa: E731   (CompValue.__getitem__ would evaluate)
        if n == "TrueFilter":
            return "( const 27 )"
        if n == "RelationalExpression":
            return f"( cmp {_RELOP[raw('op')]} {_enc_expr(raw('expr'))} {_enc_expr(raw('other'))} )"
        if n in ("ConditionalAndExpression", "ConditionalOrExpression"):
            k = "and" if n == "ConditionalAndExpression" else "or"
            acc = _enc_expr(raw("expr"))
            for o in raw("other"):
                acc = f"( {k} {acc} {_enc_expr(o)} )"
            return acc
        if n == "UnaryNot":
            return f"( not {_enc_expr(raw('expr'))} )"
        if n == "Builtin_BOUND":
            return f"( bound {str(raw('arg'))[1:]} )"
        if n in ("Builtin_EXISTS", "Builtin_NOTEXISTS"):
            return f"( {'exists' if n == 'Builtin_EXISTS' else 'nexists'} {enc_alg(e.graph)} )"
        raise ValueError(f"expression {n} outside the modelled fragment")
    return f"( const {_enc_term(e)} )"


def enc_alg(p):
    """a node of rdflib's translated algebra, annotations included exactly where evaluate.py reads them"""
    n = p.name
    if n == "BGP":
        return "( bgp" + "".join(f" {_enc_pos(a)} {_enc_pos(b)} {_enc_pos(c)}" for a, b, c in p.triples) + " )"
    if n == "Join":
        return f"( join {1 if p.lazy else 0} {enc_alg(p.p1)} {enc_alg(p.p2)} )"
    if n == "LeftJoin":
        return (f"( leftjoin {enc_alg(p.p1)} {enc_alg(p.p2)} {_enc_expr(dict.get(p, 'expr'))} "
                f"{_enc_ovars(p.p1._vars)} {_enc_ovars(p.p2._vars)} )")
    if n == "Filter":
        return f"( filter {_enc_expr(dict.get(p, 'expr'))} {enc_alg(p.p)} {_enc_vars(p._vars)} {1 if p.no_isolated_scope else 0} )"
    if n == "Union":
        return f"( union {enc_alg(p.p1)} {enc_alg(p.p2)} )"
    if n == "Minus":
        return f"( minus {enc_alg(p.p1)} {enc_alg(p.p2)} {_enc_ovars(p.p1._vars)} {_enc_ovars(p.p2._vars)} )"
    if n == "Extend":
        return f"( extend {enc_alg(p.p)} {str(p.var)[1:]} {_enc_expr(dict.get(p, 'expr'))} {_enc_vars(p._vars)} )"
    if n == "Graph":
        return f"( graph {_enc_pos(p.term)} {enc_alg(p.p)} )"
    if n == "ToMultiSet":
        inner = p.p
        if isinstance(inner, list):
            raise ValueError("empty VALUES block")
        if inner.name == "values":
            vs = []
            for r in inner.res:
                for k in r:
                    if int(str(k)[1:]) not in vs:
                        vs.append(int(str(k)[1:]))
            rows = []
            for r in inner.res:
                cells = []
                for v in vs:
                    c = r.get(Variable(f"v{v}"), "UNDEF")
                    cells.append("U" if isinstance(c, str) and not isinstance(c, (URIRef, Literal, BNode)) else _enc_term(c))
                rows.append("( row " + " ".join(cells) + " )")
            return "( values ( vars" + "".join(f" {v}" for v in vs) + " )" + "".join(" " + x for x in rows) + " )"
        if inner.name == "Project":
            return f"( project {enc_alg(inner.p)} {_enc_vars(inner.PV)} )"
        raise ValueError(f"ToMultiSet({inner.name})")
    raise ValueError(f"algebra node {n} outside the modelled fragment")


_TREE = {}


def update_where_tree(wtext):
    """encoded `algebra[0].where` of `INSERT { } WHERE wtext` as translateUpdate / translateUpdate1 build it"""
    if wtext not in _TREE:
        if len(_TREE) > 5000:
            _TREE.clear()
        try:
            _TREE[wtext] = enc_alg(prepareUpdate("INSERT { } WHERE " + wtext).algebra[0].where)
        except Exception as e:  # noqa: BLE001
            _TREE[wtext] = f"( untranslatable {type(e).__name__} )"
    return _TREE[wtext]


def walg_problems(walg):
    """why C04's `Alg.safeIn P []` fails for this pattern (empty = safe at the top of an operation, where nothing is pushed in:
    the hypothesis of `modify_where_spec_partial` / `RV.C04.evalPart_top0`), by `sparqlgen.alg_problems_in` — the Python
    mirror of the current RV/C04/Safe.lean — on the tree rdflib builds for the same pattern in a QUERY (translateQuery: a
    code path that does not go through translateUpdate1)"""
    try:
        q = prepareQuery("SELECT * WHERE " + walg_group_text(walg))
        pat = sg.parse_sx(enc_alg(q.algebra.p.p))
    except Exception as e:  # noqa: BLE001
        return {"outside:" + type(e).__name__}
    return sg.alg_problems_in(pat, [])


def spec_where_alg(walg, dflt, named):
    """solutions of a full-algebra WHERE clause over the query dataset, by sparqlgen's §18 evaluator.
    -> (bag, ambiguous): ambiguous = the bag depends on whether a graph WITHOUT triples counts as a graph of the dataset
    (the specification lets a store record empty graphs or not)"""
    A = sg.translate_group(walg_to_sg(walg))

    def run(nm):
        ds = {"default": [tuple(sg_term(x) for x in t) for t in sorted(dflt)],
              "named": [[sg_term(g), [tuple(sg_term(x) for x in t) for t in sorted(ts)]] for g, ts in sorted(nm.items())],
              "union": False}
        return [{k: c10_term(v) for k, v in m.items()} for m in sg.eval_alg(ds, A)]
    full = run(named)
    lean = run({g: ts for g, ts in named.items() if ts})
    key = lambda bag: sorted(tuple(sorted(m.items())) for m in bag)  # noqa: E731
    return full, key(full) != key(lean)


# ------------------------------------------------------------------ the property's own oracle (SPARQL 1.1 Update)


class SpecError(Exception):
    pass


class TooBig(Exception):
    """a request whose repeated execution feeds on its own output (hundreds of solutions): not generated"""


class Unspecified(Exception):
    """the request leaves SPARQL's domain (a template's GRAPH variable bound to a blank node: rdflib
    allows graphs named by blank nodes, SPARQL does not) — never generated"""


def _match(pat, triple, mu):
    mu2 = None
    for x, y in zip(pat, triple):
        if kind(x) in "vt":          # variables; blank-node labels in a pattern act as variables
            b = (mu2 or mu).get(x)
            if b is None:
                if mu2 is None:
                    mu2 = dict(mu)
                mu2[x] = y
            elif b != y:
                return None
        elif x != y:
            return None
    return mu2 if mu2 is not None else mu


def _bgp(pats, triples, mus):
    for pat in pats:
        mus = [m2 for m in mus for t in triples for m2 in [_match(pat, t, m)] if m2 is not None]
    return mus


def _compatible_merge(a, b):
    for k, v in a.items():
        if k in b and b[k] != v:
            return None
    return {**a, **b}


def _group_sols(where, dflt, named):
    sols = [{}]
    for g, grp in itertools.groupby(where, key=lambda q: q[3]):
        pats = [q[:3] for q in grp]
        if g == 0:
            part = _bgp(pats, dflt, [{}])
        elif kind(g) == "v":
            part = []
            for name, ts in named.items():
                part += [m2 for m in _bgp(pats, ts, [{}]) for m2 in [_compatible_merge(m, {g: name})] if m2 is not None]
        else:
            part = _bgp(pats, named.get(g, set()), [{}])
        sols = [m for a in sols for b in part for m in [_compatible_merge(a, b)] if m is not None]
    return sols


def spec_where(where, flt, dflt, named, wmode=None):
    """solutions of the WHERE clause over the query dataset (dflt : set of triples, named : {g: triples}) as a
    BAG (list): `{A} UNION {B}` is the two bags one after the other, a sub-select projects every row — equal
    solutions are kept as often as they occur, and each occurrence gets its own fresh blank nodes."""
    sols = _group_sols(where, dflt, named)
    if wmode and wmode[0] == "union":
        sols = sols + _group_sols(wmode[1], dflt, named)
    elif wmode and wmode[0] == "proj":
        sols = [{v: t for v, t in m.items() if v in wmode[1]} for m in sols]
    if flt:
        v, o, c = flt
        sols = [m for m in sols if v in m and ((m[v] == c) if o == "=" else (m[v] != c))]
    return sols


def spec_instantiate(template, mu, default_target, fresh, info=None):
    """Dataset(QuadPattern, μ): quads with an unbound variable or an illegal term are left out;
    blank-node labels are replaced through `fresh` (one new node per label for this μ)."""
    out, bmap = set(), {}
    info = info if info is not None else {}
    for q in template:
        r = []
        for x in q[:3]:
            if kind(x) in "tb":      # a blank node written in the request is a label, never the store's node
                if x not in bmap:
                    bmap[x] = fresh()
                r.append(bmap[x])
            elif kind(x) == "v":
                r.append(mu.get(x))
            else:
                r.append(x)
        g = q[3]
        if g == 0:
            g = default_target
        elif kind(g) == "v":
            g = mu.get(g)
        if None in r or g is None:
            info["skip_unbound"] = info.get("skip_unbound", 0) + 1
            continue
        if g != 0 and kind(g) == "b":
            raise Unspecified()
        if kind(r[0]) == "l" or kind(r[1]) != "i" or (g != 0 and kind(g) != "i"):
            info["skip_illegal"] = info.get("skip_illegal", 0) + 1
            continue
        out.add((r[0], r[1], r[2], g))
    return out


def _needs_dataset(op):
    k = op["k"]
    if k in ("insertdata", "deletedata", "deletewhere"):
        return any(q[3] != 0 for q in op["q"])
    if k == "modify":
        return bool(op.get("with") or op.get("using") or op.get("named")
                    or any(q[3] != 0 for part in ("del", "ins", "where") for q in (op.get(part) or []))
                    or bool(op.get("wmode") and op["wmode"][0] == "union" and any(q[3] != 0 for q in op["wmode"][1]))
                    or bool(op.get("walg") and "graph" in walg_features(op["walg"])))
    if k in ("clear", "drop"):
        return op["t"] not in ("DEFAULT", "ALL", "NAMED")
    if k == "create":
        return True
    if k == "load":
        return op["into"] != 0
    return op["src"] != 0 or op["dst"] != 0


def spec_op(op, G, eff_union, single_graph, fresh, info=None):
    """G : {graph name (0 = default): set of triples}; returns the new G (never mutates)."""
    info = info if info is not None else {}
    if single_graph and _needs_dataset(op):
        raise SpecError("a plain Graph has no named graphs")
    G = {g: set(ts) for g, ts in G.items()}
    k = op["k"]

    def graph(g):
        return G.get(g, set())

    def apply(dels, inss):
        for s, p, o, g in dels:
            G.setdefault(g, set()).discard((s, p, o))
        for s, p, o, g in inss:
            G.setdefault(g, set()).add((s, p, o))

    if k == "create":
        # rdflib does not implement CREATE (evalCreate raises on every path) and the property does not list it: the
        # oracle takes every CREATE as a failure and checks what the property does say — the request is aborted there
        # (or, SILENT, goes on) and nothing is changed by it
        raise SpecError("CREATE is not implemented")
    if k == "load":
        # §3.1.4: the triples of the document are added to the graph; a source that cannot be read is a failure;
        # blank nodes of a document are its own (fresh per LOAD)
        if op["doc"] is None:
            raise SpecError("source cannot be read")
        apply(set(), spec_instantiate([t + [op["into"]] for t in op["doc"]], {}, 0, fresh))
    elif k == "insertdata":
        apply(set(), spec_instantiate(op["q"], {}, 0, fresh))
    elif k == "deletedata":
        apply(spec_instantiate(op["q"], {}, 0, fresh), set())
    elif k in ("deletewhere", "modify"):
        if k == "deletewhere":
            op = {"where": op["q"], "del": op["q"], "ins": None}
        w = op.get("with") or 0
        using, named = op.get("using", []), op.get("named", [])
        if using or named:
            dflt = set().union(*[graph(g) for g in using]) if using else set()
            nmd = {g: graph(g) for g in named}
        else:
            nmd = {g: ts for g, ts in G.items() if g != 0}
            if w:
                dflt = graph(w)
            elif eff_union:
                dflt = set().union(*G.values()) if G else set()
            else:
                dflt = graph(0)
        if op.get("walg"):
            sols, ambiguous = spec_where_alg(op["walg"], dflt, nmd)
            info["where_algebra"] = info.get("where_algebra", 0) + 1
            if ambiguous:
                info["abstain"] = 1          # depends on empty graphs being graphs of the dataset: unspecified
        else:
            sols = spec_where(op["where"], op.get("filter"), dflt, nmd, op.get("wmode"))
        if len(sols) > 150:
            raise TooBig()
        keys = [tuple(sorted(m.items())) for m in sols]
        if len(set(keys)) < len(keys):
            info["where_with_repeated_solution"] = info.get("where_with_repeated_solution", 0) + 1
            if op.get("ins") and any(kind(x) in "tb" for q in op["ins"] for x in q[:3]):
                info["repeated_solution_and_template_bnode"] = info.get("repeated_solution_and_template_bnode", 0) + 1
        dels, inss, per = set(), set(), []
        for mu in sols:
            d = spec_instantiate(op["del"], mu, w, fresh, info) if op.get("del") is not None else set()
            per.append([d, set()])
            dels |= d
        for j, mu in enumerate(sols):
            i = spec_instantiate(op["ins"], mu, w, fresh, info) if op.get("ins") is not None else set()
            per[j][1] = i
            inss |= i
        apply(dels, inss)
        info["sols"] = info.get("sols", 0) + len(sols)
        info["where_" + ("0" if not sols else "1" if len(sols) == 1 else "2+")] = \
            info.get("where_" + ("0" if not sols else "1" if len(sols) == 1 else "2+"), 0) + 1
        if any(per[a][1] & per[b][0] for a in range(len(per)) for b in range(len(per)) if a != b):
            info["overlap_across_solutions"] = info.get("overlap_across_solutions", 0) + 1
    elif k in ("clear", "drop"):
        t = 0 if op["t"] == DFLT_IRI else op["t"]
        t = "DEFAULT" if t == 0 else t
        names = [0] if t == "DEFAULT" else [g for g in G if g != 0] if t == "NAMED" else list(G) if t == "ALL" else [t]
        for g in names:
            G[g] = set()
    else:
        src, dst = (0 if x == DFLT_IRI else x for x in (op["src"], op["dst"]))    # resolved graphs, not spellings
        if src != dst:
            s = set(graph(src))
            if k in ("move", "copy"):
                G[dst] = set()
            G[dst] = graph(dst) | s
            if k == "move":
                G[src] = set()
    return G


def spec_request(case):
    """-> (set of quads, failed?, number of WHERE solutions seen, changed?)"""
    G = {0: set()}
    for s, p, o, g in case["init"]:
        G.setdefault(g, set()).add((s, p, o))
    for g in case.get("reg", []):
        G.setdefault(g, set())
    counter = itertools.count(1000)
    eff_union = case["union"] and case["api"] in ("cg", "cgi", "dsu")
    failed, info = False, {}
    before = {(s, p, o, g) for g, ts in G.items() for (s, p, o) in ts}
    gone = set()          # named graphs removed by DROP / MOVE and not written to since: must not be listed
    # the request may be EXECUTED several times (a prepared Update run again): same operations, the dataset —
    # and with it the supply of fresh blank nodes — threaded through; a failing execution ends the series
    for op in case["ops"] * case.get("runs", 1):
        info["executed_ops"] = info.get("executed_ops", 0) + 1      # started (the failing one included)
        try:
            names_before = [g for g in G if g != 0]
            G = spec_op(op, G, eff_union, case["api"] == "graph", lambda: next(counter), info)
            if op["k"] == "drop":
                t = op["t"]
                gone |= set(names_before) if t in ("NAMED", "ALL") else {t} if t not in ("DEFAULT", DFLT_IRI) else set()
            elif op["k"] == "move" and op["src"] != op["dst"] and op["src"] not in (0, DFLT_IRI):
                gone.add(op["src"])
            gone = {g for g in gone if not G.get(g)}
        except SpecError:
            info["must_fail" + ("_silent" if op.get("silent") else "")] = 1
            if not op.get("silent"):
                failed = True
                break
    quads = {(s, p, o, g) for g, ts in G.items() for (s, p, o) in ts}
    info["changed"] = int(quads != before)
    info["gone"] = sorted(gone)
    return quads, failed, info


# ------------------------------------------------------------------ canonical numbering of minted blank nodes


def canon(quads):
    """quads: tuples of ints (vocabulary) or ('f', label) for nodes minted by the update.
    Returns the sorted list of int quads with minted nodes numbered 1000… canonically:
    exact per connected component (colour refinement, then every order respecting the colour classes is
    tried and the least form kept; beyond 5000 orders: an invariant, see below), components sorted."""
    ground = sorted(q for q in quads if not any(isinstance(x, tuple) for x in q))
    rest = [q for q in quads if any(isinstance(x, tuple) for x in q)]
    parent = {}

    def find(x):
        while parent.setdefault(x, x) != x:
            parent[x] = parent[parent[x]]
            x = parent[x]
        return x

    for q in rest:
        fs = [x for x in q if isinstance(x, tuple)]
        for a in fs[1:]:
            parent[find(a)] = find(fs[0])
        find(fs[0])
    comps = {}
    for q in rest:
        comps.setdefault(find(next(x for x in q if isinstance(x, tuple))), []).append(q)
    forms = []
    for qs in comps.values():
        nodes = sorted({x for q in qs for x in q if isinstance(x, tuple)})
        # colour refinement (label-independent), then all orders that respect the colour classes
        col = {nd: 0 for nd in nodes}
        for _ in range(len(nodes) + 1):
            sig = {nd: sorted(tuple((0, col[x]) if isinstance(x, tuple) and x != nd else (1, 0) if x == nd else (2, x)
                                    for x in q) for q in qs if nd in q) for nd in nodes}
            ranks = {sg: i for i, sg in enumerate(sorted({repr((col[nd], sig[nd])) for nd in nodes}))}
            new = {nd: ranks[repr((col[nd], sig[nd]))] for nd in nodes}
            if new == col:
                break
            col = new
        classes = {}
        for nd in nodes:
            classes.setdefault(col[nd], []).append(nd)
        groups = [classes[c] for c in sorted(classes)]
        budget = 1
        for g_ in groups:
            for k in range(2, len(g_) + 1):
                budget *= k
        if budget > 5000:
            # a big, highly symmetric component (dozens of minted nodes chained over several operations):
            # fall back to an isomorphism INVARIANT — every node numbered by its colour class, nodes of one
            # class share a number.  Isomorphic datasets still print alike (no false alarm); the exact decision
            # on such inputs is left to the property oracle (isoutil.iso), which never uses this numbering.
            rank = {c_: i for i, c_ in enumerate(sorted(classes))}
            forms.append((sorted(tuple(-1 - rank[col[x]] if isinstance(x, tuple) else x for x in q) for q in qs),
                          len(classes)))
            continue
        else:
            orders = ([nd for part in combo for nd in part]
                      for combo in itertools.product(*[itertools.permutations(g_) for g_ in groups]))
        best = None
        for order in orders:
            m = {nd: -1 - i for i, nd in enumerate(order)}      # negative = local index
            form = sorted(tuple(m.get(x, x) if isinstance(x, tuple) else x for x in q) for q in qs)
            if best is None or form < best:
                best = form
        forms.append((best, len(nodes)))
    forms.sort()
    out, base = list(ground), 1000
    for form, n in forms:
        for q in form:
            out.append(tuple(base + (-1 - x) if x < 0 else x for x in q))
        base += n
    return sorted(out)


def show_quads(qs):
    return " ".join(",".join(map(str, q)) for q in qs)


# ------------------------------------------------------------------ the implementation


def _build(case):
    api = case["api"]
    if api == "graph":
        top = Graph()
        dflt = top
    elif api == "cg":
        top = ConjunctiveGraph()
        dflt = top.default_context
    elif api == "cgi":
        top = ConjunctiveGraph(identifier=CGI_ID)
        dflt = top.default_context
    else:
        top = Dataset(default_union=(api == "dsu"))
        dflt = top.default_graph
    for s, p, o, g in case["init"]:
        t = (TERM[s], TERM[p], TERM[o])
        if g == 0 or api == "graph":
            dflt.add(t)
        else:
            top.get_context(TERM[g]).add(t)
    for g in case.get("reg", []):
        if api != "graph":
            top.store.add_graph(top.get_context(TERM[g]))
    return top, dflt


def _read(top, dflt, api):
    """-> (list of quads with ints / ('f', label), registered graph names)"""
    def num(t):
        if t in REV:
            return REV[t]
        if isinstance(t, BNode):
            return ("f", str(t))
        return ("f", "odd:" + t.n3())          # a term outside the vocabulary: shown, never equal to the model's

    out = []
    if api == "graph":
        for s, p, o in top:
            out.append((num(s), num(p), num(o), 0))
        return out, []

    def gnum(ident):
        return 0 if ident == dflt.identifier else num(ident)

    for (s, p, o), ctxs in top.store.triples((None, None, None), None):
        for c in ctxs:
            out.append((num(s), num(p), num(o), gnum(c.identifier)))
    names = [gnum(c.identifier) for c in top.store.contexts()]
    return out, names


def run_impl(case):
    api = case["api"]
    text = request_text(case)
    old_u, old_l = SPARQL_MOD.SPARQL_DEFAULT_GRAPH_UNION, SPARQL_MOD.SPARQL_LOAD_GRAPHS
    SPARQL_MOD.SPARQL_DEFAULT_GRAPH_UNION = bool(case["union"])
    # LOAD needs the switch on; such requests have no USING (with the switch on an empty USING graph is fetched from its IRI)
    SPARQL_MOD.SPARQL_LOAD_GRAPHS = any(o["k"] == "load" for o in case["ops"])
    ensure_docs(case)
    try:
        top, dflt = _build(case)
        runs = case.get("runs", 1)
        # the same request as a prepared Update object (other entry of the glue) — translated ONCE, executed `runs` times
        upd = prepareUpdate(text) if case.get("prep") else text
        err, shared = "ok", []
        for _run in range(runs):
            try:
                top.update(upd)
            except Exception as e:  # noqa: BLE001
                err = "error"
                errtext = f"{type(e).__name__}: {str(e)[:120]}"
                break
        if case.get("second") and err == "ok":
            # … and once more on a SECOND dataset: the nodes minted there are new as well
            top3, dflt3 = _build(case)
            try:
                top3.update(upd)
                mint = lambda tp, df: {x[1] for q in _read(tp, df, api)[0] for x in q if isinstance(x, tuple)}  # noqa: E731
                shared = sorted(mint(top, dflt) & mint(top3, dflt3))
            except Exception:  # noqa: BLE001
                pass
        # law `request_in_order`, evaluated on the implementation itself: the operations sent one at a time
        # (stopping at the first that raises) must leave the same dataset as the single request
        stepwise = None
        if len(case["ops"]) > 1 and runs == 1:
            top2, dflt2 = _build(case)
            for one in stepwise_texts(case):
                try:
                    top2.update(one)
                except Exception:  # noqa: BLE001
                    break
            stepwise = canon(set(_read(top2, dflt2, api)[0]))
    finally:
        SPARQL_MOD.SPARQL_DEFAULT_GRAPH_UNION, SPARQL_MOD.SPARQL_LOAD_GRAPHS = old_u, old_l
    raw, names = _read(top, dflt, api)
    quads = canon(set(raw))
    known = sorted({g for g in names if g != 0 and not isinstance(g, tuple)})
    odd_names = [g for g in names if isinstance(g, tuple)]
    obs = [err, show_quads(quads), ",".join(map(str, known)) + ("" if not odd_names else f" +{len(odd_names)}odd")]

    # ---- the property, decided on the implementation's behaviour
    viol = []

    def toterm(x, skolem):
        if isinstance(x, tuple):
            return BNode("f" + x[1])
        if x >= 1000:
            return BNode(f"w{x}")
        if kind(x) == "b" and skolem:
            return URIRef(f"{E}sk{x}")
        return x

    want, failed, info = spec_request(case)
    nsol, changed = info.get("sols", 0), info["changed"]
    if failed != (err == "error"):
        viol.append(f"outcome: request {'must fail' if failed else 'must succeed'} but the implementation "
                    f"{'raised ' + errtext if err == 'error' else 'returned normally'}")
    if len(raw) != len(set(raw)):
        viol.append("dup: dataset yields a quad twice")
    if shared:
        viol.append(f"fresh: executing the request on a second dataset re-used blank nodes minted for the first "
                    f"({len(shared)} shared; request {text!r})")
    if stepwise is not None and stepwise != quads and not isoutil.iso(
            {tuple(toterm(x, True) for x in q) for q in stepwise}, {tuple(toterm(x, True) for x in q) for q in quads}):
        viol.append(f"order: request\n{text}\nleft {show_quads(quads)} but its operations sent one at a time left "
                    f"{show_quads(stepwise)}")
    still = [g for g in info.pop("gone") if g in known]
    if still and api != "graph":
        viol.append(f"dropped: graphs {still} were removed by DROP / MOVE and not written to afterwards, "
                    f"but the store still lists them (request {text!r})")

    # equal canonical numberings exhibit a renaming of the minted nodes (sound); only when they differ is the
    # exact decision procedure asked (complete), so that a violation never rests on the numbering heuristic
    # `abstain`: a full-algebra WHERE whose solutions depend on whether a graph without triples is a graph of the dataset
    # (unspecified: a store may or may not record empty graphs) — correspondence only, no verdict on the state
    abstain = bool(info.pop("abstain", 0))
    executed = info.pop("executed_ops", 0)
    for k_, o in enumerate(case["ops"]):
        if o["k"] == "modify" and o.get("walg") and k_ < executed:      # only operations the request got to
            probs = walg_problems(o["walg"])
            if probs:
                # outside the fragment where rdflib's binding push-down is exact (C04's known findings K1 / K2 / K4, decided
                # by the Python mirror of RV/C04/Safe.lean on the tree of the same pattern in a QUERY): the model — a model
                # of the evaluator as it is — is still compared, the specification's verdict on the state is not asked
                abstain = True
                for pr in sorted(probs):
                    info["walg_unsafe_" + pr.split(":")[0]] = info.get("walg_unsafe_" + pr.split(":")[0], 0) + 1
            else:
                info["walg_safe"] = info.get("walg_safe", 0) + 1
    if abstain:
        info["where_algebra_depends_on_empty_graphs"] = 1
    # (whatever the request's outcome: a LATER operation may fail — the `outcome:` clause is judged on its own — and the
    # state the unsafe evaluation left is still outside the oracle's reach)
    same = quads == canon_int(want) or abstain
    if not same:
        A = {tuple(toterm(x, True) for x in q) for q in set(raw)}
        B = {tuple(toterm(x, True) for x in q) for q in want}
        same = isoutil.iso(A, B)
    if not same:
        ga = {q for q in set(raw) if not any(isinstance(x, tuple) for x in q)}
        gb = {q for q in want if not any(x >= 1000 for x in q)}
        extra, missing = sorted(ga - gb), sorted(gb - ga)
        tag = _classify(case, extra, missing)
        viol.append(f"{tag}: request\n{text}\non {sorted(map(tuple, case['init']))} (api {api}, union {case['union']}) "
                    f"left quads {show_quads(quads)} but the Update semantics give {show_quads(canon_int(want))}"
                    f" (extra {extra}, missing {missing})")
    if not case["init"] and case.get("reg") and case["ops"][0]["k"] in ("drop", "clear"):
        info["drop_or_clear_on_tripleless_dataset_with_registered_graphs"] = 1
    stats = {"ops": len(case["ops"]), "prepared_update_object": int(bool(case.get("prep"))), "api_" + api: 1, "union_" + str(bool(case["union"])): 1, "err_" + err: 1,
             "minted": len({x for q in quads for x in q if x >= 1000}), **info}
    if case.get("runs", 1) > 1:
        stats["executed_several_times"] = 1
        stats["prepared_executed_several_times"] = int(bool(case.get("prep")))
    if case.get("second"):
        stats["also_on_second_dataset"] = 1
    for o in case["ops"]:
        if DFLT_IRI in (o.get("t"), o.get("src"), o.get("dst")):
            stats["default_graph_by_iri"] = stats.get("default_graph_by_iri", 0) + 1
    if case.get("decl"):
        stats["prologue_declared"] = 1
        stats["prologue_redeclared_later"] = int(any(case["decl"][1:]))
        for k_, (_d, _b, _dl, ol) in enumerate(render(case)[0]):
            if k_ >= 1:
                stats["relative_iri_in_later_op"] = stats.get("relative_iri_in_later_op", 0) + ol.count("@r.")
                stats["prefixed_name_in_later_op"] = stats.get("prefixed_name_in_later_op", 0) + ol.count("@p.")
            else:
                stats["relative_iri_in_first_op"] = stats.get("relative_iri_in_first_op", 0) + ol.count("@r.")
    for o in case["ops"]:
        if o["k"] == "load":
            key_ = "load_unreadable" if o["doc"] is None else "load_into_graph" if o["into"] else "load_default"
            stats[key_] = stats.get(key_, 0) + 1
            if o["doc"] and any(kind(x) == "t" for t in o["doc"] for x in t):
                stats["load_doc_with_bnodes"] = stats.get("load_doc_with_bnodes", 0) + 1
        if o["k"] in ("create", "load") and o.get("silent"):
            stats[o["k"] + "_silent"] = stats.get(o["k"] + "_silent", 0) + 1
        stats["op_" + o["k"]] = stats.get("op_" + o["k"], 0) + 1
        if o.get("eb"):
            stats["empty_graph_block"] = stats.get("empty_graph_block", 0) + 1
        for f in ("q", "del", "ins"):
            if o.get(f) and repeated_graph_blocks(o[f], o.get("split")):
                key = "graph_in_several_blocks_" + (o["k"] if f == "q" else f)
                stats[key] = stats.get(key, 0) + 1
                if any(kind(q[3]) == "v" for q in o[f]):
                    stats["graph_var_in_several_blocks"] = stats.get("graph_var_in_several_blocks", 0) + 1
        if o["k"] == "modify" and o.get("walg"):
            for f in sorted(walg_features(o["walg"])):
                stats["walg_" + f] = stats.get("walg_" + f, 0) + 1
        if o["k"] == "modify":
            if o.get("wmode"):
                stats["modify_where_" + o["wmode"][0]] = stats.get("modify_where_" + o["wmode"][0], 0) + 1
            for f in ("with", "using", "named", "filter", "del", "ins"):
                if o.get(f):
                    stats["modify_" + f] = stats.get("modify_" + f, 0) + 1
    return {"obs": obs, "viol": viol, "nontrivial": bool(changed or nsol),
            "key": repr((api, case["union"], case["init"], case.get("reg"), text)), "stats": stats}


def canon_int(quads):
    return canon({tuple(("f", str(x)) if x >= 1000 else x for x in q) for q in quads})


def _classify(case, extra, missing):
    """tag = the clause of the statement that the wrong dataset violates (kept stable for shrinking)"""
    for q in extra:
        if kind(q[0]) == "l" or kind(q[1]) != "i":
            return "illegal"
    return "state"


# ------------------------------------------------------------------ the model side


def _qs(quads, sp=ABS):
    return " ".join(f"{sp.m(s)} {sp.m(p)} {sp.m(o)} {sp.m(g)}" for s, p, o, g in quads)


def _wmode_tokens(wm, sp):
    if wm and wm[0] == "union":
        return [1, len(wm[1]), _qs(wm[1], sp)]
    if wm and wm[0] == "proj":
        return [2, len(wm[1]), *wm[1]]
    return [0]


def _plus1(tokens):
    """block count + 1 in front (0 is reserved for an absent clause)"""
    nb, _, rest = tokens.partition(" ")
    return (str(int(nb) + 1) + " " + rest).strip()


def _parts_tokens(quads, split, eb, sp):
    """the written block structure for the model: nb, then per block  g nt (s p o)…"""
    ps = parts(quads, split, eb)
    toks = [str(len(ps))]
    for g, ts in ps:
        toks += [sp.m(g), str(len(ts))] + [sp.m(x) for t in ts for x in t]
    return " ".join(toks)


def op_line(op, sp=ABS):
    k = op["k"]
    if k in ("insertdata", "deletedata"):
        return f"{k} {_parts_tokens(op['q'], op.get('split'), op.get('eb'), sp)}"
    if k == "deletewhere":
        return f"{k} {len(op['q'])} {_qs(op['q'], sp)}".strip()
    if k == "modify" and op.get("walg"):
        d, i = op.get("del"), op.get("ins")
        return " ".join(str(x) for x in [
            "modifyalg", sp.m(op.get("with") or 0),
            *([0] if d is None else [_plus1(_parts_tokens(d, op.get("split"), op.get("eb"), sp))]),
            *([0] if i is None else [_plus1(_parts_tokens(i, op.get("split"), op.get("eb"), sp))]),
            len(op.get("using", [])), *[sp.m(g) for g in op.get("using", [])],
            len(op.get("named", [])), *[sp.m(g) for g in op.get("named", [])],
            "|", "@ALG@"] if x != "")
    if k == "modify":
        d, i = op.get("del"), op.get("ins")
        f = op.get("filter")
        return " ".join(str(x) for x in [
            "modify", sp.m(op.get("with") or 0),
            *([0] if d is None else [_plus1(_parts_tokens(d, op.get("split"), op.get("eb"), sp))]),
            *([0] if i is None else [_plus1(_parts_tokens(i, op.get("split"), op.get("eb"), sp))]),
            len(op.get("using", [])), *[sp.m(g) for g in op.get("using", [])],
            len(op.get("named", [])), *[sp.m(g) for g in op.get("named", [])],
            len(op["where"]), _qs(op["where"], sp),
            *_wmode_tokens(op.get("wmode"), sp),
            *([1, f[0], 0 if f[1] == "=" else 1, sp.m(f[2])] if f else [0])] if x != "")
    s = 1 if op.get("silent") else 0
    if k == "create":
        return f"create {s} {sp.m(op['g'])}"
    if k == "load":
        doc = op["doc"]
        return " ".join(["load", str(s), "0" if doc is None else "1", sp.m(op["into"]), str(len(doc or []))]
                        + [sp.m(x) for t in (doc or []) for x in t])
    if k in ("clear", "drop"):
        t = op["t"]
        return f"{k} {s} {t if isinstance(t, str) else 'GRAPH ' + sp.m(t)}"
    return f"{k} {s} {sp.m(op['src'])} {sp.m(op['dst'])}"


def model_lines(case):
    lines = [f"reset {case['api']} {1 if case['union'] else 0}"]
    for q in case["init"]:
        lines.append("init " + " ".join(map(str, q if case["api"] != "graph" else q[:3] + [0])))
    for g in case.get("reg", []):
        if case["api"] != "graph":
            lines.append(f"reg {g}")
    rendered, ids = render(case)
    lines += table_lines(ids)
    algs = {}
    if any(op.get("walg") for op in case["ops"]):
        # the WHERE clause of a full-algebra operation reaches the model as the tree rdflib ITSELF built for this
        # request (translateUpdate -> translateUpdate1: translated, simplified, annotated), not as the written pattern
        # (the operation is translated on its own, templates left out — translateUpdate1 treats every operation
        # separately and the WHERE clause is written with absolute IRIs — because rdflib's parser needs ~40 ms per request)
        for k, op in enumerate(case["ops"]):
            if op.get("walg"):
                algs[k] = update_where_tree(walg_group_text(op["walg"]))
    for _run in range(case.get("runs", 1)):
        for k, (_d, _body, dl, ol) in enumerate(rendered):
            lines += dl
            lines.append(ol.replace("@ALG@", algs.get(k, "( none )")))
    lines += ["err", "quads", "known"]
    return lines


def select_model_obs(case, out):
    err, quads, known = out[-3:]
    qs = set()
    for w in quads.split():
        qs.add(tuple(("f", x) if int(x) >= 1000 else int(x) for x in w.split(",")))
    return [err, show_quads(canon(qs)), known]


# ------------------------------------------------------------------ generator


def gen_case(rng, tier, i):
    while True:
        case = _gen_case(rng, tier, i)
        try:
            try:
                spec_request(case)
            except TooBig:
                if case.get("runs", 1) == 1:
                    continue
                case["runs"] = 1
                spec_request(case)
            return case
        except (Unspecified, TooBig):
            continue


def _gen_case(rng, tier, i):
    api = rng.choice(["graph", "cg", "cgi", "ds", "ds", "dsu"])
    union = rng.random() < 0.6
    single = api == "graph"
    ngraphs = 0 if single else rng.choice([0, 1, 2, 2, 3])
    present = GNAMES[:ngraphs]
    reg = []
    if present and rng.random() < 0.25:
        reg = [present[-1]]                       # registered, stays empty unless an op fills it
    filled = [g for g in present if g not in reg]
    anyg = GNAMES[: min(4, ngraphs + 1)]         # includes one missing graph
    subj = [1, 2, 3, 30] if rng.random() < 0.7 else [1, 2]
    pred = [4, 5] if rng.random() < 0.7 else [4]
    if rng.random() < 0.3:                        # IRIs with a fragment / in a sub-directory (see BASES)
        subj = subj + [8]
    obj = [1, 2, 3, 20, 21, 22, 23, 24, 31, 90] if rng.random() < 0.6 else [1, 2, 3]
    if 8 in subj:
        obj = obj + [7, 8]
    # a third of the requests have DELETE/INSERT operations whose WHERE clause is a pattern of the full algebra (OPTIONAL,
    # MINUS, UNION, FILTER, BIND, VALUES, sub-select, GRAPH, EXISTS): literals are then the typed ones of LIT
    algcase = rng.random() < 0.2
    if algcase:
        obj = [x for x in obj if x != 23] + ([21, 24, 25, 26, 27] if len(obj) > 5 else [])

    def triple():
        return [rng.choice(subj), rng.choice(pred), rng.choice(obj)]

    init = []
    for _ in range(rng.choice([0, 1, 2, 3, 4, 4, 5, 6, 7, 8])):
        q = triple() + [rng.choice([0, 0] + filled)]
        if q not in init:
            init.append(q)
    cyc = None
    if rng.random() < 0.35:                       # a 2-cycle or a chain: one solution's insertion is another's deletion
        a, b, c = rng.sample([1, 2, 3, 30], 3)
        g = rng.choice([0, 0] + filled)
        pr = rng.choice(pred)
        cyc = (pr, g)
        for q in ([[a, pr, b, g], [b, pr, a, g]] if rng.random() < 0.5 else [[a, pr, b, g], [b, pr, c, g]]):
            if q not in init:
                init.append(q)
    if init and rng.random() < 0.3:               # the same triple in two graphs
        q = list(rng.choice(init))
        q[3] = rng.choice([0] + filled)
        if q not in init:
            init.append(q)

    empty_ds = False
    if not single and present and rng.random() < 0.04:
        # a dataset WITHOUT a single triple but with registered (empty) graphs — `len(dataset) == 0`, the dataset object is
        # falsy — on which DROP / CLEAR NAMED | ALL still have graphs to remove (systematic mutant C10-8: `not ctx._dataset`)
        init, cyc, reg, filled, empty_ds = [], None, list(present[-2:]), [], True

    def gname(allow_default=True):
        pool = list(anyg) + ([0, 0] if allow_default else [])
        return rng.choice(pool) if pool else 0

    VARS = [40, 41, 42, 43]

    def pat_term(pool, pvar):
        return rng.choice(VARS) if rng.random() < pvar else rng.choice(pool)

    def pattern(n, graphs, dflt_from=None, grouped=True):
        """n triple patterns over `graphs`; mostly generalisations of triples that are there (so that the
        pattern has solutions), a later pattern sharing a term (hence a variable) with an earlier one"""
        out, names = [], {}

        def var_for(term):
            if term not in names:
                names[term] = rng.choice([v for v in VARS if v not in names.values()] or VARS)
            return names[term]

        prev = None
        for _ in range(n):
            g = rng.choice(graphs)
            if g == 0:
                pool = [q for q in init if (q[3] in dflt_from if dflt_from is not None else (q[3] == 0 or union))]
            else:
                pool = [q for q in init if q[3] == g or kind(g) == "v" and q[3] != 0]
            if pool and rng.random() < 0.8:
                linked = [q for q in pool if prev and (set(q[:3]) & set(prev[:3]))]
                q = rng.choice(linked) if linked and rng.random() < 0.7 else rng.choice(pool)
                prev = q
                out.append([var_for(q[0]) if rng.random() < 0.65 else q[0],
                            var_for(q[1]) if rng.random() < 0.25 else q[1],
                            var_for(q[2]) if rng.random() < 0.65 else q[2], g])
            else:
                out.append([pat_term(subj, 0.7), pat_term(pred, 0.3), pat_term(obj, 0.7), g])
        if not grouped:
            return out
        out.sort(key=lambda q: (q[3] != 0,))      # default triples first, blocks keep their order
        # equal graphs adjacent (one GRAPH block per graph)
        seen, res = [], []
        for q in out:
            if q[3] not in seen:
                seen.append(q[3])
        for g in seen:
            res += [q for q in out if q[3] == g]
        return res

    def template(wvars, n, graphs, bnodes, grouped=True):
        out = []
        pool_v = wvars or VARS[:1]
        for _ in range(n):
            def tt(pool, pvar, allow_b):
                r = rng.random()
                if allow_b and bnodes and r < 0.2:
                    return rng.choice([50, 51])
                if r < pvar:
                    return rng.choice(pool_v) if rng.random() < 0.93 else 46      # 46 is never bound
                return rng.choice(pool)
            g = rng.choice(graphs)
            out.append([tt(subj, 0.6, True), tt(pred, 0.35, False), tt(obj, 0.6, True), g])
        if not grouped:
            return out
        seen, res = [], []
        for q in out:
            if q[3] not in seen:
                seen.append(q[3])
        for g in sorted(seen, key=lambda g: g != 0):
            res += [q for q in out if q[3] == g]
        return res

    def repeat_pool(force=None):
        """sometimes: a pool of graph terms in which one named graph dominates, so that the operation names it
        in several GRAPH blocks (interleaved with default-graph triples and another graph)"""
        if single or rng.random() > 0.3:
            return None
        g = (force or [rng.choice(anyg)])[0]
        return [g, g, g, 0, rng.choice(anyg)]

    def layout(q, rep):
        """quad list as it will be written: grouped by graph (one block per graph) or, for `rep`, as drawn
        (runs become blocks) and sometimes every quad in a block of its own"""
        if not rep:
            return {"q": _group(q)}
        return {"q": q, "split": rng.random() < 0.3}

    def gen_create_load():
        sl = rng.random() < 0.4
        if rng.random() < 0.35:
            return {"k": "create", "silent": sl, "g": rng.choice(GNAMES if single else anyg)}
        doc = None
        if rng.random() < 0.75:
            doc = []
            for _ in range(rng.randint(1, 3)):
                t = triple()
                if rng.random() < 0.3:
                    t[rng.choice([0, 2])] = rng.choice([50, 51])
                if t not in doc:
                    doc.append(t)
        into = 0
        if rng.random() < (0.1 if single else 0.45):
            into = rng.choice(GNAMES if single else anyg)
        return {"k": "load", "silent": sl, "doc": doc, "into": into}

    def gen_op():
        if rng.random() < 0.07:
            return gen_create_load()
        r = rng.random()
        gs = [0] if single else [0, 0] + anyg
        if single and rng.random() < 0.08:        # a plain Graph asked about a named graph: must fail (or SILENT)
            g = rng.choice(GNAMES)
            return rng.choice([
                {"k": "clear", "silent": rng.random() < 0.5, "t": g},
                {"k": "add", "silent": rng.random() < 0.5, "src": g, "dst": 0},
                {"k": "copy", "silent": rng.random() < 0.5, "src": 0, "dst": g},
                {"k": "insertdata", "q": [triple() + [g]]},
                {"k": "modify", "with": g, "del": None, "ins": [triple() + [0]], "using": [], "named": [],
                 "where": [], "filter": None}])
        if r < 0.12:
            rep = repeat_pool()
            q = []
            for _ in range(rng.randint(3, 5) if rep else rng.randint(1, 3)):
                t = triple() + [rng.choice(rep or gs)]
                if rng.random() < 0.15:
                    t[rng.choice([0, 2])] = rng.choice([50, 51])
                q.append(t)
            return {"k": "insertdata", **layout(q, rep)}
        if r < 0.22:
            rep = repeat_pool()
            pool = init or [triple() + [0]]
            q = []
            for _ in range(rng.randint(3, 5) if rep else rng.randint(1, 3)):
                t = list(rng.choice(pool)) if rng.random() < 0.7 else triple() + [rng.choice(gs)]
                if rep and rng.random() < 0.7:
                    same = [x for x in pool if x[3] in rep]
                    t = list(rng.choice(same)) if same and rng.random() < 0.7 else t[:3] + [rng.choice(rep)]
                elif rng.random() < 0.2:
                    t[3] = rng.choice(gs)
                if kind(t[0]) == "b" or kind(t[2]) == "b":
                    t = triple()[:0] + [1, t[1], 2, t[3]]     # DELETE DATA admits no blank nodes
                q.append(t)
            return {"k": "deletedata", **layout(q, rep)}
        if r < 0.34:
            graphs = [rng.choice(gs)] if rng.random() < 0.7 else gs
            if not single and rng.random() < 0.2:
                graphs = [44]                                   # GRAPH ?v44 { … }
            rep = repeat_pool([44] if graphs == [44] or (not single and rng.random() < 0.3) else None)
            q = pattern(rng.randint(2, 3) if rep else rng.randint(1, 2), rep or graphs, grouped=not rep)
            lay = layout([[x if kind(x) != "b" else 41 for x in t[:3]] + [t[3]] for t in q], rep)
            return {"k": "deletewhere", **lay}
        if r < 0.72:
            return gen_modify(gs)
        s = rng.random() < 0.3
        has_iri = api in ("ds", "dsu", "cgi")       # the default graph can also be named by an IRI
        if r < 0.86:
            t = "DEFAULT" if single else rng.choice(["DEFAULT", "NAMED", "ALL"] + anyg + anyg)
            if single:
                t = rng.choice(["DEFAULT", "DEFAULT", "ALL", "NAMED"])
            if has_iri and rng.random() < 0.1:
                t = DFLT_IRI
            return {"k": rng.choice(["clear", "drop"]), "silent": s, "t": t}
        if single:
            return {"k": rng.choice(["add", "move", "copy"]), "silent": s, "src": 0, "dst": 0}
        src = gname()
        dst = src if rng.random() < 0.15 else gname()
        if has_iri and rng.random() < 0.3:          # DEFAULT ↔ <default-iri> in every combination, and with other graphs
            src, dst = rng.choice([(0, DFLT_IRI), (DFLT_IRI, 0), (DFLT_IRI, DFLT_IRI), (DFLT_IRI, dst or 90),
                                   (src or 90, DFLT_IRI)])
        return {"k": rng.choice(["add", "move", "copy"]), "silent": s, "src": src, "dst": dst}

    def gen_modify_alg(gs):
        w, using, named = None, [], []
        likely = (filled + filled + anyg) if filled else anyg
        if not single:
            if rng.random() < 0.2:
                w = rng.choice(likely)
            if rng.random() < 0.15:
                using = list(dict.fromkeys(rng.choice(likely) for _ in range(rng.randint(1, 2))))
            if rng.random() < 0.1:
                named = list(dict.fromkeys(rng.choice(likely) for _ in range(rng.randint(1, 2))))
        # what the pattern will (mostly) be matched against — an aid for drawing satisfiable patterns, nothing more
        eff = union and api in ("cg", "cgi", "dsu")
        if using or named:
            dfl, nm = [q[:3] for q in init if q[3] in using], named
        else:
            dfl = [q[:3] for q in init if (q[3] == w if w else (q[3] == 0 or eff))]
            nm = [] if single else present
        dfl = dfl or [[1, 4, 2]]
        ds = {"default": [[list(sg_term(x)) for x in t] for t in dfl],
              "named": [[list(sg_term(g)), [[list(sg_term(x)) for x in q[:3]] for q in init if q[3] == g]] for g in nm],
              "union": False}
        feats = {"opt", "minus", "union", "values", "bind", "filter", "subsel", "group", "exists"} | (set() if single else {"graph"})
        walg = None
        for _ in range(25):
            q = sg.gen_query(rng, ds, depth=rng.choice([1, 2, 2, 3]), forms=("select",), features=feats)
            vs = sg.all_vars_group(q["where"])
            if vs and max(vs) > 9:
                continue
            try:
                cand = walg_from_sg(q["where"])
                walg_group_text(cand)
            except (KeyError, ValueError):
                continue
            walg = cand
            break
        if walg is None:
            return gen_modify(gs, False)
        wvars = sorted(40 + v for v in sg.in_scope(q["where"]))
        if wvars and rng.random() < 0.25 and max(sg.all_vars_group(q["where"])) <= 7:
            # BIND of a comparison that is an ERROR for IRIs / blank nodes / unbound (the solution is kept, ?v48 unbound)
            # and a boolean for literals
            walg[1].append(["bind", ["cmp", rng.choice(["lt", "gt", "le"]), ["var", rng.choice(wvars)],
                                     ["const", rng.choice([21, 24, 25])]], 48])
            wvars = wvars + [48]
        tg = [0] if single else ([0, 0, 0] + anyg + (wvars[:1] if rng.random() < 0.15 else []))
        c, d, i = rng.random(), None, None
        if c < 0.6:
            d = [[x if kind(x) not in "tb" else 1 for x in t] for t in template(wvars, rng.randint(1, 2), tg, False)]
        if c > 0.25 or d is None:
            i = template(wvars, rng.randint(1, 3), tg, rng.random() < 0.4)
        return {"k": "modify", "with": w, "del": d, "ins": i, "using": using, "named": named, "where": [],
                "filter": None, "split": False, "wmode": None, "walg": walg}

    def gen_modify(gs, alg_ok=True):
        if algcase and alg_ok and rng.random() < 0.7:
            return gen_modify_alg(gs)
        w = None
        using, named = [], []
        likely = (filled + filled + anyg) if filled else anyg
        if not single:
            if rng.random() < 0.25:
                w = rng.choice(likely)
            if rng.random() < 0.2:
                using = list(dict.fromkeys(rng.choice(likely) for _ in range(rng.randint(1, 2))))
            if rng.random() < 0.12:
                named = list(dict.fromkeys(rng.choice(likely) for _ in range(rng.randint(1, 2))))
        wg = [0] if single else ([0, 0, 0] + anyg + ([44] if rng.random() < 0.4 else []))
        nw = rng.choice([0, 1, 1, 1, 2, 2])
        shape = rng.random()
        where = pattern(nw, [rng.choice(wg)] if rng.random() < 0.6 else wg,
                        using if (using or named) else [w] if w else None)
        where = [[x if kind(x) != "b" else 42 for x in t[:3]] + [t[3]] for t in where]
        wvars = sorted({x for q in where for x in q if kind(x) == "v"})
        flt = None
        if wvars and rng.random() < 0.2:
            flt = [rng.choice(wvars), rng.choice(["=", "!=", "!="]), rng.choice([1, 2, 3, 90])]
        tg = [0] if single else ([0, 0, 0] + anyg + ([44, 44] if 44 in wvars else []))
        if not single and rng.random() < 0.15:
            tg = tg + [46] + wvars[:2]                      # GRAPH ?unbound { … }, GRAPH ?boundToAnything { … }
        d = i = None
        split = False
        if shape < 0.35:                           # overlap shapes: delete the matched triple, insert a permutation of it
            g = w0 = rng.choice([0, 0] + ([] if single else filled + [44]))
            if using:
                g = 0
            pr = rng.choice(pred) if rng.random() < 0.8 else 43
            if cyc and rng.random() < 0.7:
                pr, g = cyc[0], (cyc[1] if not using else 0)
                if using:
                    using[0] = cyc[1] or using[0]
            where = [[40, pr, 41, g]] + \
                ([q for q in where[:1] if q[3] != 0 or g == 0] if rng.random() < 0.2 else [])
            where = _group(where)
            wvars = sorted({x for q in where for x in q if kind(x) == "v"})
            if flt and flt[0] not in wvars:
                flt = None
            tg = [0] if single else ([0, 0, 0] + anyg + ([44, 44] if 44 in wvars else []))
            q = where[0] if where[0][0] == 40 else next(x for x in where if x[0] == 40)
            d = [list(q)]
            perm = rng.choice([(2, 1, 0), (2, 1, 0), (2, 1, 0), (0, 1, 2), (2, 1, 2), (0, 1, 0)])
            i = [[q[perm[0]], q[1], q[perm[2]], q[3] if rng.random() < 0.8 else rng.choice(tg)]]
            if rng.random() < 0.3:                 # fan-out: { ?x p ?y . ?x p ?z }, delete (x,y), insert (x,z)
                q2 = [40, q[1], 42, q[3]]
                where = _group(where + [q2])
                wvars = sorted({x for t in where for x in t if kind(x) == "v"})
                i = [list(q2)]
            if rng.random() < 0.3:
                i.append([rng.choice(wvars or [1]), rng.choice(pred), rng.choice(obj), rng.choice(tg)])
            i = _group(i)
        else:
            c = rng.random()
            rep = repeat_pool([44] if 44 in wvars and rng.random() < 0.5 else None)
            if rep:                                # one graph (IRI or ?v44) named by several GRAPH blocks of a template
                split = rng.random() < 0.3
                if c < 0.7:
                    d = [[x if kind(x) != "t" else 40 for x in q]
                         for q in template(wvars, rng.randint(3, 4), rep, False, grouped=False)]
                if c > 0.25 or d is None:
                    i = template(wvars, rng.randint(3, 5), rep, rng.random() < 0.5, grouped=False)
            else:
                if c < 0.7:
                    d = [[x if kind(x) != "t" else 40 for x in q] for q in template(wvars, rng.randint(1, 2), tg, False)]
                if c > 0.25 or d is None:
                    i = template(wvars, rng.randint(1, 3), tg, rng.random() < 0.5)
        if d is not None:
            d = [[x if kind(x) != "b" else 1 for x in q] for q in d]   # no blank nodes in DELETE templates
        # WHERE clauses whose solutions REPEAT (solutions are a bag): { A } UNION { A' } and a sub-select that
        # projects a variable away; mostly with a blank node in the INSERT template (fresh per OCCURRENCE)
        wmode, r2 = None, rng.random()
        if where and r2 < 0.2:
            if rng.random() < 0.6:
                other = [list(q) for q in where]
            else:
                other = pattern(rng.randint(1, 2), sorted({q[3] for q in where}, key=str),
                                using if (using or named) else [w] if w else None)
                other = [[x if kind(x) != "b" else 42 for x in t[:3]] + [t[3]] for t in other]
            wmode = ["union", other]
        elif where and wvars and r2 < 0.32:
            keep = [v for v in wvars if rng.random() < 0.6] or [rng.choice(wvars)]
            wmode = ["proj", keep]
            if flt and flt[0] not in keep and rng.random() < 0.7:
                flt = None
        if wmode and rng.random() < 0.75:
            extra = [rng.choice((wmode[1] if wmode[0] == "proj" else wvars) or [1]), rng.choice(pred), 50,
                     rng.choice([0] if single else [0, 0] + anyg)]
            i = _group((i or []) + [extra]) if not split else (i or []) + [extra]
        return {"k": "modify", "with": w, "del": d, "ins": i, "using": using, "named": named, "where": where,
                "filter": flt, "split": split, "wmode": wmode}

    ops = [gen_op() for _ in range(rng.choice([1, 1, 1, 2, 2, 3, 4]))]
    if empty_ds:
        ops[0] = {"k": rng.choice(["drop", "drop", "clear"]), "silent": rng.random() < 0.3, "t": rng.choice(["NAMED", "ALL"])}
    if any(o["k"] == "load" for o in ops):
        for o in ops:                             # SPARQL_LOAD_GRAPHS will be on: no USING (it would fetch empty graphs)
            if o["k"] == "modify":
                o["using"], o["named"] = [], []
    for op in ops:                                # now and then an EMPTY `GRAPH g { }` block closes the quad data / templates
        if not single and op["k"] in ("insertdata", "deletedata", "modify") and rng.random() < 0.1:
            op["eb"] = [rng.choice(anyg + ([44] if op["k"] == "modify" else []))]
    case = {"api": api, "union": union, "init": init, "reg": reg, "ops": ops, "prep": rng.random() < 0.3}
    if rng.random() < (0.5 if case["prep"] else 0.08):
        case["runs"] = rng.choice([2, 2, 3])          # the (prepared) request executed again on the same dataset
        if rng.random() < 0.5 and not any(kind(x) in "bt" for o in ops for f in ("q", "ins") for q in (o.get(f) or [])
                                          for x in q[:3]):
            for o in ops:                             # make sure there are blank nodes to mint
                if o["k"] == "insertdata":
                    o["q"] = o["q"] + [[50, rng.choice(pred), rng.choice(obj), o["q"][-1][3]]]
                    break
                if o["k"] == "modify" and o.get("ins"):
                    o["ins"] = o["ins"] + [[rng.choice([1, 2]), rng.choice(pred), 50, o["ins"][-1][3]]]
                    break
    if case["prep"] and rng.random() < 0.3:
        case["second"] = True
    if rng.random() < 0.4:
        # BASE / PREFIX before the first operation, sometimes redeclared before a later one; the IRIs of EVERY
        # operation (terms and graph names) are then written relative / prefixed where such a spelling exists
        def rel_prefix(b):
            return ["prefixrel", rng.randrange(2), rng.choice(["../", "./"] if b == 2 else ["sub/", "./"])]

        decl, b = [], None
        for k in range(len(ops)):
            ds = []
            if (k == 0 and rng.random() < 0.85) or (k > 0 and rng.random() < 0.25):
                b = rng.choice([x for x in range(3) if x != b])
                ds.append(["base", b])
            if (k == 0 and rng.random() < 0.6) or (k > 0 and rng.random() < 0.2):
                ds.append(["prefix", rng.randrange(2), rng.choice([0, 0, 1])])
            if b is not None and rng.random() < (0.25 if k == 0 else 0.1):
                ds.append(rel_prefix(b))
            decl.append(ds)                   # BASE first: a relative PREFIX IRI needs a base in force
        case["decl"] = decl
        for op in ops:
            op["sp"] = [rng.choice([0, 1, 1, 1, 2, 2]) for _ in range(rng.randint(2, 4))]
    return case


def _group(quads):
    seen, res = [], []
    for q in quads:
        if q[3] not in seen:
            seen.append(q[3])
    for g in sorted(seen, key=lambda g: g != 0):
        res += [q for q in quads if q[3] == g]
    return res


# ------------------------------------------------------------------ shrinking, matchers


def _decl_ok(case):
    """a relative PREFIX IRI is only written where a base is in force under which it denotes a known namespace"""
    pro = Prologue()
    for ds in case.get("decl") or []:
        for d in ds:
            if d[0] == "prefixrel" and (pro.base is None or resolve(BASES[pro.base], d[2]) not in NSS):
                return False
            pro.declare(d)
    return True


def shrink(case):
    for c in _shrink(case):
        if _decl_ok(c):
            yield c


def _shrink(case):
    ops, init = case["ops"], case["init"]
    for i in range(len(ops)):
        if len(ops) > 1:
            c2 = {**case, "ops": ops[:i] + ops[i + 1:]}
            if case.get("decl"):
                dd = [list(x) for x in case["decl"]] + [[] for _ in range(len(ops) - len(case["decl"]))]
                if i + 1 < len(dd):
                    dd[i + 1] = dd[i] + dd[i + 1]        # its declarations stay in force for what follows
                c2["decl"] = dd[:i] + dd[i + 1:]
            yield c2
    for i in range(len(init)):
        yield {**case, "init": init[:i] + init[i + 1:]}
    if case.get("reg"):
        yield {**case, "reg": []}
    for i, op in enumerate(ops):
        if op["k"] == "load" and op["doc"] and len(op["doc"]) > 1:
            for j in range(len(op["doc"])):
                yield {**case, "ops": ops[:i] + [{**op, "doc": op["doc"][:j] + op["doc"][j + 1:]}] + ops[i + 1:]}
        for f in ("q", "del", "ins", "where"):
            lst = op.get(f)
            if lst and (len(lst) > 1 or f == "where"):
                for j in range(len(lst)):
                    yield {**case, "ops": ops[:i] + [{**op, f: lst[:j] + lst[j + 1:]}] + ops[i + 1:]}
        if op["k"] == "modify" and op.get("walg"):
            try:
                smaller = list(sg.shrink_query({"form": "select", "proj": None, "where": walg_to_sg(op["walg"]),
                                                "template": []}))
            except Exception:  # noqa: BLE001
                smaller = []
            for q2 in smaller:
                try:
                    w2 = walg_from_sg(q2["where"], 0)
                    walg_group_text(w2)
                except (KeyError, ValueError):
                    continue
                if w2 != op["walg"] and not walg_problems(w2):
                    yield {**case, "ops": ops[:i] + [{**op, "walg": w2}] + ops[i + 1:]}
        if op["k"] == "modify":
            for f, v in (("with", None), ("filter", None), ("using", []), ("named", []), ("wmode", None)):
                if op.get(f):
                    yield {**case, "ops": ops[:i] + [{**op, f: v}] + ops[i + 1:]}
            if op.get("del") is not None and op.get("ins") is not None:
                yield {**case, "ops": ops[:i] + [{**op, "del": None}] + ops[i + 1:]}
                yield {**case, "ops": ops[:i] + [{**op, "ins": None}] + ops[i + 1:]}
    if case["api"] in ("cg", "dsu", "cgi"):
        yield {**case, "api": "ds"}
    if case["union"]:
        yield {**case, "union": False}
    if case.get("prep"):
        yield {**case, "prep": False}
    if case.get("runs", 1) > 1:
        yield {**case, "runs": case["runs"] - 1}
    if case.get("second"):
        yield {**case, "second": False}
    if case.get("decl"):
        yield {k_: v for k_, v in case.items() if k_ != "decl"}
        for i in range(len(case["decl"])):
            if case["decl"][i] and i > 0:
                yield {**case, "decl": case["decl"][:i] + [[]] + case["decl"][i + 1:]}
    for i, op in enumerate(ops):
        if op.get("eb"):
            yield {**case, "ops": ops[:i] + [{k_: v for k_, v in op.items() if k_ != "eb"}] + ops[i + 1:]}
    for i, op in enumerate(ops):
        if op.get("split"):
            yield {**case, "ops": ops[:i] + [{**op, "split": False}] + ops[i + 1:]}


# ---- matchers of the (fixed) findings: shapes only; `fixed` witnesses are re-run first on every run and must pass


def _one(case, kind):
    return len(case["ops"]) == 1 and case["ops"][0]["k"] == kind


def _state(result):
    return any(v.startswith("state") for v in result["viol"])


MATCHERS = {
    "modify_interleaved": lambda c, r: _one(c, "modify") and c["ops"][0].get("del") is not None
    and c["ops"][0].get("ins") is not None and _state(r),
    "deletewhere_lazy": lambda c, r: _one(c, "deletewhere") and len(c["ops"][0]["q"]) >= 2 and _state(r),
    "template_illegal": lambda c, r: _one(c, "modify") and any(v.startswith("illegal") for v in r["viol"]),
    "default_write_target": lambda c, r: c["union"] and c["api"] != "graph" and len(c["ops"]) == 1 and bool(r["viol"]),
    "insertdata_label": lambda c, r: _one(c, "insertdata") and _state(r)
    and any(kind(x) in "bt" for q in c["ops"][0]["q"] for x in q[:3]),
    "template_bnode_scope": lambda c, r: _one(c, "modify") and _state(r)
    and len({q[3] for q in (c["ops"][0].get("ins") or []) if any(kind(x) in "bt" for x in q[:3])}) > 1,
    "template_graph_unbound": lambda c, r: _one(c, "modify") and _state(r)
    and any(kind(q[3]) == "v" for q in (c["ops"][0].get("ins") or [])),
    "deletewhere_graphvar": lambda c, r: _one(c, "deletewhere") and _state(r)
    and any(kind(q[3]) == "v" for q in c["ops"][0]["q"]),
    "using_dataset": lambda c, r: _one(c, "modify") and _state(r)
    and bool(c["ops"][0].get("using") or c["ops"][0].get("named")),
    "where_unannotated": lambda c, r: _one(c, "modify") and bool(c["ops"][0].get("walg")) and _state(r)
    and bool({"opt", "minus", "exists"} & walg_features(c["ops"][0]["walg"])),
    "plain_graph_drop": lambda c, r: c["api"] == "graph" and len(c["ops"]) == 1
    and c["ops"][0]["k"] in ("clear", "drop") and bool(r["viol"]),
}
