"""C10 — SPARQL Update changes the dataset exactly as the Update semantics prescribe.  DESIGN §6 C10.

Case = {"api": "graph"|"cg"|"cgi"|"ds"|"dsu", "union": bool,
        "init": [[s,p,o,g]…]           g = 0 is the real default graph, 90…93 named graphs
        "reg":  [g…]                   graphs registered empty (graph-aware stores record them)
        "ops":  [op…]}                 one update request = 1–4 operations, sent as ONE string

op =  {"k":"insertdata"|"deletedata"|"deletewhere", "q":[[s,p,o,g]…]}
    | {"k":"modify","with":g|None,"del":[quad…]|None,"ins":[quad…]|None,"using":[g…],"named":[g…],
       "where":[quad…],"filter":[var,"="|"!=",iri]|None}
    | {"k":"clear"|"drop","silent":bool,"t":"DEFAULT"|"NAMED"|"ALL"|g}
    | {"k":"add"|"move"|"copy","silent":bool,"src":0|g,"dst":0|g}

Terms are small integers owned by the harness (kinds by range, see KIND below):
  1…9 IRIs, 20…24 literals (three falsy ones), 30…31 blank nodes of the store, 40…46 variables,
  50…52 blank-node labels of the request text, 90…93 graph-name IRIs (also usable as terms);
  blank nodes minted by the update are numbered 1000… in a canonical order.

api: graph = Graph(); cg = ConjunctiveGraph(); cgi = ConjunctiveGraph(identifier=<iri>);
     ds = Dataset(); dsu = Dataset(default_union=True).
union = rdflib.plugins.sparql.SPARQL_DEFAULT_GRAPH_UNION for the call (restored afterwards).
rdflib.plugins.sparql.SPARQL_LOAD_GRAPHS is False for the call (no network: USING must name
graphs of the store, as the Update specification says anyway).

Observations compared with the Lean model: per request  ok|error,  the quad set afterwards
(fresh blank nodes canonically numbered),  the registered graph names.
Property oracle (independent of Lean and of rdflib's evaluator): `spec_request` below — a direct
Python transcription of SPARQL 1.1 Update §3/§4.3 over dict-of-sets, with its own BGP matcher —
compared with the implementation's quads through `isoutil.iso`.
"""
import itertools
import warnings

import core  # noqa: F401
import isoutil
import rdflib.plugins.sparql as SPARQL_MOD
from rdflib import BNode, ConjunctiveGraph, Dataset, Graph, Literal, URIRef, Variable
from rdflib.plugins.sparql import prepareUpdate

warnings.filterwarnings("ignore", category=DeprecationWarning)

ID = "C10"
LEAN_TARGETS = ["RV.C10.Props", "RV.C10.Audit"]
AUDIT = "RV/C10/Audit.lean"
DRIVER = "drv_c10"
CASES = {"quick": 3000, "thorough": 60000, "search": 20000}
RULE = ("random update requests (1-4 operations: INSERT/DELETE DATA, DELETE WHERE, DELETE/INSERT..WHERE with WITH / USING / "
        "USING NAMED / GRAPH templates and patterns, CLEAR, DROP, ADD, MOVE, COPY) over datasets with 0-3 named graphs "
        "(one possibly registered-but-empty, one missing), through Graph / ConjunctiveGraph / Dataset with the union "
        "switch on and off; non-trivial = the request changed the dataset or a WHERE had at least one solution; "
        "distinct = distinct (api, union, init, request)")
ASSUMPTIONS = ["the Memory store behind Graph/ConjunctiveGraph/Dataset behaves as a set of quads (C01/C02)",
               "WHERE clauses are limited to basic graph patterns in the default graph and in GRAPH blocks plus one "
               "(in)equality FILTER against an IRI; richer patterns are C04's subject",
               "BNode() returns identifiers distinct from each other and from every identifier already present",
               "SPARQL_LOAD_GRAPHS is False (no network); LOAD and CREATE are outside the property's operation list"]
TRUSTED = ["harness/c10.py generators, request printer, canonical numbering of minted blank nodes (component-wise exact)",
           "lean/RV/C10/Drive.lean line protocol", "harness/isoutil.py (exact isomorphism decision)"]

# ------------------------------------------------------------------ vocabulary

E = "http://e/"
TERM = {}
for _i in range(1, 10):
    TERM[_i] = URIRef(f"{E}n{_i}")
TERM.update({20: Literal(""), 21: Literal(0), 22: Literal(False), 23: Literal("x", lang="en"), 24: Literal(1)})
TERM.update({30: BNode("b30"), 31: BNode("b31")})
for _i in range(40, 47):
    TERM[_i] = Variable(f"v{_i}")
for _i in range(50, 53):
    TERM[_i] = BNode(f"t{_i}")
for _i in range(90, 94):
    TERM[_i] = URIRef(f"{E}g{_i}")
REV = {v: k for k, v in TERM.items() if not isinstance(v, Variable) and not (50 <= k < 60)}
GNAMES = [90, 91, 92, 93]
CGI_ID = URIRef(E + "cgdefault")


def kind(n):
    if n >= 1000 or 30 <= n < 40:
        return "b"
    if 20 <= n < 30:
        return "l"
    if 40 <= n < 50:
        return "v"
    if 50 <= n < 60:
        return "t"
    return "i"


def n3(n):
    t = TERM[n]
    if isinstance(t, Variable):
        return "?" + str(t)
    if isinstance(t, BNode):
        return "_:" + str(t)
    return t.n3()


# ------------------------------------------------------------------ request text


def _block(quads):
    """quads grouped the way a user writes them: runs of equal graph; default-graph runs as plain triples,
    the others as one GRAPH block each"""
    out = []
    for g, grp in itertools.groupby(quads, key=lambda q: q[3]):
        ts = " . ".join(f"{n3(s)} {n3(p)} {n3(o)}" for s, p, o, _g in grp)
        out.append(ts + " ." if g == 0 else f"GRAPH {n3(g)} {{ {ts} }}")
    return " ".join(out)


def _gref(t):
    return t if isinstance(t, str) else ("DEFAULT" if t == 0 else f"GRAPH {n3(t)}")


def _gref2(t):
    return "DEFAULT" if t == 0 else n3(t)


def op_text(op):
    k = op["k"]
    if k == "insertdata":
        return f"INSERT DATA {{ {_block(op['q'])} }}"
    if k == "deletedata":
        return f"DELETE DATA {{ {_block(op['q'])} }}"
    if k == "deletewhere":
        return f"DELETE WHERE {{ {_block(op['q'])} }}"
    if k == "modify":
        parts = []
        if op.get("with"):
            parts.append(f"WITH {n3(op['with'])}")
        if op.get("del") is not None:
            parts.append(f"DELETE {{ {_block(op['del'])} }}")
        if op.get("ins") is not None:
            parts.append(f"INSERT {{ {_block(op['ins'])} }}")
        for g in op.get("using", []):
            parts.append(f"USING {n3(g)}")
        for g in op.get("named", []):
            parts.append(f"USING NAMED {n3(g)}")
        w = _block(op["where"])
        if op.get("filter"):
            v, o, c = op["filter"]
            w += f" FILTER ({n3(v)} {o} {n3(c)})"
        parts.append(f"WHERE {{ {w} }}")
        return " ".join(parts)
    s = " SILENT" if op.get("silent") else ""
    if k in ("clear", "drop"):
        return f"{k.upper()}{s} {_gref(op['t'])}"
    return f"{k.upper()}{s} {_gref2(op['src'])} TO {_gref2(op['dst'])}"


def request_text(case):
    return " ;\n".join(op_text(o) for o in case["ops"])


# ------------------------------------------------------------------ the property's own oracle (SPARQL 1.1 Update)


class SpecError(Exception):
    pass


class Unspecified(Exception):
    """the request leaves SPARQL's domain (a template's GRAPH variable bound to a blank node: rdflib
    allows graphs named by blank nodes, SPARQL does not) — never generated"""


def _match(pat, triple, mu):
    mu2 = None
    for x, y in zip(pat, triple):
        if kind(x) in "vt":          # variables; blank-node labels in a pattern act as variables
            b = (mu2 or mu).get(x)
            if b is None:
                if mu2 is None:
                    mu2 = dict(mu)
                mu2[x] = y
            elif b != y:
                return None
        elif x != y:
            return None
    return mu2 if mu2 is not None else mu


def _bgp(pats, triples, mus):
    for pat in pats:
        mus = [m2 for m in mus for t in triples for m2 in [_match(pat, t, m)] if m2 is not None]
    return mus


def _compatible_merge(a, b):
    for k, v in a.items():
        if k in b and b[k] != v:
            return None
    return {**a, **b}


def spec_where(where, flt, dflt, named):
    """solutions of the group `where` over the query dataset (dflt : set of triples, named : {g: triples})."""
    sols = [{}]
    for g, grp in itertools.groupby(where, key=lambda q: q[3]):
        pats = [q[:3] for q in grp]
        if g == 0:
            part = _bgp(pats, dflt, [{}])
        elif kind(g) == "v":
            part = []
            for name, ts in named.items():
                part += [m2 for m in _bgp(pats, ts, [{}]) for m2 in [_compatible_merge(m, {g: name})] if m2 is not None]
        else:
            part = _bgp(pats, named.get(g, set()), [{}])
        sols = [m for a in sols for b in part for m in [_compatible_merge(a, b)] if m is not None]
    if flt:
        v, o, c = flt
        sols = [m for m in sols if v in m and ((m[v] == c) if o == "=" else (m[v] != c))]
    # a set of solutions is enough: Dataset(QuadPattern, Ω) is a union over μ ∈ Ω and sk_μ depends on μ only
    seen, out = set(), []
    for m in sols:
        key = tuple(sorted(m.items()))
        if key not in seen:
            seen.add(key)
            out.append(m)
    return out


def spec_instantiate(template, mu, default_target, fresh, info=None):
    """Dataset(QuadPattern, μ): quads with an unbound variable or an illegal term are left out;
    blank-node labels are replaced through `fresh` (one new node per label for this μ)."""
    out, bmap = set(), {}
    info = info if info is not None else {}
    for q in template:
        r = []
        for x in q[:3]:
            if kind(x) in "tb":      # a blank node written in the request is a label, never the store's node
                if x not in bmap:
                    bmap[x] = fresh()
                r.append(bmap[x])
            elif kind(x) == "v":
                r.append(mu.get(x))
            else:
                r.append(x)
        g = q[3]
        if g == 0:
            g = default_target
        elif kind(g) == "v":
            g = mu.get(g)
        if None in r or g is None:
            info["skip_unbound"] = info.get("skip_unbound", 0) + 1
            continue
        if g != 0 and kind(g) == "b":
            raise Unspecified()
        if kind(r[0]) == "l" or kind(r[1]) != "i" or (g != 0 and kind(g) != "i"):
            info["skip_illegal"] = info.get("skip_illegal", 0) + 1
            continue
        out.add((r[0], r[1], r[2], g))
    return out


def _needs_dataset(op):
    k = op["k"]
    if k in ("insertdata", "deletedata", "deletewhere"):
        return any(q[3] != 0 for q in op["q"])
    if k == "modify":
        return bool(op.get("with") or op.get("using") or op.get("named")
                    or any(q[3] != 0 for part in ("del", "ins", "where") for q in (op.get(part) or [])))
    if k in ("clear", "drop"):
        return op["t"] not in ("DEFAULT", "ALL", "NAMED")
    return op["src"] != 0 or op["dst"] != 0


def spec_op(op, G, eff_union, single_graph, fresh, info=None):
    """G : {graph name (0 = default): set of triples}; returns the new G (never mutates)."""
    info = info if info is not None else {}
    if single_graph and _needs_dataset(op):
        raise SpecError("a plain Graph has no named graphs")
    G = {g: set(ts) for g, ts in G.items()}
    k = op["k"]

    def graph(g):
        return G.get(g, set())

    def apply(dels, inss):
        for s, p, o, g in dels:
            G.setdefault(g, set()).discard((s, p, o))
        for s, p, o, g in inss:
            G.setdefault(g, set()).add((s, p, o))

    if k == "insertdata":
        apply(set(), spec_instantiate(op["q"], {}, 0, fresh))
    elif k == "deletedata":
        apply(spec_instantiate(op["q"], {}, 0, fresh), set())
    elif k in ("deletewhere", "modify"):
        if k == "deletewhere":
            op = {"where": op["q"], "del": op["q"], "ins": None}
        w = op.get("with") or 0
        using, named = op.get("using", []), op.get("named", [])
        if using or named:
            dflt = set().union(*[graph(g) for g in using]) if using else set()
            nmd = {g: graph(g) for g in named}
        else:
            nmd = {g: ts for g, ts in G.items() if g != 0}
            if w:
                dflt = graph(w)
            elif eff_union:
                dflt = set().union(*G.values()) if G else set()
            else:
                dflt = graph(0)
        sols = spec_where(op["where"], op.get("filter"), dflt, nmd)
        dels, inss, per = set(), set(), []
        for mu in sols:
            d = spec_instantiate(op["del"], mu, w, fresh, info) if op.get("del") is not None else set()
            per.append([d, set()])
            dels |= d
        for j, mu in enumerate(sols):
            i = spec_instantiate(op["ins"], mu, w, fresh, info) if op.get("ins") is not None else set()
            per[j][1] = i
            inss |= i
        apply(dels, inss)
        info["sols"] = info.get("sols", 0) + len(sols)
        info["where_" + ("0" if not sols else "1" if len(sols) == 1 else "2+")] = \
            info.get("where_" + ("0" if not sols else "1" if len(sols) == 1 else "2+"), 0) + 1
        if any(per[a][1] & per[b][0] for a in range(len(per)) for b in range(len(per)) if a != b):
            info["overlap_across_solutions"] = info.get("overlap_across_solutions", 0) + 1
    elif k in ("clear", "drop"):
        t = op["t"]
        names = [0] if t == "DEFAULT" else [g for g in G if g != 0] if t == "NAMED" else list(G) if t == "ALL" else [t]
        for g in names:
            G[g] = set()
    else:
        src, dst = op["src"], op["dst"]
        if src != dst:
            s = set(graph(src))
            if k in ("move", "copy"):
                G[dst] = set()
            G[dst] = graph(dst) | s
            if k == "move":
                G[src] = set()
    return G


def spec_request(case):
    """-> (set of quads, failed?, number of WHERE solutions seen, changed?)"""
    G = {0: set()}
    for s, p, o, g in case["init"]:
        G.setdefault(g, set()).add((s, p, o))
    for g in case.get("reg", []):
        G.setdefault(g, set())
    counter = itertools.count(1000)
    eff_union = case["union"] and case["api"] in ("cg", "cgi", "dsu")
    failed, info = False, {}
    before = {(s, p, o, g) for g, ts in G.items() for (s, p, o) in ts}
    gone = set()          # named graphs removed by DROP / MOVE and not written to since: must not be listed
    for op in case["ops"]:
        try:
            names_before = [g for g in G if g != 0]
            G = spec_op(op, G, eff_union, case["api"] == "graph", lambda: next(counter), info)
            if op["k"] == "drop":
                t = op["t"]
                gone |= set(names_before) if t in ("NAMED", "ALL") else {t} if t != "DEFAULT" else set()
            elif op["k"] == "move" and op["src"] != op["dst"] and op["src"] != 0:
                gone.add(op["src"])
            gone = {g for g in gone if not G.get(g)}
        except SpecError:
            info["must_fail" + ("_silent" if op.get("silent") else "")] = 1
            if not op.get("silent"):
                failed = True
                break
    quads = {(s, p, o, g) for g, ts in G.items() for (s, p, o) in ts}
    info["changed"] = int(quads != before)
    info["gone"] = sorted(gone)
    return quads, failed, info


# ------------------------------------------------------------------ canonical numbering of minted blank nodes


def canon(quads):
    """quads: tuples of ints (vocabulary) or ('f', label) for nodes minted by the update.
    Returns the sorted list of int quads with minted nodes numbered 1000… canonically:
    exact per connected component (colour refinement, then every order respecting the colour classes is
    tried and the least form kept), components sorted."""
    ground = sorted(q for q in quads if not any(isinstance(x, tuple) for x in q))
    rest = [q for q in quads if any(isinstance(x, tuple) for x in q)]
    parent = {}

    def find(x):
        while parent.setdefault(x, x) != x:
            parent[x] = parent[parent[x]]
            x = parent[x]
        return x

    for q in rest:
        fs = [x for x in q if isinstance(x, tuple)]
        for a in fs[1:]:
            parent[find(a)] = find(fs[0])
        find(fs[0])
    comps = {}
    for q in rest:
        comps.setdefault(find(next(x for x in q if isinstance(x, tuple))), []).append(q)
    forms = []
    for qs in comps.values():
        nodes = sorted({x for q in qs for x in q if isinstance(x, tuple)})
        # colour refinement (label-independent), then all orders that respect the colour classes
        col = {nd: 0 for nd in nodes}
        for _ in range(len(nodes) + 1):
            sig = {nd: sorted(tuple((0, col[x]) if isinstance(x, tuple) and x != nd else (1, 0) if x == nd else (2, x)
                                    for x in q) for q in qs if nd in q) for nd in nodes}
            ranks = {sg: i for i, sg in enumerate(sorted({repr((col[nd], sig[nd])) for nd in nodes}))}
            new = {nd: ranks[repr((col[nd], sig[nd]))] for nd in nodes}
            if new == col:
                break
            col = new
        classes = {}
        for nd in nodes:
            classes.setdefault(col[nd], []).append(nd)
        groups = [classes[c] for c in sorted(classes)]
        budget = 1
        for g_ in groups:
            for k in range(2, len(g_) + 1):
                budget *= k
        if budget > 50000:                # never seen; a deterministic but label-dependent fallback
            orders = [[nd for g_ in groups for nd in g_]]
        else:
            orders = ([nd for part in combo for nd in part]
                      for combo in itertools.product(*[itertools.permutations(g_) for g_ in groups]))
        best = None
        for order in orders:
            m = {nd: -1 - i for i, nd in enumerate(order)}      # negative = local index
            form = sorted(tuple(m.get(x, x) if isinstance(x, tuple) else x for x in q) for q in qs)
            if best is None or form < best:
                best = form
        forms.append((best, len(nodes)))
    forms.sort()
    out, base = list(ground), 1000
    for form, n in forms:
        for q in form:
            out.append(tuple(base + (-1 - x) if x < 0 else x for x in q))
        base += n
    return sorted(out)


def show_quads(qs):
    return " ".join(",".join(map(str, q)) for q in qs)


# ------------------------------------------------------------------ the implementation


def _build(case):
    api = case["api"]
    if api == "graph":
        top = Graph()
        dflt = top
    elif api == "cg":
        top = ConjunctiveGraph()
        dflt = top.default_context
    elif api == "cgi":
        top = ConjunctiveGraph(identifier=CGI_ID)
        dflt = top.default_context
    else:
        top = Dataset(default_union=(api == "dsu"))
        dflt = top.default_graph
    for s, p, o, g in case["init"]:
        t = (TERM[s], TERM[p], TERM[o])
        if g == 0 or api == "graph":
            dflt.add(t)
        else:
            top.get_context(TERM[g]).add(t)
    for g in case.get("reg", []):
        if api != "graph":
            top.store.add_graph(top.get_context(TERM[g]))
    return top, dflt


def _read(top, dflt, api):
    """-> (list of quads with ints / ('f', label), registered graph names)"""
    def num(t):
        if t in REV:
            return REV[t]
        if isinstance(t, BNode):
            return ("f", str(t))
        return ("f", "odd:" + t.n3())          # a term outside the vocabulary: shown, never equal to the model's

    out = []
    if api == "graph":
        for s, p, o in top:
            out.append((num(s), num(p), num(o), 0))
        return out, []

    def gnum(ident):
        return 0 if ident == dflt.identifier else num(ident)

    for (s, p, o), ctxs in top.store.triples((None, None, None), None):
        for c in ctxs:
            out.append((num(s), num(p), num(o), gnum(c.identifier)))
    names = [gnum(c.identifier) for c in top.store.contexts()]
    return out, names


def run_impl(case):
    api = case["api"]
    text = request_text(case)
    old_u, old_l = SPARQL_MOD.SPARQL_DEFAULT_GRAPH_UNION, SPARQL_MOD.SPARQL_LOAD_GRAPHS
    SPARQL_MOD.SPARQL_DEFAULT_GRAPH_UNION = bool(case["union"])
    SPARQL_MOD.SPARQL_LOAD_GRAPHS = False
    try:
        top, dflt = _build(case)
        try:
            if case.get("prep"):      # the same request as a prepared Update object (other entry of the glue)
                top.update(prepareUpdate(text))
            else:
                top.update(text)
            err = "ok"
        except Exception as e:  # noqa: BLE001
            err = "error"
            errtext = f"{type(e).__name__}: {str(e)[:120]}"
        # law `request_in_order`, evaluated on the implementation itself: the operations sent one at a time
        # (stopping at the first that raises) must leave the same dataset as the single request
        stepwise = None
        if len(case["ops"]) > 1:
            top2, dflt2 = _build(case)
            for op in case["ops"]:
                try:
                    top2.update(op_text(op))
                except Exception:  # noqa: BLE001
                    break
            stepwise = canon(set(_read(top2, dflt2, api)[0]))
    finally:
        SPARQL_MOD.SPARQL_DEFAULT_GRAPH_UNION, SPARQL_MOD.SPARQL_LOAD_GRAPHS = old_u, old_l
    raw, names = _read(top, dflt, api)
    quads = canon(set(raw))
    known = sorted({g for g in names if g != 0 and not isinstance(g, tuple)})
    odd_names = [g for g in names if isinstance(g, tuple)]
    obs = [err, show_quads(quads), ",".join(map(str, known)) + ("" if not odd_names else f" +{len(odd_names)}odd")]

    # ---- the property, decided on the implementation's behaviour
    viol = []

    def toterm(x, skolem):
        if isinstance(x, tuple):
            return BNode("f" + x[1])
        if x >= 1000:
            return BNode(f"w{x}")
        if kind(x) == "b" and skolem:
            return URIRef(f"{E}sk{x}")
        return x

    want, failed, info = spec_request(case)
    nsol, changed = info.get("sols", 0), info["changed"]
    if failed != (err == "error"):
        viol.append(f"outcome: request {'must fail' if failed else 'must succeed'} but the implementation "
                    f"{'raised ' + errtext if err == 'error' else 'returned normally'}")
    if len(raw) != len(set(raw)):
        viol.append("dup: dataset yields a quad twice")
    if stepwise is not None and stepwise != quads and not isoutil.iso(
            {tuple(toterm(x, True) for x in q) for q in stepwise}, {tuple(toterm(x, True) for x in q) for q in quads}):
        viol.append(f"order: request\n{text}\nleft {show_quads(quads)} but its operations sent one at a time left "
                    f"{show_quads(stepwise)}")
    still = [g for g in info.pop("gone") if g in known]
    if still and api != "graph":
        viol.append(f"dropped: graphs {still} were removed by DROP / MOVE and not written to afterwards, "
                    f"but the store still lists them (request {text!r})")

    # equal canonical numberings exhibit a renaming of the minted nodes (sound); only when they differ is the
    # exact decision procedure asked (complete), so that a violation never rests on the numbering heuristic
    same = quads == canon_int(want)
    if not same:
        A = {tuple(toterm(x, True) for x in q) for q in set(raw)}
        B = {tuple(toterm(x, True) for x in q) for q in want}
        same = isoutil.iso(A, B)
    if not same:
        ga = {q for q in set(raw) if not any(isinstance(x, tuple) for x in q)}
        gb = {q for q in want if not any(x >= 1000 for x in q)}
        extra, missing = sorted(ga - gb), sorted(gb - ga)
        tag = _classify(case, extra, missing)
        viol.append(f"{tag}: request\n{text}\non {sorted(map(tuple, case['init']))} (api {api}, union {case['union']}) "
                    f"left quads {show_quads(quads)} but the Update semantics give {show_quads(canon_int(want))}"
                    f" (extra {extra}, missing {missing})")
    stats = {"ops": len(case["ops"]), "prepared_update_object": int(bool(case.get("prep"))), "api_" + api: 1, "union_" + str(bool(case["union"])): 1, "err_" + err: 1,
             "minted": len({x for q in quads for x in q if x >= 1000}), **info}
    for o in case["ops"]:
        stats["op_" + o["k"]] = stats.get("op_" + o["k"], 0) + 1
        if o["k"] == "modify":
            for f in ("with", "using", "named", "filter", "del", "ins"):
                if o.get(f):
                    stats["modify_" + f] = stats.get("modify_" + f, 0) + 1
    return {"obs": obs, "viol": viol, "nontrivial": bool(changed or nsol),
            "key": repr((api, case["union"], case["init"], case.get("reg"), text)), "stats": stats}


def canon_int(quads):
    return canon({tuple(("f", str(x)) if x >= 1000 else x for x in q) for q in quads})


def _classify(case, extra, missing):
    """tag = the clause of the statement that the wrong dataset violates (kept stable for shrinking)"""
    for q in extra:
        if kind(q[0]) == "l" or kind(q[1]) != "i":
            return "illegal"
    return "state"


# ------------------------------------------------------------------ the model side


def _qs(quads):
    return " ".join(f"{s} {p} {o} {g}" for s, p, o, g in quads)


def op_line(op):
    k = op["k"]
    if k in ("insertdata", "deletedata", "deletewhere"):
        return f"{k} {len(op['q'])} {_qs(op['q'])}".strip()
    if k == "modify":
        d, i = op.get("del"), op.get("ins")
        f = op.get("filter")
        return " ".join(str(x) for x in [
            "modify", op.get("with") or 0,
            0 if d is None else len(d) + 1, _qs(d or []),
            0 if i is None else len(i) + 1, _qs(i or []),
            len(op.get("using", [])), *op.get("using", []),
            len(op.get("named", [])), *op.get("named", []),
            len(op["where"]), _qs(op["where"]),
            *([1, f[0], 0 if f[1] == "=" else 1, f[2]] if f else [0])] if x != "")
    s = 1 if op.get("silent") else 0
    if k in ("clear", "drop"):
        t = op["t"]
        return f"{k} {s} {t if isinstance(t, str) else 'GRAPH ' + str(t)}"
    return f"{k} {s} {op['src']} {op['dst']}"


def model_lines(case):
    lines = [f"reset {case['api']} {1 if case['union'] else 0}"]
    for q in case["init"]:
        lines.append("init " + " ".join(map(str, q if case["api"] != "graph" else q[:3] + [0])))
    for g in case.get("reg", []):
        if case["api"] != "graph":
            lines.append(f"reg {g}")
    for op in case["ops"]:
        lines.append(op_line(op))
    lines += ["err", "quads", "known"]
    return lines


def select_model_obs(case, out):
    err, quads, known = out[-3:]
    qs = set()
    for w in quads.split():
        qs.add(tuple(("f", x) if int(x) >= 1000 else int(x) for x in w.split(",")))
    return [err, show_quads(canon(qs)), known]


# ------------------------------------------------------------------ generator


def gen_case(rng, tier, i):
    while True:
        case = _gen_case(rng, tier, i)
        try:
            spec_request(case)
            return case
        except Unspecified:
            continue


def _gen_case(rng, tier, i):
    api = rng.choice(["graph", "cg", "cgi", "ds", "ds", "dsu"])
    union = rng.random() < 0.6
    single = api == "graph"
    ngraphs = 0 if single else rng.choice([0, 1, 2, 2, 3])
    present = GNAMES[:ngraphs]
    reg = []
    if present and rng.random() < 0.25:
        reg = [present[-1]]                       # registered, stays empty unless an op fills it
    filled = [g for g in present if g not in reg]
    anyg = GNAMES[: min(4, ngraphs + 1)]         # includes one missing graph
    subj = [1, 2, 3, 30] if rng.random() < 0.7 else [1, 2]
    pred = [4, 5] if rng.random() < 0.7 else [4]
    obj = [1, 2, 3, 20, 21, 22, 23, 24, 31, 90] if rng.random() < 0.6 else [1, 2, 3]

    def triple():
        return [rng.choice(subj), rng.choice(pred), rng.choice(obj)]

    init = []
    for _ in range(rng.choice([0, 1, 2, 3, 4, 4, 5, 6, 7, 8])):
        q = triple() + [rng.choice([0, 0] + filled)]
        if q not in init:
            init.append(q)
    cyc = None
    if rng.random() < 0.35:                       # a 2-cycle or a chain: one solution's insertion is another's deletion
        a, b, c = rng.sample([1, 2, 3, 30], 3)
        g = rng.choice([0, 0] + filled)
        pr = rng.choice(pred)
        cyc = (pr, g)
        for q in ([[a, pr, b, g], [b, pr, a, g]] if rng.random() < 0.5 else [[a, pr, b, g], [b, pr, c, g]]):
            if q not in init:
                init.append(q)
    if init and rng.random() < 0.3:               # the same triple in two graphs
        q = list(rng.choice(init))
        q[3] = rng.choice([0] + filled)
        if q not in init:
            init.append(q)

    def gname(allow_default=True):
        pool = list(anyg) + ([0, 0] if allow_default else [])
        return rng.choice(pool) if pool else 0

    VARS = [40, 41, 42, 43]

    def pat_term(pool, pvar):
        return rng.choice(VARS) if rng.random() < pvar else rng.choice(pool)

    def pattern(n, graphs, dflt_from=None):
        """n triple patterns over `graphs`; mostly generalisations of triples that are there (so that the
        pattern has solutions), a later pattern sharing a term (hence a variable) with an earlier one"""
        out, names = [], {}

        def var_for(term):
            if term not in names:
                names[term] = rng.choice([v for v in VARS if v not in names.values()] or VARS)
            return names[term]

        prev = None
        for _ in range(n):
            g = rng.choice(graphs)
            if g == 0:
                pool = [q for q in init if (q[3] in dflt_from if dflt_from is not None else (q[3] == 0 or union))]
            else:
                pool = [q for q in init if q[3] == g or kind(g) == "v" and q[3] != 0]
            if pool and rng.random() < 0.8:
                linked = [q for q in pool if prev and (set(q[:3]) & set(prev[:3]))]
                q = rng.choice(linked) if linked and rng.random() < 0.7 else rng.choice(pool)
                prev = q
                out.append([var_for(q[0]) if rng.random() < 0.65 else q[0],
                            var_for(q[1]) if rng.random() < 0.25 else q[1],
                            var_for(q[2]) if rng.random() < 0.65 else q[2], g])
            else:
                out.append([pat_term(subj, 0.7), pat_term(pred, 0.3), pat_term(obj, 0.7), g])
        out.sort(key=lambda q: (q[3] != 0,))      # default triples first, blocks keep their order
        # equal graphs adjacent (one GRAPH block per graph)
        seen, res = [], []
        for q in out:
            if q[3] not in seen:
                seen.append(q[3])
        for g in seen:
            res += [q for q in out if q[3] == g]
        return res

    def template(wvars, n, graphs, bnodes):
        out = []
        pool_v = wvars or VARS[:1]
        for _ in range(n):
            def tt(pool, pvar, allow_b):
                r = rng.random()
                if allow_b and bnodes and r < 0.2:
                    return rng.choice([50, 51])
                if r < pvar:
                    return rng.choice(pool_v) if rng.random() < 0.93 else 46      # 46 is never bound
                return rng.choice(pool)
            g = rng.choice(graphs)
            out.append([tt(subj, 0.6, True), tt(pred, 0.35, False), tt(obj, 0.6, True), g])
        seen, res = [], []
        for q in out:
            if q[3] not in seen:
                seen.append(q[3])
        for g in sorted(seen, key=lambda g: g != 0):
            res += [q for q in out if q[3] == g]
        return res

    def gen_op():
        r = rng.random()
        gs = [0] if single else [0, 0] + anyg
        if single and rng.random() < 0.08:        # a plain Graph asked about a named graph: must fail (or SILENT)
            g = rng.choice(GNAMES)
            return rng.choice([
                {"k": "clear", "silent": rng.random() < 0.5, "t": g},
                {"k": "add", "silent": rng.random() < 0.5, "src": g, "dst": 0},
                {"k": "copy", "silent": rng.random() < 0.5, "src": 0, "dst": g},
                {"k": "insertdata", "q": [triple() + [g]]},
                {"k": "modify", "with": g, "del": None, "ins": [triple() + [0]], "using": [], "named": [],
                 "where": [], "filter": None}])
        if r < 0.12:
            q = []
            for _ in range(rng.randint(1, 3)):
                t = triple() + [rng.choice(gs)]
                if rng.random() < 0.15:
                    t[rng.choice([0, 2])] = rng.choice([50, 51])
                q.append(t)
            return {"k": "insertdata", "q": _group(q)}
        if r < 0.22:
            pool = init or [triple() + [0]]
            q = []
            for _ in range(rng.randint(1, 3)):
                t = list(rng.choice(pool)) if rng.random() < 0.7 else triple() + [rng.choice(gs)]
                if rng.random() < 0.2:
                    t[3] = rng.choice(gs)
                if kind(t[0]) == "b" or kind(t[2]) == "b":
                    t = triple()[:0] + [1, t[1], 2, t[3]]     # DELETE DATA admits no blank nodes
                q.append(t)
            return {"k": "deletedata", "q": _group(q)}
        if r < 0.34:
            graphs = [rng.choice(gs)] if rng.random() < 0.7 else gs
            if not single and rng.random() < 0.2:
                graphs = [44]                                   # GRAPH ?v44 { … }
            q = pattern(rng.randint(1, 2), graphs)
            return {"k": "deletewhere", "q": [[x if kind(x) != "b" else 41 for x in t[:3]] + [t[3]] for t in q]}
        if r < 0.72:
            return gen_modify(gs)
        s = rng.random() < 0.3
        if r < 0.86:
            t = "DEFAULT" if single else rng.choice(["DEFAULT", "NAMED", "ALL"] + anyg + anyg)
            if single:
                t = rng.choice(["DEFAULT", "DEFAULT", "ALL", "NAMED"])
            return {"k": rng.choice(["clear", "drop"]), "silent": s, "t": t}
        if single:
            return {"k": rng.choice(["add", "move", "copy"]), "silent": s, "src": 0, "dst": 0}
        src = gname()
        dst = src if rng.random() < 0.15 else gname()
        return {"k": rng.choice(["add", "move", "copy"]), "silent": s, "src": src, "dst": dst}

    def gen_modify(gs):
        w = None
        using, named = [], []
        likely = (filled + filled + anyg) if filled else anyg
        if not single:
            if rng.random() < 0.25:
                w = rng.choice(likely)
            if rng.random() < 0.2:
                using = list(dict.fromkeys(rng.choice(likely) for _ in range(rng.randint(1, 2))))
            if rng.random() < 0.12:
                named = list(dict.fromkeys(rng.choice(likely) for _ in range(rng.randint(1, 2))))
        wg = [0] if single else ([0, 0, 0] + anyg + ([44] if rng.random() < 0.4 else []))
        nw = rng.choice([0, 1, 1, 1, 2, 2])
        shape = rng.random()
        where = pattern(nw, [rng.choice(wg)] if rng.random() < 0.6 else wg,
                        using if (using or named) else [w] if w else None)
        where = [[x if kind(x) != "b" else 42 for x in t[:3]] + [t[3]] for t in where]
        wvars = sorted({x for q in where for x in q if kind(x) == "v"})
        flt = None
        if wvars and rng.random() < 0.2:
            flt = [rng.choice(wvars), rng.choice(["=", "!=", "!="]), rng.choice([1, 2, 3, 90])]
        tg = [0] if single else ([0, 0, 0] + anyg + ([44, 44] if 44 in wvars else []))
        if not single and rng.random() < 0.15:
            tg = tg + [46] + wvars[:2]                      # GRAPH ?unbound { … }, GRAPH ?boundToAnything { … }
        d = i = None
        if shape < 0.35:                           # overlap shapes: delete the matched triple, insert a permutation of it
            g = w0 = rng.choice([0, 0] + ([] if single else filled + [44]))
            if using:
                g = 0
            pr = rng.choice(pred) if rng.random() < 0.8 else 43
            if cyc and rng.random() < 0.7:
                pr, g = cyc[0], (cyc[1] if not using else 0)
                if using:
                    using[0] = cyc[1] or using[0]
            where = [[40, pr, 41, g]] + \
                ([q for q in where[:1] if q[3] != 0 or g == 0] if rng.random() < 0.2 else [])
            where = _group(where)
            wvars = sorted({x for q in where for x in q if kind(x) == "v"})
            if flt and flt[0] not in wvars:
                flt = None
            tg = [0] if single else ([0, 0, 0] + anyg + ([44, 44] if 44 in wvars else []))
            q = where[0] if where[0][0] == 40 else next(x for x in where if x[0] == 40)
            d = [list(q)]
            perm = rng.choice([(2, 1, 0), (2, 1, 0), (2, 1, 0), (0, 1, 2), (2, 1, 2), (0, 1, 0)])
            i = [[q[perm[0]], q[1], q[perm[2]], q[3] if rng.random() < 0.8 else rng.choice(tg)]]
            if rng.random() < 0.3:                 # fan-out: { ?x p ?y . ?x p ?z }, delete (x,y), insert (x,z)
                q2 = [40, q[1], 42, q[3]]
                where = _group(where + [q2])
                wvars = sorted({x for t in where for x in t if kind(x) == "v"})
                i = [list(q2)]
            if rng.random() < 0.3:
                i.append([rng.choice(wvars or [1]), rng.choice(pred), rng.choice(obj), rng.choice(tg)])
            i = _group(i)
        else:
            c = rng.random()
            if c < 0.7:
                d = [[x if kind(x) != "t" else 40 for x in q] for q in template(wvars, rng.randint(1, 2), tg, False)]
            if c > 0.25 or d is None:
                i = template(wvars, rng.randint(1, 3), tg, rng.random() < 0.5)
        if d is not None:
            d = [[x if kind(x) != "b" else 1 for x in q] for q in d]   # no blank nodes in DELETE templates
        return {"k": "modify", "with": w, "del": d, "ins": i, "using": using, "named": named, "where": where,
                "filter": flt}

    ops = [gen_op() for _ in range(rng.choice([1, 1, 1, 2, 2, 3, 4]))]
    return {"api": api, "union": union, "init": init, "reg": reg, "ops": ops, "prep": rng.random() < 0.25}


def _group(quads):
    seen, res = [], []
    for q in quads:
        if q[3] not in seen:
            seen.append(q[3])
    for g in sorted(seen, key=lambda g: g != 0):
        res += [q for q in quads if q[3] == g]
    return res


# ------------------------------------------------------------------ shrinking, matchers


def shrink(case):
    ops, init = case["ops"], case["init"]
    for i in range(len(ops)):
        if len(ops) > 1:
            yield {**case, "ops": ops[:i] + ops[i + 1:]}
    for i in range(len(init)):
        yield {**case, "init": init[:i] + init[i + 1:]}
    if case.get("reg"):
        yield {**case, "reg": []}
    for i, op in enumerate(ops):
        for f in ("q", "del", "ins", "where"):
            lst = op.get(f)
            if lst and (len(lst) > 1 or f == "where"):
                for j in range(len(lst)):
                    yield {**case, "ops": ops[:i] + [{**op, f: lst[:j] + lst[j + 1:]}] + ops[i + 1:]}
        if op["k"] == "modify":
            for f, v in (("with", None), ("filter", None), ("using", []), ("named", [])):
                if op.get(f):
                    yield {**case, "ops": ops[:i] + [{**op, f: v}] + ops[i + 1:]}
            if op.get("del") is not None and op.get("ins") is not None:
                yield {**case, "ops": ops[:i] + [{**op, "del": None}] + ops[i + 1:]}
                yield {**case, "ops": ops[:i] + [{**op, "ins": None}] + ops[i + 1:]}
    if case["api"] in ("cg", "dsu", "cgi"):
        yield {**case, "api": "ds"}
    if case["union"]:
        yield {**case, "union": False}
    if case.get("prep"):
        yield {**case, "prep": False}


# ---- matchers of the (fixed) findings: shapes only; `fixed` witnesses are re-run first on every run and must pass


def _one(case, kind):
    return len(case["ops"]) == 1 and case["ops"][0]["k"] == kind


def _state(result):
    return any(v.startswith("state") for v in result["viol"])


MATCHERS = {
    "modify_interleaved": lambda c, r: _one(c, "modify") and c["ops"][0].get("del") is not None
    and c["ops"][0].get("ins") is not None and _state(r),
    "deletewhere_lazy": lambda c, r: _one(c, "deletewhere") and len(c["ops"][0]["q"]) >= 2 and _state(r),
    "template_illegal": lambda c, r: _one(c, "modify") and any(v.startswith("illegal") for v in r["viol"]),
    "default_write_target": lambda c, r: c["union"] and c["api"] != "graph" and len(c["ops"]) == 1 and bool(r["viol"]),
    "insertdata_label": lambda c, r: _one(c, "insertdata") and _state(r)
    and any(kind(x) in "bt" for q in c["ops"][0]["q"] for x in q[:3]),
    "template_bnode_scope": lambda c, r: _one(c, "modify") and _state(r)
    and len({q[3] for q in (c["ops"][0].get("ins") or []) if any(kind(x) in "bt" for x in q[:3])}) > 1,
    "template_graph_unbound": lambda c, r: _one(c, "modify") and _state(r)
    and any(kind(q[3]) == "v" for q in (c["ops"][0].get("ins") or [])),
    "deletewhere_graphvar": lambda c, r: _one(c, "deletewhere") and _state(r)
    and any(kind(q[3]) == "v" for q in c["ops"][0]["q"]),
    "using_dataset": lambda c, r: _one(c, "modify") and _state(r)
    and bool(c["ops"][0].get("using") or c["ops"][0].get("named")),
    "plain_graph_drop": lambda c, r: c["api"] == "graph" and len(c["ops"]) == 1
    and c["ops"][0]["k"] in ("clear", "drop") and bool(r["viol"]),
}
