"""C12 — parsing only adds; blank nodes of separate documents never merge.  DESIGN §6 C12.

Case = {"sink": "graph"|"ds"|"cg",
        "init": [[s,p,o,g]…]            content already in the target; terms "iN" "lN" "bK" (blank node with id LAB[K])
        "docs": [{"fmt": nt|nquads|turtle|n3|trig|xml|trix|json-ld|hext,
                  "quads": [[s,p,o,g]…]  abstract document; terms "iN" "lN" "nK" (label LAB[K]) "aK" (anonymous node)
                                         "rI.K" (label = the id rdflib generated for label K of document #I; read off
                                         the target through that document's marker triple); g may be "-"
                  "into": null | "iN" | "bK"   parse into that named graph of the dataset instead of the default graph
                  "style": {…}           writer choices (grouping, prefixes, anonymous-node spelling, bytes/str, publicID)
                  "opts": {…}            (round g, optional) keyword arguments that change label handling:
                                         "ctx": k    bnode_context=<the case's dict number k>   (nt, nquads)
                                         "inst": k   the case's N-Quads parser object number k is used (its _bnode_ids lives on)
                                         "sk": true  skolemize=True                              (nt, nquads, json-ld, hext)
                                         "pre": true preserve_bnode_ids=True                     (xml, trix)
                                         "nogen": true  generalized_rdf left off although the document has blank-node
                                                        property keys (json-ld): those statements are dropped
                 }…],
        "fresh": k | null}               also parse document k into two fresh targets (iso + disjoint blank nodes)

Observation per document: canonical form (blank nodes numbered canonically) of the whole target after the parse call.
The model driver computes the merge with the per-parser label policy; `select_model_obs` canonicalises its quads with
the same canonicaliser.  The property's own oracle (`viol`) is independent of both: old quads still there, and
target ≅ RDF merge computed here from the abstract documents (fresh node per (document index, label)), decided by
harness/isoutil.iso.
"""
from __future__ import annotations

import io
import json
import os
import pathlib
import random as pyrandom
import re
import tempfile
import warnings

import core  # noqa: F401
import c12docs as D
import isoutil
from rdflib import BNode, ConjunctiveGraph, Dataset, Graph, Literal, URIRef
from rdflib.graph import QuotedGraph
from rdflib import plugin as rdflib_plugin
from rdflib.parser import Parser as RdflibParser, create_input_source

warnings.filterwarnings("ignore")

ID = "C12"
LEAN_TARGETS = ["RV.C12.Props", "RV.C12.Audit"]
AUDIT = "RV/C12/Audit.lean"
DRIVER = "drv_c12"
CASES = {"quick": 3000, "thorough": 80000, "search": 20000}
RULE = ("sequences of 2-4 documents in mixed syntaxes (nt, nquads, turtle, n3, trig, rdf/xml, trix, json-ld, hext) written "
        "by the harness' own writers and parsed, by every input route of parse(), into one Graph (Memory / SimpleMemory) / "
        "Dataset / ConjunctiveGraph that already has content (default graph, its Graph view, or a named graph, IRI- or "
        "blank-node-named), a share of them with the keyword arguments that change label handling (bnode_context= dicts shared "
        "between calls, one N-Quads parser object used again, skolemize=True, preserve_bnode_ids=True, JSON-LD blank-node "
        "property keys without generalized_rdf) and, in N3, labels inside / outside / across formulae; non-trivial = some blank-node label string is used by two different parse calls or equals the "
        "id of a node already in the target; distinct = distinct (sink, init, formats, abstract documents); per-axis counts "
        "of the surface audit (design.d/C12.md) are the axis.* entries of generator_distribution")
ASSUMPTIONS = ["BNode() ids (uuid4) differ from each other and from every id already present in the target (Lean: WF) — checked on "
               "every case by a direct probe (clause fresh-id: ids minted across random.seed(k) / random.setstate() are pairwise "
               "distinct and not in the target) and by a stream that re-seeds / restores the global random state between the "
               "parse calls of a history",
               "caller-requested sharing / naming (bnode_context=, one N-Quads parser object used again, preserve_bnode_ids=True, "
               "skolemize=True) replaces the merge by exactly what was asked for (Lean: caller_shared_context_shares_exactly, "
               "preserve_bnode_ids_is_verbatim, skolemize_no_blank_nodes); a bnode_context dict starts empty or with entries "
               "label -> distinct nodes of the target / of the caller (the theorem's hypothesis MapInv)",
               "N3 gives every formula occurrence { } its own label scope (what the code does, and N3's reading of _:x as an "
               "existential of the formula): the oracle makes one node per (document, formula occurrence, label); "
               "no variables / @forAll"]
TRUSTED = ["harness/c12.py generators, harness/c12docs.py document writers (text is trusted to mean the abstract document)",
           "harness/c12.py canonical labelling (cross-checked on every case against harness/isoutil.iso)",
           "lean/RV/C12/Drive.lean line protocol",
           "harness/c12.py _stmt_lines: the `{` / `}` events of an N3 document are derived from the abstract document the same "
           "way the writer nests the text (a formula = the consecutive statements whose graph is its anonymous node)"]

# label policy of each parser as the code stands: r = per-parse-call label map with fresh nodes (remap),
# v = BNode(label) (verbatim).  TriX and JSON-LD were `v` before the repairs C12-F3/F4; the hextuples parser still
# is (known finding C12-K1: rdflib's own tests pin BNode("graph-2") for the label `_:graph-2`).
# Round g: documentation only — the model side is told the parser's *name* and runs that parser's own node function
# (lean/RV/C12/Parsers.lean: nodeFn / n3Run); this table is `(loptsOf p default).pol`, proved there.
POLICY ={"nt": "r", "nquads": "r", "turtle": "r", "n3": "r", "trig": "r", "xml": "r", "trix": "r", "json-ld": "r",
          "hext": "v"}

DEFAULT = URIRef("urn:x-rdflib:default")
GENID = "https://rdflib.github.io/.well-known/genid/rdflib/"     # BNode(label).skolemize()
XSDNS = "http://www.w3.org/2001/XMLSchema#"
H1, H2 = "5a6d0e1f3c2b4a79b8e0d1c2f3a4b5c6", "0f1e2d3c4b5a69788796a5b4c3d2e1f0"
# label strings; label number K = index.  The same numbers name the blank nodes of the initial content (id = LAB[K]).
LAB = ["b0", "b1", "x", "genid1", "N" + H1, "N" + H2, "n" + H1 + "b1", "f" + H2 + "b1", "ub1bL0C1", "Formula1", "a0", "g",
       # near-collisions of "b0": labels that differ only by leading/trailing `_`, case, `-`, `.`, a leading digit, `:`
       "_b0", "__b0", "b0_", "B0", "b-0", "b.0", "_", "b\u00b70",      # 12..19: legal in every syntax
       "0b0", "0",                                                    # 20..21: not an NCName (no rdf:nodeID)
       "b:0", "_:b0", ":b0", "b0_:", "_:_b0",                         # 22..26: `:` — N-Triples/N-Quads grammar, TriX, JSON-LD, hext
       "1", "2", "3", "10",                                           # 27..30: all digits (rdflib numbers its own nodes 1, 2, …)
       D.EMPTY_ID]                                                    # 31: JSON-LD only: "@id": "" under "@base": null
EMPTY = 31
NEAR = [0] + list(range(12, 27))
DIGITS = [27, 28, 29, 30, 21]
COLON_OK = {"nt", "nquads", "trix", "json-ld", "hext", "patch"}
N3_FAMILY = ["turtle", "n3", "trig"]


def label_ok(k, fmt):
    """may label number k be written in syntax fmt?"""
    if k == EMPTY:
        return fmt == "json-ld"
    if 22 <= k <= 26:
        return fmt in COLON_OK
    if k >= 20:
        return fmt != "xml"        # not an NCName: no rdf:nodeID
    return True
LITS = {0: ("", None, None), 1: ("0", XSDNS + "integer", None), 2: ("x", None, "en"), 3: ("a b", None, None),
        4: ("false", XSDNS + "boolean", None)}
MARK_P = 13          # predicate of marker triples
SUBJ_I, OBJ_I, PRED_I, GRAPH_I = [1, 2, 3], [1, 2, 3, 4], [10, 11, 12], [20, 21]


RDF_IRI = {30: D.RDFNS + "first", 31: D.RDFNS + "rest", 32: D.RDFNS + "nil", 33: D.RDFNS + "type"}
RDF_IRI_REV = {v: k for k, v in RDF_IRI.items()}


def iri_str(n):
    return RDF_IRI.get(n) or "http://e/i%d" % n


def lit_tuple(n):
    if n >= 100:
        return ("m%d" % n, None, None)
    return LITS[n]


def marker_lit(i, k):
    return 100 + 40 * i + k      # unique per (document index < 4, label number < 40)


# ---------------------------------------------------------------- generator

def _doc_features(quads):
    f = {"named": any(q[3] != "-" for q in quads), "default": any(q[3] == "-" for q in quads),
         "anon_so": any(t.startswith("a") for q in quads for t in q[:3]),
         "anon_g": any(q[3].startswith("a") for q in quads)}
    return f


def _has_formula(quads):
    gs = {q[3] for q in quads if q[3].startswith("a")}
    return any(t in gs for q in quads for t in (q[0], q[2]))


def compatible_fmts(quads, sink):
    if _has_formula(quads):
        return ["n3"] if sink != "simple" else []
    f = _doc_features(quads)
    fmts = []
    for fmt in dict.fromkeys(D.TRIPLE_FMTS + D.QUAD_FMTS):
        if f["named"] and fmt not in D.QUAD_FMTS:
            continue
        if f["anon_so"] and fmt not in D.ANON_SO:
            continue
        if f["anon_g"] and fmt not in D.ANON_G:
            continue
        if any(q[1] == "i30" for q in quads) and fmt not in N3_FAMILY + ["xml", "json-ld"]:
            continue
        if any(q[1][0] in "nr" for q in quads) and fmt != "json-ld":
            continue
        if f["default"] and fmt in D.NO_DEFAULT:
            continue
        if sink in PLAIN and (fmt not in D.TRIPLE_FMTS or f["named"]):
            continue
        if not all(label_ok(int(t[1:]), fmt) for q in quads for t in q if re.fullmatch(r"n\d+", t)):
            continue
        if sink == "simple" and fmt not in SIMPLE_FMTS:
            continue
        fmts.append(fmt)
    return fmts


ROUTES = ["location", "srcpath", "pathlib", "fileb", "filet", "insrc", "pyobj"]
FMTARGS = ["alias", "guess"]
JL_MODES = ["coerce", "reverse", "included", "nestgraph"]
EXT = {"nt": ".nt", "nquads": ".nq", "turtle": ".ttl", "n3": ".n3", "trig": ".trig", "xml": ".rdf", "trix": ".trix",
       "json-ld": ".jsonld", "hext": ".hext", "patch": ".rdp"}          # rdflib.util.guess_format knows all but .hext
ALIASES = {"nt": ["ntriples", "nt11", "application/n-triples"], "nquads": ["application/n-quads"],
           "turtle": ["ttl", "text/turtle"], "n3": ["text/n3"], "trig": ["application/trig"],
           "xml": ["application/rdf+xml"], "trix": ["application/trix"], "json-ld": ["application/ld+json"], "hext": ["hext"], "patch": ["patch"]}


def _gen_style(rng, share=0.3):
    """writer and call-route choices.  `share` = probability of each of the rarer surface axes (larger in thorough)."""
    st = {k: rng.random() < 0.5 for k in ("group", "prefix", "sparqlprefix", "short", "anonstyle", "graphkw",
                                           "bracedefault", "bytes", "pub", "crlf", "comment", "stream", "nocoll", "gen", "defaults")}
    st["route"] = rng.choice(ROUTES) if rng.random() < share else None      # how the document reaches parse()
    st["fmtarg"] = rng.choice(FMTARGS) if rng.random() < share else None    # format= by alias / left to guessing
    st["jl"] = rng.choice(JL_MODES) if rng.random() < share else None       # JSON-LD document shape
    for k in ("typekw", "propattr", "path", "plugin", "viewdefault", "jlopts", "nodeidattr", "nodeattr", "typednode"):
        st[k] = rng.random() < share
    return st


def _gen_doc(rng, sink, idx, pool, earlier, init_bn, share=0.3, ctxcase=False, init_quads=()):
    """abstract document for parse call #idx; `earlier` = [(I, [K…])] documents with marker triples"""
    quadfmt = sink not in PLAIN and rng.random() < 0.6
    fmt = rng.choice(D.QUAD_FMTS if quadfmt else D.TRIPLE_FMTS if sink != "simple" else SIMPLE_FMTS)
    if ctxcase:                  # a case about bnode_context=: N-Triples / N-Quads documents
        fmt = "nquads" if quadfmt else "nt"
    elif sink == "ds" and rng.random() < share / 4:
        # (round h) an RDF Patch: `A` rows (and sometimes a `D` row); its labels are the store's nodes by design
        fmt, quadfmt = "patch", True
        earlier = []
    anon_ok = fmt in D.ANON_SO and rng.random() < 0.5
    # "counting" documents: all-digit labels next to several [] / ( ) nodes, in the syntaxes whose parser numbers its nodes
    counting = any(k in DIGITS for k in pool) and rng.random() < 0.7 and not ctxcase
    if counting:
        fmt = rng.choice(N3_FAMILY if sink not in PLAIN else N3_FAMILY[:2] if sink == "graph" else N3_FAMILY[:1])
        quadfmt = fmt == "trig"
        anon_ok = True
    legal = [k for k in pool if label_ok(k, fmt)] or [0]
    nxt_anon = [0]

    def lab():
        if earlier and rng.random() < 0.2:
            i, ks = rng.choice(earlier)
            ks = [k for k in ks if label_ok(k, fmt)]   # (a verbatim parser's "generated id" is the label itself)
            if ks:
                return "r%d.%d" % (i, rng.choice(ks))
        return "n%d" % rng.choice(legal)

    def subj():
        return lab() if rng.random() < 0.65 else "i%d" % rng.choice(SUBJ_I)

    def obj():
        r = rng.random()
        if r < 0.45:
            return lab()
        if r < 0.75:
            return "i%d" % rng.choice(OBJ_I)
        return "l%d" % rng.choice(list(LITS))

    genrdf = fmt == "json-ld" and not counting and rng.random() < 0.4   # JSON-LD read with generalized_rdf=True
    # keyword arguments that change label handling (round g): the sharing / naming the caller asks for
    opts = {}
    if fmt in ("nt", "nquads") and (rng.random() < 0.75 if ctxcase else rng.random() < share / 2):
        opts["ctx"] = 1 if rng.random() < 0.75 else 2
    if fmt == "nquads" and rng.random() < (0.5 if ctxcase else share / 3):
        opts["inst"] = 1
    if fmt in ("nt", "nquads", "json-ld", "hext") and not counting and rng.random() < share / 4:
        opts["sk"] = True
        anon_ok = False          # (a skolemized anonymous node is an IRI nobody can predict; not generated)
        earlier = []             # (the IRI for a label that is a generated id has no name on the model side)
        legal = [k for k in legal if k != EMPTY] or [0]    # (the stand-in node for "@id": "" is not a label: see design.d)
    if fmt in ("xml", "trix") and rng.random() < share / 3:
        opts["pre"] = True
        earlier = []             # (BNode(<generated id>) is the earlier document's node: the oracle cannot name it)
    if genrdf and rng.random() < 0.3:
        opts["nogen"] = True
        anon_ok = False          # (a dropped statement takes the node objects nested in it with it)

    def pred():
        if rng.random() < 0.08:
            return "i33"            # rdf:type (JSON-LD may spell it "@type", with a blank node as the type)
        if genrdf and rng.random() < 0.5:
            t = lab()               # a blank node as property key; the same labels are subjects / objects / graph names
            if t != "n%d" % EMPTY:
                return t
        return "i%d" % rng.choice(PRED_I)

    def gname():
        if not quadfmt:
            return "-"
        r = rng.random()
        if r < 0.3 and fmt not in D.NO_DEFAULT:
            return "-"
        if r < 0.65:
            return lab()
        if r < 0.7 and sink == "ds":
            return "i0"             # the dataset's default graph named explicitly
        if r < 0.8 and fmt in D.ANON_G:
            a = "a%d" % nxt_anon[0]
            nxt_anon[0] += 1
            return a
        return "i%d" % rng.choice(GRAPH_I)

    quads = []
    g = gname()
    for _ in range(rng.randint(2, 4) if counting else rng.randint(1, 4)):
        if nxt_anon[0] >= 6:        # keep the number of interchangeable anonymous nodes small (the iso oracle is a search)
            anon_ok = False
        if quadfmt and rng.random() < 0.45:
            g = gname()
        r = rng.random() * (0.55 if counting else 1.0)
        if fmt == "n3" and g == "-" and rng.random() < 0.3:
            # an N3 formula  { … } p o  /  s p { … } : the formula is an anonymous node naming the graph of its statements
            def ground():
                return rng.choice(["i%d" % rng.choice(OBJ_I), "l%d" % rng.choice(list(LITS))])
            f = "a%d" % nxt_anon[0]
            nxt_anon[0] += 1
            quads.append([f, pred(), obj(), g] if rng.random() < 0.5 else [subj(), pred(), f, g])
            # (round g) labels inside the formula: N3 gives a formula its own label scope — the same `_:x` inside,
            # outside and in another formula are different nodes; inside one formula it is one node
            inlab = rng.random() < 0.6

            def isubj():
                return lab() if inlab and rng.random() < 0.6 else "i%d" % rng.choice(SUBJ_I)

            def iobj():
                return lab() if inlab and rng.random() < 0.4 else ground()
            for _k in range(rng.randint(1, 2) + (1 if inlab else 0)):
                quads.append([isubj(), pred(), iobj(), f])
            if rng.random() < 0.25:          # a [] inside the formula
                a = "a%d" % nxt_anon[0]
                nxt_anon[0] += 1
                quads.append([a, pred(), ground(), f])
            if rng.random() < 0.3:           # a nested formula, last
                f2 = "a%d" % nxt_anon[0]
                nxt_anon[0] += 1
                quads.append([isubj(), pred(), f2, f])
                quads.append([isubj(), pred(), iobj(), f2])
            continue
        if anon_ok and fmt in N3_FAMILY + ["xml", "json-ld"] and rng.random() < (0.3 if counting else 0.1):
            # a collection  s p ( x1 … xn )  =  n anonymous cells with rdf:first / rdf:rest
            n = rng.randint(1, 3)
            cells = ["a%d" % (nxt_anon[0] + j) for j in range(n)]
            nxt_anon[0] += n
            quads.append([subj(), pred(), cells[0], g])
            for j, c in enumerate(cells):
                quads.append([c, "i30", obj(), g])
                quads.append([c, "i31", cells[j + 1] if j + 1 < n else "i32", g])
        elif anon_ok and r < 0.2:           # anonymous subject with 1-2 statements
            a = "a%d" % nxt_anon[0]
            nxt_anon[0] += 1
            for _k in range(rng.randint(1, 2)):
                quads.append([a, pred(), obj(), g])
        elif anon_ok and r < 0.4:         # anonymous object, 0-2 statements about it
            a = "a%d" % nxt_anon[0]
            nxt_anon[0] += 1
            quads.append([subj(), pred(), a, g])
            if fmt == "xml" and rng.random() < 0.4:
                # only plain literals about it, one per predicate: RDF/XML can write that as property attributes
                for pk in rng.sample(PRED_I, rng.randint(1, 2)):
                    quads.append([a, "i%d" % pk, rng.choice(["l0", "l3"]), g])
                continue
            for _k in range(rng.randint(0, 2)):
                quads.append([a, pred(), obj(), g])
        elif fmt == "xml" and rng.random() < 0.3:
            # a labelled node referred to as an object, with plain-literal statements about it (one per predicate): RDF/XML can
            # spell that  <e:p rdf:nodeID="x" e:q="…"/>  (empty property element with rdf:nodeID AND property attributes);
            # the label is used again elsewhere, so a parser that makes a new node there is seen
            x = lab()
            quads.append([subj(), pred(), x, g])
            for pk in rng.sample(PRED_I, rng.randint(1, 2)):
                quads.append([x, "i%d" % pk, rng.choice(["l0", "l3"]), g])
            if rng.random() < 0.7:
                quads.append([subj(), pred(), x, g] if rng.random() < 0.5 else [x, pred(), "i%d" % rng.choice(OBJ_I), g])
        else:
            quads.append([subj(), pred(), obj(), g])
    if fmt == "trix" and all(q[3] == "-" for q in quads):
        for q in quads:
            q[3] = "i20"
    if fmt in D.NO_DEFAULT:
        for q in quads:
            if q[3] == "-":
                q[3] = "i21"
    # marker triples so that later documents can read this document's generated ids off the target
    marks = []
    if opts.get("nogen") and any(t == "n%d" % EMPTY or t[0] == "a" for q in quads for t in q):
        del opts["nogen"]        # (the empty @id needs generalized_rdf; anonymous nodes: see above)
    if rng.random() < 0.5 and not opts.get("sk"):
        named = sorted({int(t[1:]) for q in quads for t in q if re.fullmatch(r"n\d+", t)})
        dg = "-" if fmt not in D.NO_DEFAULT else "i20"
        for k in named[:2]:
            quads.append(["n%d" % k, "i%d" % MARK_P, "l%d" % marker_lit(idx, k), dg])
            marks.append(k)
    into = None
    if sink not in PLAIN and rng.random() < 0.3:
        into = rng.choice(["i20", "i21"] + init_bn[:2])
    d = {"fmt": fmt, "quads": quads, "into": into, "style": _gen_style(rng, share)}
    if fmt == "patch":
        marks = []
        d["quads"] = quads = [q for q in quads if q[1] != "i%d" % MARK_P]
        if not quads:
            d["quads"] = quads = [["n%d" % legal[0], "i%d" % PRED_I[0], "i2", "-"]]
        if rng.random() < 0.45:      # a D row: a statement of the initial content, one of this patch's own rows, or nothing
            r = rng.random()
            writable = [q0 for q0 in init_quads if all(t[0] != "b" or (int(t[1:]) != EMPTY and label_ok(int(t[1:]), "patch")) for t in q0)]
            if r < 0.5 and writable:
                q0 = rng.choice(writable)
                d["dels"] = [[("n" + t[1:]) if t[0] == "b" else t for t in q0[:3]] + ["-" if q0[3] == "i0" else ("n" + q0[3][1:]) if q0[3][0] == "b" else q0[3]]]
            elif r < 0.8:
                d["dels"] = [list(rng.choice(quads))]
            else:
                d["dels"] = [["i%d" % rng.choice(SUBJ_I), "i%d" % rng.choice(PRED_I), "l0", "-"]]
    if opts:
        d["opts"] = opts
    return d, marks


def gen_case(rng, tier, i):
    share = 0.3 if tier == "quick" else 0.5
    sink = rng.choice(["graph", "ds", "ds", "ds", "cg"]) if rng.random() > share / 3 else "simple"
    union = sink == "ds" and rng.random() < share / 2
    reuse = rng.random() < share / 2        # every document of the case goes through one parser plugin object per syntax
    if rng.random() < 0.45:      # a family of near-collisions, used together in one document and across documents
        pool = rng.sample(NEAR, rng.randint(2, 4))
        if rng.random() < 0.6 and 0 not in pool:
            pool[0] = 0
    elif rng.random() < 0.3:     # all-digit labels (the N3-family parser numbers its own nodes n<uuid>b1, b2, …)
        pool = rng.sample(DIGITS, rng.randint(2, 3))
        if 27 not in pool and rng.random() < 0.7:
            pool[0] = 27
    else:
        pool = rng.sample(range(12), rng.randint(1, 3))
        if rng.random() < 0.5:
            pool[0] = rng.choice([0, 0, 4, 8])
    if rng.random() < 0.15:
        pool.append(EMPTY)       # (JSON-LD documents only; see label_ok)
    graphs = ["i0"] if sink in PLAIN else ["i0", "i20", "b%d" % pool[0]]
    init = []
    for _ in range(rng.randint(0, 3)):
        s = rng.choice(["b%d" % rng.choice(pool), "b%d" % rng.choice(pool), "i1"])
        o = rng.choice(["b%d" % rng.choice(pool), "i2", "l0", "l3"])
        q = [s, "i%d" % rng.choice(PRED_I), o, rng.choice(graphs)]
        if q not in init:
            init.append(q)
    init_bn = sorted({t for q in init for t in q if t.startswith("b")})
    docs, earlier = [], []
    ctxcase = sink != "simple" and rng.random() < share / 3
    for idx in range(rng.randint(2, 4)):
        plain = [j for j, d0 in enumerate(docs) if not any(t.startswith("r") for q in d0["quads"] for t in q)]
        plain = [j for j in plain if len(_anon_terms(docs[j])) <= 4
                 or sum(1 for d0 in docs if d0["quads"] == docs[j]["quads"]) < 2]    # big documents: at most twice
        if plain and rng.random() < 0.3:      # the same document again (same text, or another syntax)
            si = rng.choice(plain)           # (not one that reads generated ids off the target: it would read other ids)
            src = docs[si]
            # its marker triples now occur twice: later documents must not read ids off them (ambiguous)
            earlier = [e for e in earlier if not any(q in src["quads"] for q in docs[e[0]]["quads"] if q[1] == "i%d" % MARK_P)]
            fmts = compatible_fmts(src["quads"], sink)
            fmt = src["fmt"] if rng.random() < 0.6 or not fmts else rng.choice(fmts)
            d = {"fmt": fmt, "quads": [list(q) for q in src["quads"]], "into": src["into"] if rng.random() < 0.7 else None,
                 "style": dict(src["style"]) if fmt == src["fmt"] else _gen_style(rng, share)}
            if src.get("opts") and (fmt == src["fmt"] or (fmt in ("nt", "nquads") and set(src["opts"]) <= {"ctx"})):
                d["opts"] = dict(src["opts"])
            elif src.get("opts"):
                d["fmt"], d["style"], d["opts"] = src["fmt"], dict(src["style"]), dict(src["opts"])
            if src.get("dels") and d["fmt"] == "patch":
                d["dels"] = [list(q) for q in src["dels"]]
            docs.append(d)
            continue
        d, marks = _gen_doc(rng, sink, idx, pool, earlier, init_bn, share, ctxcase, init)
        docs.append(d)
        if marks:
            earlier.append((idx, marks))
    # (round h) a caller's dict that already has entries when it is handed over: label -> a node of the target (or a node
    # the caller made); distinct nodes for distinct labels
    ctxinit = {}
    used_ctx = sorted({d["opts"]["ctx"] for d in docs if "ctx" in (d.get("opts") or {})})
    for kctx in used_ctx:
        # (not next to hextuples documents: their verbatim labels — known finding K1 — would meet the caller's node ids and
        # K1 would surface on a document that is not a hext document)
        if rng.random() < 0.5 and not any(d["fmt"] == "hext" for d in docs):
            labs = rng.sample(pool, min(len(pool), rng.randint(1, 2)))
            nodes = rng.sample([x for x in range(12)], len(labs))
            ctxinit[str(kctx)] = [[k, "b%d" % n] for k, n in zip(labs, nodes) if k != EMPTY]
    if any(d["fmt"] == "hext" for d in docs):
        for d in docs:          # (the same for RDF Patch documents, whose labels are the store's nodes: read as N-Quads)
            if d["fmt"] == "patch":
                d["fmt"] = "nquads"
                d.pop("dels", None)
    if any(d["fmt"] == "hext" for d in docs):
        # hextuples keeps labels verbatim (known finding K1); next to a preserve_bnode_ids=True document the two would
        # share nodes by id, and K1 would surface on a document that is not a hext document: not combined
        for d in docs:
            (d.get("opts") or {}).pop("pre", None)
    fresh = rng.randrange(len(docs)) if rng.random() < 0.5 else None
    # the application re-seeds / restores the global `random` state between parse calls (random.seed(k) per input,
    # pytest-randomly, fork()ed workers): BNode() ids must not depend on it
    reseed = rng.choice(["seed0", "restore", "seedidx"]) if rng.random() < share / 2 else None
    return {"sink": sink, "init": init, "docs": docs, "fresh": fresh, "predict": rng.random() < 0.5, "union": union,
            "reuse": reuse, "reseed": reseed, "ctxinit": ctxinit}


# ---------------------------------------------------------------- running the implementation

PLAIN = ("graph", "simple")        # a single graph: Graph() on Memory, Graph(store="SimpleMemory") (not context-aware)
SIMPLE_FMTS = ["nt", "turtle", "xml"]   # (N3 and JSON-LD refuse a store that is not context-aware)


def _mk_sink(kind, union=False):
    if kind == "graph":
        return Graph()
    if kind == "simple":
        return Graph(store="SimpleMemory")
    if kind == "ds":
        return Dataset(default_union=True) if union else Dataset()
    return ConjunctiveGraph()


def _default_id(t):
    return t.identifier if isinstance(t, Graph) and not isinstance(t, ConjunctiveGraph) else t.default_context.identifier


def _quads_of(t):
    """the target's content as a set of (s, p, o, graph-name) over rdflib terms; default graph = DEFAULT"""
    did = _default_id(t)
    out = []
    if isinstance(t, ConjunctiveGraph):
        for s, p, o, c in t.quads((None, None, None, None)):
            cid = c.identifier if isinstance(c, Graph) else c
            out.append((s, p, o, DEFAULT if cid is None or cid == did else cid))
    else:
        for s, p, o in t:
            out.append((s, p, o, DEFAULT))
    # N3 formulae: a quoted graph is a graph named by the formula's blank node; quads() does not list quoted statements
    for c in list(t.store.contexts() or []):
        if isinstance(c, QuotedGraph):
            for s, p, o in c.triples((None, None, None)):
                out.append((s, p, o, c.identifier))
    return {tuple(_norm(x) for x in q) for q in out}, len(out) - len(set(out))


def _norm(x):
    if isinstance(x, QuotedGraph):      # a formula used as a term of a statement: the blank node that names it
        return x.identifier
    # RDF 1.1: "a"^^xsd:string is the simple literal "a" (rdflib keeps them apart; hextuples always writes the datatype)
    if isinstance(x, Literal) and x.datatype is not None and str(x.datatype) == XSDNS + "string":
        return Literal(str(x))
    return x


def _rdf_term(t, bn):
    """abstract target-side term -> rdflib term; bn maps blank-node keys to BNodes"""
    if t[0] == "i":
        n = int(t[1:])
        return DEFAULT if n == 0 else URIRef(iri_str(n))
    if t[0] == "l":
        lex, dt, lang = lit_tuple(int(t[1:]))
        return Literal(lex, lang=lang, datatype=URIRef(dt) if dt else None)
    return bn(t)


_LIT_REV = {}


def _lit_key(l):
    dt = str(l.datatype) if l.datatype is not None and str(l.datatype) != XSDNS + "string" else None
    return (str(l), dt, (l.language or None))


def _abs_term(x):
    """rdflib term -> abstract key; blank nodes -> ("b", id)"""
    if isinstance(x, BNode):
        return ("b", str(x))
    if isinstance(x, Literal):
        k = _lit_key(x)
        for n, v in LITS.items():
            if v == k:
                return "l%d" % n
        m = re.fullmatch(r"m(\d+)", k[0])
        if m and k[1] is None and k[2] is None:
            return "l%s" % m.group(1)
        return "?" + x.n3()
    if x == DEFAULT:
        return "i0"
    if str(x).startswith(GENID) and str(x)[len(GENID):] in LAB:
        return "k%d" % LAB.index(str(x)[len(GENID):])       # skolem IRI of label number K (skolemize=True)
    if str(x) in RDF_IRI_REV:
        return "i%d" % RDF_IRI_REV[str(x)]
    m = re.fullmatch(r"http://e/i(\d+)", str(x))
    return "i%s" % m.group(1) if m else "?" + x.n3()


def _graph_of(target, kind, name):
    if name is None:
        return target
    if kind == "ds":
        return target.graph(name)
    return target.get_context(name)


FORMAT_NAME = {"nt": "nt", "nquads": "nquads", "turtle": "turtle", "n3": "n3", "trig": "trig", "xml": "xml",
               "trix": "trix", "json-ld": "json-ld", "hext": "hext", "patch": "patch"}


def _parse(target, kind, into_term, fmt, text, style, bnode_preds=False, plugins=None, stats=None, opts=None, ctxs=None):
    """one parse call, by the route the style asks for; opts = the keyword arguments that change label handling
    (ctxs = the caller's bnode_context dicts of this case, by number)"""
    opts = opts or {}

    def count(k):
        if stats is not None:
            stats["axis." + k] = stats.get("axis." + k, 0) + 1

    g = _graph_of(target, kind, into_term)
    if into_term is None and style.get("viewdefault") and kind in ("ds", "cg"):
        g = target.default_graph if kind == "ds" else target.default_context     # the Graph view of the default graph
        count("target.default_graph_view")
    name = FORMAT_NAME[fmt]
    route = style.get("route")
    if route == "pyobj" and fmt != "json-ld":
        route = None
    fmtarg = style.get("fmtarg")
    if fmtarg == "alias":
        name = ALIASES[fmt][len(text) % len(ALIASES[fmt])]
        count("format.alias")
    guess = fmtarg == "guess" and route in ("location", "srcpath", "pathlib", "fileb", "filet") and fmt not in ("hext", "patch")
    kw = {} if guess else {"format": name}
    if guess:
        count("format.guessed_from_file_name")
    if style.get("pub"):
        kw["publicID"] = "http://e/doc"
        count("publicID")
    if fmt == "json-ld" and (bnode_preds or style.get("gen")) and not opts.get("nogen"):
        kw["generalized_rdf"] = True         # blank nodes allowed in predicate position ("_:p": … property keys)
        count("jsonld.generalized_rdf")
    if opts.get("nogen"):
        count("options.blank_node_predicates_without_generalized_rdf")
    if style.get("defaults"):                # the label-handling options spelled out with their default values
        if fmt in ("xml", "trix"):
            kw["preserve_bnode_ids"] = False
        elif fmt in ("nt", "nquads", "hext", "json-ld"):
            kw["skolemize"] = False
        if fmt in ("turtle", "n3", "trig"):
            kw["encoding"] = "utf-8"
        count("options.defaults_spelled_out")
    if fmt == "json-ld" and style.get("jlopts"):
        kw.update(version=1.1, base="http://e/base/", context={"zz": "http://e/zz"})
        count("jsonld.version_base_context")
    # ---- the sharing / naming the caller asks for (round g)
    if opts.get("ctx") is not None and fmt in ("nt", "nquads") and ctxs is not None:
        kw["bnode_context"] = ctxs.setdefault(opts["ctx"], {})      # the caller's own dict, handed to several calls
        count("options.bnode_context")
    if opts.get("sk") and fmt in ("nt", "nquads", "json-ld", "hext"):
        kw["skolemize"] = True
        count("options.skolemize")
    if opts.get("pre") and fmt in ("xml", "trix"):
        kw["preserve_bnode_ids"] = True
        count("options.preserve_bnode_ids")
    if opts.get("inst") is not None and fmt == "nquads" and plugins is not None:
        # one NQuadsParser object used for several calls: its `_bnode_ids` lives as long as the object
        key = ("nquads-object", opts["inst"])
        inst = plugins.get(key)
        if inst is None:
            inst = plugins[key] = rdflib_plugin.get("nquads", RdflibParser)()
        else:
            count("options.nquads_parser_object_reused")
        src = create_input_source(data=text, format="nquads", publicID=kw.pop("publicID", None))
        kw.pop("format", None)
        inst.parse(src, g.default_context if isinstance(g, ConjunctiveGraph) else g, **kw)
        return
    if style.get("plugin") and plugins is not None and fmt != "nquads" and not guess:
        # one parser plugin object re-used for every document of that syntax in this case (Graph.parse makes a new one
        # per call; N-Quads is left out: W3CNTriplesParser documents its label scope as "per instance")
        inst = plugins.get(fmt)
        if inst is None:
            inst = plugins[fmt] = rdflib_plugin.get(name, RdflibParser)()
        else:
            count("plugin_object.reused")
        src = create_input_source(data=text, format=name, publicID=kw.pop("publicID", None))
        kw.pop("format", None)
        sinkg = g.default_context if isinstance(g, ConjunctiveGraph) else g
        count("route.plugin_object")
        inst.parse(src, sinkg, **kw)
        return
    if route in ("location", "srcpath", "pathlib", "fileb", "filet"):
        fd, path = tempfile.mkstemp(suffix=EXT[fmt], prefix="c12_")
        try:
            with os.fdopen(fd, "wb") as f:
                f.write(text.encode("utf-8"))
            count("route." + route)
            if route == "location":
                g.parse(location=path, **kw)
            elif route == "srcpath":
                g.parse(path, **kw)
            elif route == "pathlib":
                g.parse(pathlib.Path(path), **kw)
            elif route == "fileb":
                with open(path, "rb") as f:
                    g.parse(file=f, **kw)
            else:
                with open(path, "r", encoding="utf-8", newline="") as f:
                    g.parse(file=f, **kw)
        finally:
            os.unlink(path)
    elif route == "insrc":
        count("route.InputSource")
        g.parse(create_input_source(data=text, format=kw.get("format")), **kw)
    elif route == "pyobj":
        obj = json.loads(text)
        count("route.python_dict")
        g.parse(data=obj if isinstance(obj, dict) else {"@graph": obj}, **kw)
    elif style.get("stream"):
        count("route.source_bytes_stream")
        g.parse(io.BytesIO(text.encode("utf-8")), **kw)
    elif style.get("bytes"):
        count("route.data_bytes")
        g.parse(data=text.encode("utf-8"), **kw)
    else:
        count("route.data_str")
        g.parse(data=text, **kw)


def _bnode_preds(doc):
    """must the JSON-LD document be read with generalized_rdf=True?  (blank-node property keys; the empty @id)"""
    return any(q[1][0] in "nr" for q in doc["quads"]) or any(t == "n%d" % EMPTY for q in doc["quads"] for t in q)


def _resolvable(case, idx, term):
    m = re.fullmatch(r"r(\d+)\.(\d+)", term)
    if not m:
        return None
    i, k = int(m.group(1)), int(m.group(2))
    if i < idx and i < len(case["docs"]):
        want = ["n%d" % k, "i%d" % MARK_P, "l%d" % marker_lit(i, k)]
        if any(q[:3] == want for q in case["docs"][i]["quads"]):
            return i, k
    return False


def _concrete_doc(case, idx, lookup_generated):
    """abstract document -> concrete quads for the writers.  Returns (quads, labels) where labels maps each abstract
    label key of this document to the label string used."""
    doc = case["docs"][idx]
    labels = {}

    def term(t):
        if t == "-":
            return None
        if t[0] == "i":
            n = int(t[1:])
            return ("i", str(DEFAULT) if n == 0 else iri_str(n))
        if t[0] == "l":
            return ("l",) + lit_tuple(int(t[1:]))
        if t[0] == "n":
            labels[t] = LAB[int(t[1:])]
            return ("n", LAB[int(t[1:])])
        if t[0] == "a":
            return ("a", int(t[1:]))
        r = _resolvable(case, idx, t)
        if r:
            s = lookup_generated(*r)
        else:
            s = LAB[int(t.split(".")[1]) % len(LAB)] if r is False else "bad"
        labels[t] = s
        return ("n", s)

    return [tuple(term(t) for t in q) for q in doc["quads"]], labels


def _model_term_doc(case, idx, t):
    """the same decision as `_concrete_doc` for the model side: an unresolvable reference is the plain label"""
    if t[0] == "r":
        r = _resolvable(case, idx, t)
        if not r:
            return "n%d" % (int(t.split(".")[1]) % len(LAB))
    return t


def _eff_into(case, doc):
    """the graph the document is parsed into: None (default graph) | "iN" | "bK" with bK a node of the initial content
    (a blank-node name that is not already in the target would be a new node supplied by the caller — avoided)"""
    into = doc.get("into")
    if into is None or case["sink"] in PLAIN:
        return None
    if into[0] == "b" and not any(into in q for q in case["init"]):
        return None
    return into


OPT_FMTS = {"ctx": ("nt", "nquads"), "inst": ("nquads",), "sk": ("nt", "nquads", "json-ld", "hext"), "pre": ("xml", "trix"),
            "nogen": ("json-ld",)}


def _eff_opts(doc):
    """the label-handling options of the call, as far as the document's parser has them (shrinking may change fmt)"""
    o = {k: v for k, v in (doc.get("opts") or {}).items() if doc["fmt"] in OPT_FMTS.get(k, ()) and v not in (None, False)}
    if o.get("nogen") and not any(q[1][0] in "nr" for q in doc["quads"]):
        del o["nogen"]
    return o


def _concrete_simple(quads):
    """abstract statements without references (D rows of a patch) -> concrete quads for the writers"""
    def term(t):
        if t == "-":
            return None
        if t[0] == "i":
            return ("i", str(DEFAULT) if int(t[1:]) == 0 else iri_str(int(t[1:])))
        if t[0] == "l":
            return ("l",) + lit_tuple(int(t[1:]))
        return ("n", LAB[int(t[1:]) % len(LAB)])
    return [tuple(term(t) for t in q) for q in quads]


def _patch_quad(q):
    """the quad a patch row talks about: labels are the store's nodes, no graph column = the dataset's default graph"""
    def m(t):
        if t[0] == "i":
            return URIRef(t[1])
        if t[0] == "l":
            return Literal(t[1], lang=t[3], datatype=URIRef(t[2]) if t[2] else None)
        return BNode(t[1])
    return (m(q[0]), m(q[1]), m(q[2]), DEFAULT if q[3] is None else m(q[3]))


def _iso(a, b, stats=None):
    """isoutil.iso; when its search budget runs out (many interchangeable copies of one structure) fall back to the
    canonical labelling below — counted, so that it stays rare"""
    try:
        return isoutil.iso(a, b)
    except RuntimeError:
        if stats is not None:
            stats["iso_budget_fallback"] = stats.get("iso_budget_fallback", 0) + 1
        ca = canon({tuple(_abs_term(x) for x in q) for q in a}, budget=20000)
        cb = canon({tuple(_abs_term(x) if not str(x).startswith(("M", "F")) or not isinstance(x, BNode) else ("b", str(x)) for x in q) for q in b}, budget=20000)
        return ca == cb and not ca.startswith("canon-budget")


def _anon_terms(doc):
    return sorted({t for q in doc["quads"] for t in q if t.startswith("a")})


def _predict_target(case):
    """index of the document whose generated ids the adversary tries to guess (static: same answer on the model side)"""
    if not case.get("predict"):
        return None
    for i, d in enumerate(case["docs"]):
        if d["fmt"] == "n3" and _anon_terms(d) and not any(t.startswith("r") for q in d["quads"] for t in q):
            return i
    return None


def _predicted_ids(case, pi):
    """Parse the document into a scratch graph, look at the ids it got, and guess the ids of the next parse of the same
    text (black box: only the shape `ub<counter>bL<line>C<col>` of the ids seen is used)."""
    doc = case["docs"][pi]
    n = len(_anon_terms(doc))
    cq, _ = _concrete_doc(case, pi, lambda i, k: "x")
    text = D.write(doc["fmt"], cq, doc["style"])
    scratch = Graph()
    try:
        _parse(scratch, "graph", None, doc["fmt"], text, doc["style"], _bnode_preds(doc))
    except Exception:
        pass
    later = sum(1 for d in case["docs"][:pi] if d["fmt"] in ("turtle", "n3", "trig"))
    ids = []
    for b in sorted({str(x) for t in scratch for x in t if isinstance(x, BNode)}):
        m = re.fullmatch(r"ub(\d+)b(L\d+C\d+)", b)
        if m:
            ids.append("ub%db%s" % (int(m.group(1)) + 1 + later, m.group(2)))
    # formula nodes: `_:Formula<k>`, k counting every formula object the N3 parser has made so far (one root formula
    # per N3 parse call plus one per { … })
    def nform(d):
        return 1 + len({q[3] for q in d["quads"] if q[3].startswith("a")}) if d["fmt"] == "n3" else 0
    between = nform(doc) + sum(nform(d) for d in case["docs"][:pi])
    for c in scratch.store.contexts() or []:
        m = re.fullmatch(r"_:Formula(\d+)", str(c.identifier)) if isinstance(c, QuotedGraph) else None
        if m:
            ids.append("_:Formula%d" % (int(m.group(1)) + between))
    ids = ids[:n]
    return ids + ["pred%d" % j for j in range(len(ids), n)]


def run_impl(case):
    """(the global `random` state of the worker is put back afterwards: the re-seeding stream changes it)"""
    st = pyrandom.getstate()
    try:
        return _run_impl(case)
    finally:
        pyrandom.setstate(st)


def _reseed(case, saved, idx):
    """what the application does to the global `random` module before parse call #idx"""
    mode = case.get("reseed")
    if mode == "seed0":
        pyrandom.seed(0)
    elif mode == "seedidx":
        pyrandom.seed(idx % 2)
    elif mode == "restore":
        pyrandom.setstate(saved)


def _freshness_probe(case, saved, target_ids, viol, stats):
    """the recorded assumption behind the Lean model's uuid supply (WF), checked directly: ids minted by BNode() across
    re-seedings / restorations of the global `random` state are pairwise distinct and distinct from every id in the target"""
    ids = []
    for k in range(3):
        _reseed({"reseed": case.get("reseed") or ("seed0", "restore", "seedidx")[k % 3]}, saved, k)
        ids += [str(BNode()), str(BNode())]
    stats["freshness_probe_ids"] = stats.get("freshness_probe_ids", 0) + len(ids)
    if len(set(ids)) != len(ids):
        viol.append(f"fresh-id: BNode() handed out the same id twice across a re-seeding / restoration of the global random state: "
                    f"{sorted(i for i in set(ids) if ids.count(i) > 1)[:2]}")
    hit = set(ids) & target_ids
    if hit:
        viol.append(f"fresh-id: BNode() handed out an id that is already in the target: {sorted(hit)[:2]}")


def _run_impl(case):
    kind = case["sink"]
    saved = pyrandom.getstate()
    target = _mk_sink(kind, case.get("union"))
    init_bn = {}

    def bn_init(t):
        return init_bn.setdefault(t, BNode(LAB[int(t[1:])]))

    merge = set()                 # the RDF merge, computed independently from the abstract documents
    for s, p, o, g in case["init"]:
        q = tuple(_rdf_term(t, bn_init) for t in (s, p, o, g))
        gg = _graph_of(target, kind, None if q[3] == DEFAULT or kind in PLAIN else q[3])
        gg.add(q[:3])
        merge.add(q[:3] + ((DEFAULT if kind in PLAIN else q[3]),))
    obs, viol = [], []
    stats = {"docs": len(case["docs"]), "sink_" + kind: 1}
    plugins = {}                 # parser plugin objects shared by the documents of this case (style "plugin")
    used = {}                     # label string -> set of parse calls using it
    ctxs = {}                    # the caller's bnode_context dicts of this case, by number (opts "ctx")
    shared_nodes = {}            # oracle: (dict or parser object, label) -> the one node the caller asked for
    ctx_given = {}               # entries the caller put into its dicts beforehand: (k, label) -> node
    for kctx, entries in (case.get("ctxinit") or {}).items():
        for lab_k, node in entries:
            b = bn_init(node)
            ctxs.setdefault(int(kctx), {}).setdefault(LAB[lab_k], b)
            ctx_given[(int(kctx), LAB[lab_k])] = ctxs[int(kctx)][LAB[lab_k]]
            shared_nodes[(("ctx", int(kctx)), LAB[lab_k])] = BNode(str(ctxs[int(kctx)][LAB[lab_k]]))
            used.setdefault(str(b), set()).add(-1)
            stats["ctx_prepopulated_entries"] = stats.get("ctx_prepopulated_entries", 0) + 1
    stats["axis.target." + kind + ("_default_union" if case.get("union") else "")] = 1
    pi = _predict_target(case)
    if pi is not None:
        stats["n3_id_guess_attempted"] = 1
        # adversary: content whose blank-node ids are the ids the N3 parser is about to generate, if they can be guessed
        for j, bid in enumerate(_predicted_ids(case, pi)):
            q = (BNode(bid), URIRef(iri_str(PRED_I[2])), URIRef(iri_str(1)), DEFAULT)
            _graph_of(target, kind, None).add(q[:3])
            merge.add(q)
            if not bid.startswith("pred"):
                stats["predicted_ids"] = stats.get("predicted_ids", 0) + 1
    for k in init_bn.values():
        used.setdefault(str(k), set()).add(-1)

    def lookup_generated(i, k):
        mk = "l%d" % marker_lit(i, k)
        cur, _ = _quads_of(target)
        c = sorted(str(q[0]) for q in cur if q[1] == URIRef(iri_str(MARK_P)) and isinstance(q[0], BNode)
                   and _abs_term(q[2]) == mk)
        if len(c) > 1:
            stats["ref_ambiguous"] = stats.get("ref_ambiguous", 0) + 1
        return c[0] if c else "unresolvedref"

    for idx, doc in enumerate(case["docs"]):
        fmt = doc["fmt"]
        stats["fmt_" + fmt] = stats.get("fmt_" + fmt, 0) + 1
        cq, labels = _concrete_doc(case, idx, lookup_generated)
        for t, s in labels.items():
            used.setdefault(s, set()).add(idx)
            if t[0] == "r":
                stats["label_generated_id"] = stats.get("label_generated_id", 0) + 1
        if any(t[0] == "a" for q in cq for t in q if t):
            stats["anon_docs"] = stats.get("anon_docs", 0) + 1
        into = None
        if _eff_into(case, doc) is not None:
            into = _rdf_term(_eff_into(case, doc), bn_init)
            stats["into_named"] = stats.get("into_named", 0) + 1
        cdels = _concrete_simple(doc.get("dels") or []) if fmt == "patch" else []
        text = D.write(fmt, cq, {**doc["style"], "_dels": cdels} if fmt == "patch" else doc["style"])
        if case.get("reuse"):
            doc = {**doc, "style": {**doc["style"], "plugin": True, "route": None, "fmtarg": None}}
        opts = _eff_opts(doc)
        before, _ = _quads_of(target)
        err = "ok"
        if case.get("reseed"):
            _reseed(case, saved, idx)
            stats["axis.random_state." + case["reseed"]] = stats.get("axis.random_state." + case["reseed"], 0) + 1
        try:
            _parse(target, kind, into, fmt, text, doc["style"], _bnode_preds(doc), plugins, stats, opts, ctxs)
        except core.CaseTimeout:
            raise
        except Exception as e:  # a valid document must parse
            err = type(e).__name__
            viol.append(f"parse-error: document {idx} ({fmt}) rejected: {type(e).__name__}: {str(e)[:120]} :: {text[:200]!r}")
        after, dups = _quads_of(target)
        # ---- oracle 1: nothing removed or altered
        lost = before - after
        if fmt == "patch":          # the D rows of an RDF Patch ask for exactly these statements to go (labels = the store's nodes)
            asked = {tuple(_norm(x) for x in _patch_quad(q)) for q in cdels}
            if lost & asked:
                stats["patch_D_row_removed_something"] = stats.get("patch_D_row_removed_something", 0) + 1
            lost = lost - asked
            stats["patch_D_rows"] = stats.get("patch_D_rows", 0) + len(cdels)
        if lost:
            viol.append(f"removed: parsing document {idx} ({fmt}) removed {len(lost)} quad(s), e.g. {sorted(map(str, next(iter(lost))))}")
        if dups:
            viol.append(f"dup: target yields duplicate quads after document {idx}")
        # ---- oracle 2: the target is the RDF merge
        # (round g) … or, where the caller asked for it, exactly the requested sharing / naming: skolemize=True: the IRI
        # genid/<label>; preserve_bnode_ids=True: BNode(label); bnode_context=ctx (or one N-Quads parser object used
        # again): one node per (dict, label) for all the calls that were given that dict; JSON-LD without
        # generalized_rdf: statements with a blank-node predicate are not part of the RDF the document stands for
        fresh = {}
        where = DEFAULT if into is None or fmt == "patch" else into      # (a patch is applied to the dataset, not to a graph of it)
        scope = ("ctx", opts["ctx"]) if "ctx" in opts else ("inst", opts["inst"]) if "inst" in opts else None
        for q in cq:
            # N3: a label written inside a formula belongs to that formula occurrence (its own scope)
            fscope = q[3] if fmt == "n3" and q[3] is not None and q[3][0] == "a" else None

            def m(t):
                if t[0] == "i":
                    return URIRef(t[1])
                if t[0] == "l":
                    return Literal(t[1], lang=t[3], datatype=URIRef(t[2]) if t[2] else None)
                if t[0] == "n" and fscope is not None:
                    return fresh.setdefault((t, fscope), BNode("M%dxF%dn%s" % (idx, fscope[1], t[1])))
                if t[0] == "n" and opts.get("sk"):
                    return URIRef(GENID + t[1])
                if t[0] == "n" and (opts.get("pre") or fmt == "patch"):
                    return BNode(t[1])
                if t[0] == "n" and scope is not None:
                    return shared_nodes.setdefault((scope, t[1]), BNode("M%s%dx%s" % (scope[0], scope[1], t[1])))
                return fresh.setdefault(t, BNode("M%dx%s%s" % (idx, t[0], t[1])))
            if opts.get("nogen") and q[1][0] == "n":
                continue
            merge.add((m(q[0]), m(q[1]), m(q[2]), where if q[3] is None else m(q[3])))
        for q in cdels:
            merge.discard(_patch_quad(q))
            merge.discard(tuple(_norm(x) for x in _patch_quad(q)))
        if err == "ok" and not _iso(after, merge, stats):
            nb = len({x for q in after for x in q if isinstance(x, BNode)})
            nm = len({x for q in merge for x in q if isinstance(x, BNode)})
            viol.append(f"merge: after parsing document {idx} ({fmt}) the target is not the RDF merge of the old content "
                        f"and the document: {len(after)} quads / {nb} blank nodes, merge has {len(merge)} / {nm}; "
                        f"document: {text[:300]!r}")
            merge = set(after)      # judge the following documents against what is really there
            for k, dct in ctxs.items():
                for lab_, node in dct.items():
                    shared_nodes[(("ctx", k), lab_)] = BNode(str(node))
            for key, inst in plugins.items():
                if isinstance(key, tuple) and key[0] == "nquads-object":
                    for lab_, node in inst._bnode_ids.items():
                        shared_nodes[(("inst", key[1]), lab_)] = BNode(str(node))
        ab = {tuple(_abs_term(x) for x in q) for q in after}
        nb = len({x for q in ab for x in q if isinstance(x, tuple)})
        line = f"{err} n={nb} " + canon(ab)
        if "ctx" in opts:           # what the call left in the caller's dict: its keys (label numbers; others counted)
            keys = list(ctxs.get(opts["ctx"], {}))
            small = sorted(LAB.index(k) for k in keys if k in LAB)
            other = len(keys) - len(small)
            line += " ctx=" + (",".join(map(str, small)) or "-") + (" +%d" % other if other else "")
            for (kc, lab_), node in ctx_given.items():
                if kc == opts["ctx"] and ctxs[kc].get(lab_) != node:
                    viol.append(f"ctx-value: the entry the caller put into bnode_context for {lab_!r} was replaced by document {idx}")
                if kc == opts["ctx"] and lab_ in labels.values():
                    stats["ctx_prepopulated_label_used"] = stats.get("ctx_prepopulated_label_used", 0) + 1
            bad = [k for k, v in ctxs.get(opts["ctx"], {}).items() if not isinstance(v, BNode)]
            if bad:
                viol.append(f"ctx-value: bnode_context[{bad[0]!r}] is not a BNode after document {idx}")
        obs.append(line)
    # ---- oracle 3: the same document into two fresh targets
    fi = case.get("fresh")
    if fi is not None and fi < len(case["docs"]) and (set(_eff_opts(case["docs"][fi])) & {"ctx", "inst", "sk", "pre"}
                                                      or case["docs"][fi]["fmt"] == "patch"):
        fi = None               # (requested sharing / naming: the two-fresh-targets clause is about the default behaviour)
    if fi is not None and fi < len(case["docs"]) and not any(t.startswith("r") for q in case["docs"][fi]["quads"] for t in q):
        doc = case["docs"][fi]
        cq, _ = _concrete_doc(case, fi, lambda i, k: "x")
        text = D.write(doc["fmt"], cq, doc["style"])
        if case.get("reuse"):
            doc = {**doc, "style": {**doc["style"], "plugin": True, "route": None, "fmtarg": None}}
        res = []
        for _k in range(2):
            t = _mk_sink(kind, case.get("union"))
            _reseed(case, saved, 0)
            try:
                _parse(t, kind, None, doc["fmt"], text, doc["style"], _bnode_preds(doc), plugins, None, _eff_opts(doc))
            except Exception as e:
                viol.append(f"parse-error: fresh target rejected document {fi}: {type(e).__name__}")
            res.append(_quads_of(t)[0])
        b0 = {x for q in res[0] for x in q if isinstance(x, BNode)}
        b1 = {x for q in res[1] for x in q if isinstance(x, BNode)}
        alone, fr = set(), {}
        for q in cq:        # the document merged into nothing
            fscope = q[3] if doc["fmt"] == "n3" and q[3] is not None and q[3][0] == "a" else None

            def m1(t):
                if t[0] == "i":
                    return URIRef(t[1])
                if t[0] == "l":
                    return _norm(Literal(t[1], lang=t[3], datatype=URIRef(t[2]) if t[2] else None))
                if t[0] == "n" and fscope is not None:
                    return fr.setdefault((t, fscope), BNode("FF%dn%s" % (fscope[1], t[1])))
                return fr.setdefault(t, BNode("F%s%s" % (t[0], t[1])))
            if _eff_opts(doc).get("nogen") and q[1][0] == "n":
                continue
            alone.add((m1(q[0]), m1(q[1]), m1(q[2]), DEFAULT if q[3] is None else m1(q[3])))
        if not _iso(res[0], alone, stats):
            viol.append(f"fresh-merge: document {fi} ({doc['fmt']}) parsed into a fresh target does not give the document's "
                        f"own graph: {len(res[0])} quads, document has {len(alone)}")
        if not _iso(res[0], res[1], stats):
            viol.append(f"fresh-iso: document {fi} ({doc['fmt']}) parsed into two fresh targets gives non-isomorphic results")
        if b0 & b1:
            viol.append(f"fresh-shared: document {fi} ({doc['fmt']}) parsed into two fresh targets shares blank node(s) "
                        f"{sorted(map(str, b0 & b1))[:3]}")
        stats["fresh_pairs"] = 1
    if "reseed" in case:        # (every generated case; the stored witnesses of repaired findings keep their own clause)
        _freshness_probe(case, saved, {str(x) for q in _quads_of(target)[0] for x in q if isinstance(x, BNode)}, viol, stats)
    shared = [s for s, who in used.items() if len(who) > 1]
    if any(-1 in used[s] for s in shared):
        stats["label_eq_existing_id"] = 1
    if shared:
        stats["label_shared"] = 1
    stats["quads"] = sum(len(d["quads"]) for d in case["docs"])
    for d in case["docs"]:
        ks = {int(t[1:]) for q in d["quads"] for t in q if re.fullmatch(r"n\d+", t)}
        if len(ks & set(NEAR)) >= 2:
            stats["near_collision_docs"] = stats.get("near_collision_docs", 0) + 1
        if any(22 <= k <= 26 for k in ks):
            stats["colon_label_docs"] = stats.get("colon_label_docs", 0) + 1
        na = len({t for q in d["quads"] for t in q if t.startswith("a")})
        if ks & set(DIGITS) and na and d["fmt"] in N3_FAMILY:
            stats["digit_label_with_anon_docs"] = stats.get("digit_label_with_anon_docs", 0) + 1
        if any(q[1] == "i30" for q in d["quads"]):
            stats["collection_docs"] = stats.get("collection_docs", 0) + 1
        st = d["style"]
        if d["fmt"] == "json-ld":
            if st.get("jl"):
                stats["axis.jsonld.shape_" + st["jl"]] = stats.get("axis.jsonld.shape_" + st["jl"], 0) + 1
            if st.get("typekw") and any(q[1] == "i33" for q in d["quads"]):
                stats["axis.jsonld.@type_keyword"] = stats.get("axis.jsonld.@type_keyword", 0) + 1
            if any(q[1] == "i30" for q in d["quads"]) and not st.get("nocoll"):
                stats["axis.jsonld.@list"] = stats.get("axis.jsonld.@list", 0) + 1
        if d["fmt"] == "xml":
            for kk in ("nodeidattr", "nodeattr", "typednode"):
                if st.get(kk):
                    stats["axis.rdfxml.spelling_" + kk] = stats.get("axis.rdfxml.spelling_" + kk, 0) + 1
            if st.get("nodeidattr") and any(q[2][0] in "nr" and any(x[0] == q[2] and x[2] in ("l0", "l3") for x in d["quads"])
                                            for q in d["quads"]):
                stats["axis.rdfxml.nodeID_with_property_attributes"] = stats.get("axis.rdfxml.nodeID_with_property_attributes", 0) + 1
            if any(q[1] == "i30" for q in d["quads"]) and not st.get("nocoll"):
                stats["axis.rdfxml.collection_or_first_rest"] = stats.get("axis.rdfxml.collection_or_first_rest", 0) + 1
            if st.get("propattr") and na:
                stats["axis.rdfxml.property_attributes_style"] = stats.get("axis.rdfxml.property_attributes_style", 0) + 1
        if d["fmt"] == "n3" and st.get("path") and na:
            stats["axis.n3.path_style"] = stats.get("axis.n3.path_style", 0) + 1
        if any(q[1] == "i33" for q in d["quads"]):
            stats["axis.rdf_type_statements"] = stats.get("axis.rdf_type_statements", 0) + 1
        if _has_formula(d["quads"]):
            stats["formula_docs"] = stats.get("formula_docs", 0) + 1
            inner = {t for q in d["quads"] if q[3].startswith("a") for t in q[:3] if t[0] in "nr"}
            outer = {t for q in d["quads"] if not q[3].startswith("a") for t in q[:3] if t[0] in "nr"}
            if inner:
                stats["formula_docs_with_label_inside"] = stats.get("formula_docs_with_label_inside", 0) + 1
            if inner & outer:
                stats["formula_label_inside_and_outside"] = stats.get("formula_label_inside_and_outside", 0) + 1
            per = {}
            for q in d["quads"]:
                if q[3].startswith("a"):
                    for t in q[:3]:
                        if t[0] in "nr":
                            per.setdefault(t, set()).add(q[3])
            if any(len(v) > 1 for v in per.values()):
                stats["formula_label_in_two_formulae"] = stats.get("formula_label_in_two_formulae", 0) + 1
        if any(t == "n%d" % EMPTY for q in d["quads"] for t in q):
            stats["empty_id_docs"] = stats.get("empty_id_docs", 0) + 1
        if any(q[1][0] in "nr" for q in d["quads"]):
            stats["bnode_predicate_docs"] = stats.get("bnode_predicate_docs", 0) + 1
            pl = {q[1] for q in d["quads"] if q[1][0] == "n"}
            if pl & {t for q in d["quads"] for t in (q[0], q[2], q[3])}:
                stats["bnode_predicate_also_node"] = stats.get("bnode_predicate_also_node", 0) + 1
    by_ctx = {}
    for j, d in enumerate(case["docs"]):
        o = _eff_opts(d)
        if "ctx" in o or "inst" in o:
            sc = ("ctx", o["ctx"]) if "ctx" in o else ("inst", o["inst"])
            for t in {t for q in d["quads"] for t in q if t[0] in "nr"}:
                by_ctx.setdefault((sc, t), set()).add(j)
    if any(len(v) > 1 for v in by_ctx.values()):
        stats["ctx_label_shared_between_calls"] = 1
    stats["same_doc_again"] = sum(1 for j, d in enumerate(case["docs"]) if any(d["quads"] == e["quads"] for e in case["docs"][:j]))
    return {"obs": obs, "viol": viol, "nontrivial": bool(shared),
            "key": repr((kind, case["init"], [(d["fmt"], d["quads"], d["into"], d.get("dels")) for d in case["docs"]])),
            "stats": stats}


# ---------------------------------------------------------------- canonical labelling (iso-invariant normal form)

class _Budget(Exception):
    pass


def _isb(x):
    return isinstance(x, tuple)


def canon(quads, budget=4000):
    """canonical string of a set of 4-tuples whose blank nodes are ("b", id) tuples and other terms strings"""
    quads = set(quads)
    nodes = sorted({x for q in quads for x in q if _isb(x)})
    if not nodes:
        return " ".join(sorted(",".join(q) for q in quads))
    occ = {b: [(i, q) for q in quads for i, x in enumerate(q) if x == b] for b in nodes}
    left = [budget]

    def refine(col):
        while True:
            sig = {b: (col[b], tuple(sorted((i, tuple((1, col[y]) if _isb(y) else (0, y) for y in q)) for i, q in occ[b])))
                   for b in nodes}
            order = sorted(set(sig.values()))
            rank = {s: 2 * k for k, s in enumerate(order)}
            new = {b: rank[sig[b]] for b in nodes}
            if len(order) == len(set(col.values())):
                return new
            col = new

    def twins(x, y):
        sw = lambda t: y if t == x else x if t == y else t
        return {tuple(sw(t) for t in q) for q in quads} == quads

    def ser(col):
        return " ".join(sorted(",".join("b%d" % (col[x] // 2) if _isb(x) else x for x in q) for q in quads))

    def search(col):
        left[0] -= 1
        if left[0] < 0:
            raise _Budget()
        col = refine(col)
        classes = {}
        for b in nodes:
            classes.setdefault(col[b], []).append(b)
        multi = [c for c in sorted(classes) if len(classes[c]) > 1]
        if not multi:
            return ser(col)
        cl = classes[multi[0]]
        cands = [cl[0]] if all(twins(cl[k], cl[k + 1]) for k in range(len(cl) - 1)) else cl
        best = None
        for x in cands:
            c2 = dict(col)
            c2[x] = col[x] - 1
            r = search(c2)
            if best is None or r < best:
                best = r
        return best

    try:
        return search({b: 0 for b in nodes})
    except _Budget:
        return "canon-budget-exhausted quads=%d nodes=%d" % (len(quads), len(nodes))


# ---------------------------------------------------------------- model side

def model_lines(case):
    lines = ["reset"]
    kind = case["sink"]
    for s, p, o, g in case["init"]:
        lines.append("init %s %s %s %s" % (s, p, o, "i0" if kind in PLAIN else g))
    pi = _predict_target(case)
    if pi is not None:
        for j in range(len(_anon_terms(case["docs"][pi]))):
            lines.append("init b%d i%d i1 i0" % (900 + j, PRED_I[2]))
    lines += _ctxset_lines(case)
    for idx, doc in enumerate(case["docs"]):
        into = _eff_into(case, doc) or "i0"
        # the parser by name: the model runs that parser's own node function (lean/RV/C12/Parsers.lean) with the options
        o = _eff_opts(doc)
        words = [w for w, k in (("sk", "sk"), ("pre", "pre")) if o.get(k)]
        if doc["fmt"] == "json-ld" and (_bnode_preds(doc) or doc["style"].get("gen")) and not o.get("nogen"):
            words.append("gen")
        if "ctx" in o:
            words.append("ctx=%d" % o["ctx"])
        if "inst" in o:
            words.append("inst=%d" % o["inst"])
        lines.append(" ".join(["doc", doc["fmt"], into] + words))
        lines += _stmt_lines(case, idx, doc)
        lines.append("end")
        lines.append("obs")
        if "ctx" in o:
            lines.append("ctx %d" % o["ctx"])
    return lines


def _ctxset_lines(case):
    return ["ctxset %s n%d %s" % (k, lab_k, node) for k, entries in sorted((case.get("ctxinit") or {}).items())
            for lab_k, node in entries]


def _stmt_lines(case, idx, doc):
    """the statements of the document; N3: with the `{` / `}` events of the recursive descent around the statements of a
    formula (= the consecutive statements whose graph is the formula's anonymous node; nested formulae nest)"""
    lines, stack = [], []
    for q in doc["quads"]:
        if doc["fmt"] == "n3":
            g = q[3]
            if g.startswith("a"):
                while stack and g in stack and stack[-1] != g:
                    stack.pop()
                    lines.append("close")
                if g not in stack:
                    stack.append(g)
                    lines.append("open")
            else:
                while stack:
                    stack.pop()
                    lines.append("close")
        lines.append("q " + " ".join(_model_term_doc(case, idx, t) for t in q))
    lines += ["close"] * len(stack)
    if doc["fmt"] == "patch":
        lines += ["d " + " ".join("n%d" % (int(t[1:]) % len(LAB)) if t[0] == "n" else t for t in q) for q in doc.get("dels") or []]
    return lines


def select_model_obs(case, out):
    pi = _predict_target(case)
    res, k = [], 1 + len(case["init"]) + (len(_anon_terms(case["docs"][pi])) if pi is not None else 0) + len(_ctxset_lines(case))
    for idx, doc in enumerate(case["docs"]):
        k += 1 + len(_stmt_lines(case, idx, doc)) + 1
        line = out[k]
        k += 1
        quads = set()
        for w in line.split():
            quads.add(tuple(("b", t[1:]) if t[0] == "b" else t for t in w.split(",")))
        nb = len({x for q in quads for x in q if isinstance(x, tuple)})
        r = f"ok n={nb} " + canon(quads)
        if "ctx" in _eff_opts(doc):
            r += " ctx=" + out[k]
            k += 1
        res.append(r)
    return res


# ---------------------------------------------------------------- shrinking, matchers

def _drop_doc(case, i):
    docs = []
    for j, d in enumerate(case["docs"]):
        if j == i:
            continue
        quads = []
        for q in d["quads"]:
            nq = []
            for t in q:
                m = re.fullmatch(r"r(\d+)\.(\d+)", t)
                if m:
                    a = int(m.group(1))
                    if a == i:
                        t = "n%s" % m.group(2)
                    elif a > i:
                        t = "r%d.%s" % (a - 1, m.group(2))
                nq.append(t)
            quads.append(nq)
        docs.append({**d, "quads": quads})
    # marker literals are tied to the original index; references to moved documents degrade to plain labels (still a valid case)
    fresh = case.get("fresh")
    if fresh is not None:
        fresh = None if fresh == i else fresh - (1 if fresh > i else 0)
    return {**case, "docs": docs, "fresh": fresh}


def shrink(case):
    docs = case["docs"]
    if case.get("fresh") is not None:
        yield {**case, "fresh": None}
    if case.get("predict"):
        yield {**case, "predict": False}
    if case.get("reuse"):
        yield {**case, "reuse": False}
    if case.get("reseed"):
        yield {**case, "reseed": None}
    for kc, entries in (case.get("ctxinit") or {}).items():
        for j in range(len(entries)):
            yield {**case, "ctxinit": {**case["ctxinit"], kc: entries[:j] + entries[j + 1:]}}
    if case.get("union"):
        yield {**case, "union": False}
    for i in range(len(docs)):
        if len(docs) > 1:
            yield _drop_doc(case, i)
    for i in range(len(case["init"])):
        yield {**case, "init": case["init"][:i] + case["init"][i + 1:]}
    for i, d in enumerate(docs):
        for j in range(len(d["quads"])):
            if len(d["quads"]) > 1:
                nd = {**d, "quads": d["quads"][:j] + d["quads"][j + 1:]}
                try:
                    cq, _ = _concrete_doc({**case, "docs": docs[:i] + [nd] + docs[i + 1:]}, i, lambda a, b: "x")
                    D.check_shape(cq, formulas=(nd["fmt"] == "n3"))
                except Exception:
                    continue
                yield {**case, "docs": docs[:i] + [nd] + docs[i + 1:]}
        if d["into"] is not None:
            yield {**case, "docs": docs[:i] + [{**d, "into": None}] + docs[i + 1:]}
        for j in range(len(d.get("dels") or [])):
            yield {**case, "docs": docs[:i] + [{**d, "dels": d["dels"][:j] + d["dels"][j + 1:]}] + docs[i + 1:]}
        for k in list(d.get("opts") or {}):
            yield {**case, "docs": docs[:i] + [{**d, "opts": {a: b for a, b in d["opts"].items() if a != k}}] + docs[i + 1:]}
        if any(d["style"].values()):
            yield {**case, "docs": docs[:i] + [{**d, "style": {}}] + docs[i + 1:]}
    if case["sink"] == "cg":
        yield {**case, "sink": "ds"}


def _only_on(fmt, tags):
    """narrow matcher: every violation of the case is one of `tags` and is on a document of syntax `fmt`"""
    def m(case, result):
        v = result["viol"]
        return bool(v) and all(x.split(":")[0] in tags and f"({fmt})" in x for x in v)
    return m


def _k1(case, result):
    """C12-K1 (hext keeps labels verbatim): every violation is a merge / fresh-shared on a hext document, and the case
    has the K1 shape: a hext label that is also the id of a node of the initial content, or is used by another hext
    parse call, or was read off the target; or the two-fresh-targets clause failed.  (A collapse of two different
    labels inside one hext document — C12-F6 — does not have that shape.)"""
    if not _only_on("hext", ("merge", "fresh-shared"))(case, result):
        return False
    if any(x.startswith("fresh-shared") for x in result["viol"]):
        return True
    init_ids = {t for q in case["init"] for t in q if t.startswith("b")}
    hext = [(j, {t for q in d["quads"] for t in q if t[0] in "nr"}) for j, d in enumerate(case["docs"]) if d["fmt"] == "hext"]
    for j, labs in hext:
        for t in labs:
            if t[0] == "r" or "b" + t[1:] in init_ids or any(t in other for i, other in hext if i != j):
                return True
    return False


MATCHERS = {"hext_verbatim_labels": _k1,
            "trix_verbatim_labels": _only_on("trix", ("merge", "fresh-shared")),
            "jsonld_verbatim_labels": _only_on("json-ld", ("merge", "fresh-shared")),
            "nquads_default_graph_wiped": _only_on("nquads", ("removed", "merge")),
            "hext_default_graph_wiped": _only_on("hext", ("removed", "merge")),
            "n3_anon_counter_ids": _only_on("n3", ("merge",)),
            "hext_label_prefix_strip": _only_on("hext", ("merge",)),
            "n3_formula_counter_ids": _only_on("n3", ("merge",))}
