"""C18 — rollback restores, commit keeps (AuditableStore).  DESIGN §6 C18.

Case = {"cfg": "graph"|"cg"|"ds", "two": bool, "init": [[s,p,o,c]…],
        "ops": [["add",w,s,p,o,c] | ["remove",w,s,p,o,c] (None = wildcard) | ["commit",w] | ["rollback",w]]}
Terms are small integers (vocabulary below, falsy literals included); graph names 90…93 (93 = the name rdflib gives a graph requested as <>).
Observation after every op: the quad set of the *underlying* Memory store.
Property oracle (independent of Lean): snapshot at transaction begin / at commit.
"""
import warnings

import core  # noqa: F401
from rdflib import BNode, ConjunctiveGraph, Dataset, Graph, Literal, URIRef
from rdflib.plugins.stores.auditable import AuditableStore
from rdflib.plugins.stores.memory import Memory, SimpleMemory

warnings.filterwarnings("ignore", category=DeprecationWarning)

ID = "C18"
LEAN_TARGETS = ["RV.C18.Props", "RV.C18.Audit"]
AUDIT = "RV/C18/Audit.lean"
DRIVER = "drv_c18"
CASES = {"quick": 1500, "thorough": 40000, "search": 20000}
RULE = ("random histories (1-14 ops) of add / batch addN and += (duplicates inside a batch) / parse of an N-Triples document into a graph / Graph.set / -= / remove_context / pattern-remove / commit / rollback through Graph, ConjunctiveGraph "
        "over AuditableStore(Memory) or a Graph over AuditableStore(SimpleMemory), one or two wrappers (disjoint subjects); non-trivial = at least one "
        "rollback or commit happens while the undo log is non-empty; distinct = distinct (cfg, init, ops)")
ASSUMPTIONS = ["the wrapped Memory store behaves as a set of quads (C01/C02)",
               "two wrappers touch disjoint triples as the property states (disjoint subject sets)"]
TRUSTED = ["harness/c18.py generators and canonicalisation", "lean/RV/C18/Drive.lean line protocol"]

SUBJ = {1: URIRef("http://e/s1"), 2: BNode("s2"), 3: URIRef("http://e/s3"), 4: URIRef("http://e/s4")}
PRED = {10: URIRef("http://e/p"), 11: URIRef("http://e/q")}
OBJ = {20: Literal(""), 21: Literal(0), 22: Literal(False), 23: URIRef("http://e/s1"), 24: Literal("x", lang="en"),
       25: BNode("s2")}
GNAME = {90: URIRef("http://e/g0"), 91: URIRef("http://e/g1"), 92: BNode("g2")}
TERM = {**SUBJ, **PRED, **OBJ}
SUBJ_REV = {v: k for k, v in SUBJ.items()}
PRED_REV = {v: k for k, v in PRED.items()}
OBJ_REV = {v: k for k, v in OBJ.items()}
DEFAULT_G = 99  # the dataset's / conjunctive graph's default graph


def _ids(cfg):
    gn = dict(GNAME)
    if cfg == "ds":
        gn[DEFAULT_G] = URIRef("urn:x-rdflib:default")
    else:
        gn[DEFAULT_G] = URIRef("http://e/default")
    # a graph the caller asked to name by the relative IRI <>: whatever name rdflib gives it
    # (a fresh blank node today); the property must hold for that graph like for any other
    gn[93] = Graph(identifier=URIRef("")).identifier
    return gn


def gen_case(rng, tier, i):
    cfg = rng.choice(["graph", "sgraph", "cg", "cg", "cg"])  # sgraph: the wrapped store is SimpleMemory; Dataset refuses a non-graph-aware store such as AuditableStore
    two = cfg == "cg" and rng.random() < 0.3
    graphs = [DEFAULT_G] if cfg in ("graph", "sgraph") else [90, 91, 92, 93, DEFAULT_G]
    subs = list(SUBJ)

    def quad(ss):
        return [rng.choice(ss), rng.choice(list(PRED)), rng.choice(list(OBJ)[: rng.choice([2, 6])]), rng.choice(graphs)]

    init = []
    for _ in range(rng.randint(0, 5)):
        q = quad(subs)
        if q not in init:
            init.append(q)
    ops = []
    n = rng.randint(1, 14)
    for _ in range(n):
        w = rng.randint(0, 1) if two else 0
        ss = ([1, 2] if w == 0 else [3, 4]) if two else subs
        r = rng.random()
        if r < 0.10:
            # batch add (Graph.addN / ConjunctiveGraph.addN / +=): 1-4 quads, duplicates and re-adds likely
            pool = [q for q in init if q[0] in ss] + [o[2:] for o in ops if o[0] in ("add", "remove") and None not in o[2:] and o[2] in ss]
            qs = []
            for _k in range(rng.randint(1, 4)):
                q = list(rng.choice(pool)) if pool and rng.random() < 0.6 else quad(ss)
                qs.append(q)
                if rng.random() < 0.35:
                    qs.append(list(q))
            ops.append(["addn", w, qs])
        elif r < 0.13:
            # a document parsed into one graph inside the transaction (Graph.parse / ConjunctiveGraph.parse):
            # a history of adds made by the parser; blank-node-free so that the parsed terms are the vocabulary's
            c_ = rng.choice(graphs)
            ground = [x for x in ss if x != 2] or [1]
            qs = []
            for _k in range(rng.randint(1, 3)):
                qs.append([rng.choice(ground), rng.choice(list(PRED)), rng.choice([20, 21, 22, 23, 24]), c_])
            ops.append(["parse", w, qs])
        elif r < 0.155:
            # Graph.set((s, p, o)): remove every (s, p, *) of that graph, then add
            ops.append(["set", w] + quad(ss))
        elif r < 0.17:
            # graph -= [triples]: exact removes, present and absent ones
            pool = [q for q in init if q[0] in ss] + [o[2:] for o in ops if o[0] == "add" and o[2] in ss]
            c_ = rng.choice(graphs)
            qs = []
            for _k in range(rng.randint(1, 3)):
                q = list(rng.choice(pool)) if pool and rng.random() < 0.7 else quad(ss)
                qs.append(q[:3] + [c_])
            ops.append(["isub", w, qs])
        elif r < 0.18 and cfg == "cg" and not two:
            # ConjunctiveGraph.remove_context(g): the whole graph goes
            ops.append(["rmctx", w, rng.choice(graphs)])
        elif r < 0.20 and cfg == "cg":
            q = quad(ss)
            extra = []
            for _k in range(rng.randint(0, 2)):
                e = quad(ss)
                extra.append(e[:3])
            ops.append(["addf", w, q, extra])
        elif r < 0.38:
            pool = [q for q in init if q[0] in ss]
            q = rng.choice(pool) if pool and rng.random() < 0.5 else quad(ss)
            ops.append(["add", w] + q)
        elif r < 0.8:
            pool = [q for q in init if q[0] in ss] + [o[2:] for o in ops if o[0] == "add" and o[2] in ss]
            q = list(rng.choice(pool)) if pool and rng.random() < 0.7 else quad(ss)
            mask = rng.choice([0, 0, 0, 1, 2, 3, 4, 5, 6, 7]) if not two else rng.choice([0, 0, 1, 2, 3])
            if mask & 1:
                q[1] = None
            if mask & 2:
                q[2] = None
            if mask & 4 and not two:
                q[0] = None
            if cfg == "cg" and rng.random() < 0.3:
                q[3] = None
            ops.append(["remove", w] + q)
        elif r < 0.9:
            ops.append(["rollback", w])
        else:
            ops.append(["commit", w])
    if rng.random() < 0.8:
        ops.append(["rollback", rng.randint(0, 1) if two else 0])
    return {"cfg": cfg, "two": two, "init": init, "ops": ops}


def _quads(mem, gn_rev, term_rev):
    out = []
    if not mem.context_aware:   # SimpleMemory: one anonymous graph, reported as the default graph
        for s, p, o in Graph(store=mem):
            out.append((SUBJ_REV[s], PRED_REV[p], OBJ_REV[o], DEFAULT_G))
        return sorted(set(out)), len(out)
    cg = ConjunctiveGraph(store=mem)
    for s, p, o, c in cg.quads((None, None, None)):
        out.append((SUBJ_REV[s], PRED_REV[p], OBJ_REV[o], gn_rev.get(c.identifier, 98)))
    return sorted(set(out)), len(out)


def run_impl(case):
    cfg = case["cfg"]
    gn = _ids(cfg)
    gn_rev = {v: k for k, v in gn.items()}
    term_rev = {v: k for k, v in TERM.items()}
    simple = cfg == "sgraph"
    mem = SimpleMemory() if simple else Memory()
    if simple:
        cfg = "graph"           # same driving, the wrapped store is not context aware
    for s, p, o, c in case["init"]:
        mem.add((TERM[s], TERM[p], TERM[o]), Graph(store=mem, identifier=gn[c]))
    tops = []
    for _w in range(2 if case["two"] else 1):
        st = AuditableStore(mem)
        if cfg == "graph":
            tops.append(Graph(store=st, identifier=gn[DEFAULT_G]))
        elif cfg == "cg":
            tops.append(ConjunctiveGraph(store=st, identifier=gn[DEFAULT_G]))
        else:
            tops.append(Dataset(store=st))
    obs, viol = [], []
    terr = (lambda w: ({1, 2} if w == 0 else {3, 4})) if case["two"] else (lambda w: set(SUBJ))
    q0, _ = _quads(mem, gn_rev, term_rev)
    snap = [set(q0), set(q0)]
    dirty = [False, False]
    nontrivial = False

    def t(x):
        return None if x is None else TERM[x]

    for k, op in enumerate(case["ops"]):
        kind, w = op[0], op[1]
        top = tops[w]
        before, _ = _quads(mem, gn_rev, term_rev)
        if kind == "add":
            s, p, o, c = op[2:]
            if cfg == "graph":
                top.add((t(s), t(p), t(o)))
            elif k % 2 == 0:
                top.add((t(s), t(p), t(o), top.get_context(gn[c])))
            else:
                top.get_context(gn[c]).add((t(s), t(p), t(o)))
            dirty[w] = True
        elif kind == "addf":
            (s_, p_, o_, c_), extra = op[2], op[3]
            foreign = Graph(identifier=gn[c_])          # a graph of ANOTHER store carrying the same name
            for es, ep, eo in extra:
                foreign.add((t(es), t(ep), t(eo)))
            top.add((t(s_), t(p_), t(o_), foreign))     # _graph() copies its content in, then adds the triple
            dirty[w] = True
        elif kind == "addn":
            qs = op[2]
            if cfg == "graph":
                if k % 2 == 0:
                    top.addN([(t(s_), t(p_), t(o_), top) for s_, p_, o_, _c in qs])
                else:
                    top += [(t(s_), t(p_), t(o_)) for s_, p_, o_, _c in qs]
            else:
                top.addN([(t(s_), t(p_), t(o_), top.get_context(gn[c_])) for s_, p_, o_, c_ in qs])
            dirty[w] = True
        elif kind == "parse":
            qs = op[2]
            doc = Graph()
            for s_, p_, o_, _c in qs:
                doc.add((t(s_), t(p_), t(o_)))
            text = doc.serialize(format="nt")
            c_ = qs[0][3]
            if cfg == "graph":
                top.parse(data=text, format="nt")
            else:
                top.get_context(gn[c_]).parse(data=text, format="nt")
            dirty[w] = True
        elif kind == "set":
            s, p, o, c = op[2:]
            (top if cfg == "graph" else top.get_context(gn[c])).set((t(s), t(p), t(o)))
            dirty[w] = True
        elif kind == "isub":
            qs = op[2]
            g_ = top if cfg == "graph" else top.get_context(gn[qs[0][3]])
            g_ -= [(t(s_), t(p_), t(o_)) for s_, p_, o_, _c in qs]
            dirty[w] = True
        elif kind == "rmctx":
            top.remove_context(top.get_context(gn[op[2]]))
            dirty[w] = True
        elif kind == "remove":
            s, p, o, c = op[2:]
            if cfg == "graph":
                top.remove((t(s), t(p), t(o)))
            elif c is None:
                top.remove((t(s), t(p), t(o)))
            elif k % 2 == 0:
                top.remove((t(s), t(p), t(o), top.get_context(gn[c])))
            else:
                top.get_context(gn[c]).remove((t(s), t(p), t(o)))
            dirty[w] = True
        elif kind == "commit":
            top.commit()
        elif kind == "rollback":
            top.rollback()
        after, raw_n = _quads(mem, gn_rev, term_rev)
        if raw_n != len(after):
            viol.append(f"dup: store yields duplicate quads after op {k}")
        if any(q[3] == 98 for q in after):
            viol.append(f"graph: after op {k} the store holds quads in a graph no operation named: "
                        f"{[q for q in after if q[3] == 98]}")
        obs.append(" ".join(",".join(map(str, q)) for q in after))
        A, B = set(after), set(before)
        mine = terr(w)
        if kind == "rollback":
            if dirty[w]:
                nontrivial = True
            want = {q for q in snap[w] if q[0] in mine} | {q for q in B if q[0] not in mine}
            if A != want:
                viol.append(f"rollback: after op {k} store has {sorted(A)} but transaction began with "
                            f"{sorted(want)}")
            dirty[w] = False
        elif kind == "commit":
            if dirty[w]:
                nontrivial = True
            if A != B:
                viol.append(f"commit: op {k} changed the store")
            snap[w] = set(A)
            dirty[w] = False
        if kind in ("rollback", "commit"):
            snap[w] = set(A)
    return {"obs": obs, "viol": viol, "nontrivial": nontrivial,
            "key": repr((case["cfg"], case["two"], case["init"], case["ops"])),
            "stats": {"ops": len(case["ops"]), "cfg_" + case["cfg"]: 1, "two_wrappers": int(case["two"]),
                      **{"op_" + o[0]: 1 for o in case["ops"]},
                      "parse_in_transaction": int(any(o[0] == "parse" for o in case["ops"])),
                      "addf_foreign_graph_object": int(any(o[0] == "addf" for o in case["ops"])),
                      "addn_with_duplicate": int(any(o[0] == "addn" and len({tuple(q) for q in o[2]}) < len(o[2]) for o in case["ops"]))}}


def _w(x):
    return "*" if x is None else str(x)


def _op_lines(op):
    """the model-side lines of one harness op (every compound op is the sequence of its adds / removes)"""
    k, w = op[0], op[1]
    if k in ("add", "remove"):
        return [f"{k} {w} " + " ".join(_w(x) for x in op[2:])]
    if k in ("addn", "parse"):
        return [f"add {w} " + " ".join(_w(x) for x in q) for q in op[2]]
    if k == "addf":
        return ([f"add {w} " + " ".join(_w(x) for x in list(e) + [op[2][3]]) for e in op[3]]
                + [f"add {w} " + " ".join(_w(x) for x in op[2])])
    if k == "set":
        s_, p_, o_, c_ = op[2:]
        return [f"remove {w} {s_} {p_} * {c_}", f"add {w} {s_} {p_} {o_} {c_}"]
    if k == "isub":
        return [f"remove {w} " + " ".join(_w(x) for x in q) for q in op[2]]
    if k == "rmctx":
        return [f"remove {w} * * * {op[2]}"]
    return [f"{k} {w}"]


def model_lines(case):
    lines = ["reset"]
    for q in case["init"]:
        lines.append("init " + " ".join(map(str, q)))
    for op in case["ops"]:
        lines.extend(_op_lines(op))
        lines.append("obs")
    return lines


def select_model_obs(case, out):
    # keep only the answers to `obs` (every op is followed by exactly one `obs`)
    i = 1 + len(case["init"])
    res = []
    for op in case["ops"]:
        i += len(_op_lines(op))
        res.append(out[i])
        i += 1
    return res


def shrink(case):
    ops, init = case["ops"], case["init"]
    for i in range(len(ops)):
        yield {**case, "ops": ops[:i] + ops[i + 1:]}
    for i in range(len(init)):
        yield {**case, "init": init[:i] + init[i + 1:]}
    for i, op in enumerate(ops):
        if op[0] == "addf" and op[3]:
            for j in range(len(op[3])):
                yield {**case, "ops": ops[:i] + [["addf", op[1], op[2], op[3][:j] + op[3][j + 1:]]] + ops[i + 1:]}
    for i, op in enumerate(ops):
        if op[0] in ("addn", "parse", "isub") and len(op[2]) > 1:
            for j in range(len(op[2])):
                yield {**case, "ops": ops[:i] + [[op[0], op[1], op[2][:j] + op[2][j + 1:]]] + ops[i + 1:]}
    if case["two"] and all(o[1] == 0 for o in ops):
        yield {**case, "two": False}


def _m_readd(case, result):
    """remove a present quad, re-add it, rollback (the pre-fix `add` appended *and* cancelled)"""
    kinds = [o[0] for o in case["ops"]]
    return kinds[:3] == ["remove", "add", "rollback"] and any(v.startswith("rollback") for v in result["viol"])


def _m_foreign(case, result):
    """a quad add whose graph is a Graph object of another store, then rollback"""
    return any(o[0] == "addf" for o in case["ops"]) and any(v.startswith("rollback") for v in result["viol"])


MATCHERS = {"remove_readd_rollback": _m_readd, "foreign_graph_object": _m_foreign}
