"""C18 — rollback restores, commit keeps (AuditableStore).  DESIGN §6 C18.

Case = {"cfg": "graph"|"sgraph"|"cg"|"nest", "two": bool, "init": [[s,p,o,c]…],
        "ops": [["add",w,s,p,o,c(,route)] | ["remove",w,s,p,o,c(,route)] (None = wildcard) | ["commit",w] | ["rollback",w]
                | compound writes (addn, parse, set, isub, rmctx, addf)
                | ["upd",w,"insert"|"delete",quads] | ["upd",w,"clear",c] | ["upd",w,"delwhere",s,p,o,c]   (round g: SPARQL Update through Graph.update)
                | ["bind",w,pfx,ns,override] | ["pass",w,kind]                      (round g: pass-through, not logged)
                | ["triples",w,s,p,o,c] | ["len",w,c] | ["ctxs",w] | ["tctx",w,s,p,o] | ["ns",w]   (round g: reads through the wrapper)
                | ["bound",w]   (are the Graph objects handed out by contexts() / triples() / quads() bound to the wrapper)]}
route (round g): absent = through Graph / ConjunctiveGraph objects as before; "store" = the wrapper's own add()/remove();
"ident" = ConjunctiveGraph quad whose graph is given as an identifier, not a Graph object; "ctxobj" = through the Graph object that
ConjunctiveGraph.contexts() (= AuditableStore.contexts()) hands out for that name, when there is one; "self" = a quad of the
default graph given as `(s, p, o, cg)` with cg the ConjunctiveGraph itself (the wrapper then receives a ConjunctiveGraph as context);
"ctxof" / "quadctx" / "tripctx" = through the Graph object of that name that `cg.contexts(<a triple the graph holds>)`, `cg.quads()` or the
wrapper's own `triples()` hands out, when there is one (every graph object obtained through the wrapper must log through the wrapper);
"resource" (round h) = through `graph.resource(s).add(p, o)` / `.remove(p, o)` (rdflib.resource.Resource holds the graph it was asked of).
cfg "nest" (round g): ConjunctiveGraph over AuditableStore(AuditableStore(Memory)); wrapper 0 = outer (all operations),
wrapper 1 = inner (commit / rollback behind the outer wrapper's back).
Terms are small integers (vocabulary below, falsy literals included); graph names 90…93 (93 = the name rdflib gives a graph requested as <>).
Observation after every write: the quad set of the *underlying* Memory store (compared with the code-shaped model AND with the
abstract model of rounds 1-f); after every read: what the wrapper answered.
Property oracle (independent of Lean): snapshot at transaction begin / at commit; reads through the wrapper = the underlying
store's content; pass-through calls and binds change no quad; bindings are those a plain dict pair would hold.
"""
import os
import sys
import warnings

import core  # noqa: F401
from rdflib import BNode, ConjunctiveGraph, Dataset, Graph, Literal, URIRef
from rdflib.collection import Collection
from rdflib.plugins.stores.auditable import AuditableStore
from rdflib.plugins.stores.memory import Memory, SimpleMemory

warnings.filterwarnings("ignore", category=DeprecationWarning)

# Round h: every Graph object rdflib creates while an operation runs is recorded (who created it, on which store).
# Recording only - the constructor runs unchanged.
_TRACE = None
_graph_init = Graph.__init__


def _traced_init(self, *a, **k):
    _graph_init(self, *a, **k)
    if _TRACE is not None:
        f = sys._getframe(1)
        while f is not None and f.f_code.co_name == "__init__" and f.f_code.co_filename.endswith("graph.py"):
            f = f.f_back        # ConjunctiveGraph / Dataset / QuotedGraph constructors
        _TRACE.append((self, os.path.basename(f.f_code.co_filename) if f else "?", f.f_code.co_name if f else "?"))


Graph.__init__ = _traced_init

ID = "C18"
LEAN_TARGETS = ["RV.C18.Props", "RV.C18.Audit"]
AUDIT = "RV/C18/Audit.lean"
DRIVER = "drv_c18"
CASES = {"quick": 1500, "thorough": 40000, "search": 20000}
RULE = ("random histories (1-14 ops) of add / batch addN and += (duplicates inside a batch) / parse of an N-Triples document into a graph / Graph.set / -= / remove_context / SPARQL Update (INSERT DATA, DELETE DATA, DELETE WHERE, CLEAR GRAPH through Graph.update) / pattern-remove / commit / rollback through Graph, ConjunctiveGraph "
        "(graph given as Graph object or as identifier) or the wrapper's own add()/remove(), interleaved with bind, open/close/destroy/query and reads through the wrapper (triples, __len__, contexts, namespaces), "
        "over AuditableStore(Memory), a Graph over AuditableStore(SimpleMemory), or AuditableStore(AuditableStore(Memory)) with inner commits/rollbacks; one or two wrappers (disjoint subjects); non-trivial = at least one "
        "rollback or commit happens while the undo log is non-empty; distinct = distinct (cfg, init, ops)")
ASSUMPTIONS = ["the wrapped Memory store behaves as a set of quads (C01/C02)",
               "two wrappers touch disjoint triples as the property states (disjoint subject sets)"]
TRUSTED = ["harness/c18.py generators and canonicalisation", "lean/RV/C18/Drive.lean line protocol"]

SUBJ = {1: URIRef("http://e/s1"), 2: BNode("s2"), 3: URIRef("http://e/s3"), 4: URIRef("http://e/s4")}
PRED = {10: URIRef("http://e/p"), 11: URIRef("http://e/q")}
OBJ = {20: Literal(""), 21: Literal(0), 22: Literal(False), 23: URIRef("http://e/s1"), 24: Literal("x", lang="en"),
       25: BNode("s2")}
GNAME = {90: URIRef("http://e/g0"), 91: URIRef("http://e/g1"), 92: BNode("g2")}
TERM = {**SUBJ, **PRED, **OBJ}
SUBJ_REV = {v: k for k, v in SUBJ.items()}
PRED_REV = {v: k for k, v in PRED.items()}
OBJ_REV = {v: k for k, v in OBJ.items()}
DEFAULT_G = 99  # the dataset's / conjunctive graph's default graph
PFX = {1: "zpa", 2: "zpb", 3: ""}           # prefixes (the falsy one included); none is among rdflib's default bindings
NSP = {7: URIRef("http://n/7#"), 8: URIRef("http://n/8#"), 9: URIRef("http://n/9#")}
PASS_KINDS = ["open", "close", "close_commit", "destroy", "query"]
READS = ("triples", "len", "ctxs", "tctx", "ns", "bound")


def _ids(cfg):
    gn = dict(GNAME)
    if cfg == "ds":
        gn[DEFAULT_G] = URIRef("urn:x-rdflib:default")
    else:
        gn[DEFAULT_G] = URIRef("http://e/default")
    # a graph the caller asked to name by the relative IRI <>: whatever name rdflib gives it
    # (a fresh blank node today); the property must hold for that graph like for any other
    gn[93] = Graph(identifier=URIRef("")).identifier
    return gn


def gen_case(rng, tier, i):
    # sgraph: the wrapped store is SimpleMemory; Dataset refuses a non-graph-aware store such as AuditableStore;
    # nest: a wrapper over a wrapper
    cfg = rng.choice(["graph", "sgraph", "cg", "cg", "cg", "nest"])
    two = cfg == "cg" and rng.random() < 0.3
    nest = cfg == "nest"
    graphs = [DEFAULT_G] if cfg in ("graph", "sgraph") else [90, 91, 92, 93, DEFAULT_G]
    subs = list(SUBJ)

    def quad(ss):
        return [rng.choice(ss), rng.choice(list(PRED)), rng.choice(list(OBJ)[: rng.choice([2, 6])]), rng.choice(graphs)]

    def route():
        if cfg == "sgraph":
            return []
        r_ = rng.choice([None, None, "store", "ident", "ctxobj", "self", "ctxof", "quadctx", "tripctx", "resource"] if cfg in ("cg", "nest") else [None, None, "store", "resource"])
        return [r_] if r_ else []

    def known(kinds):
        return [o[2:6] for o in ops if o[0] in kinds and None not in o[2:6]]

    init = []
    for _ in range(rng.randint(0, 5)):
        q = quad(subs)
        if q not in init:
            init.append(q)
    ops = []
    n = rng.randint(1, 14)
    for _ in range(n):
        w = rng.randint(0, 1) if two else 0
        ss = ([1, 2] if w == 0 else [3, 4]) if two else subs
        r0 = rng.random()
        if r0 < 0.05:
            # binds come in bursts, so that a prefix or a namespace is re-bound (override and no-override clashes)
            for _k in range(rng.randint(1, 3)):
                ops.append(["bind", w, rng.choice(list(PFX)), rng.choice(list(NSP)), rng.randint(0, 1)])
            if rng.random() < 0.5:
                ops.append(["ns", w])
            continue
        if r0 < 0.08:
            ops.append(["pass", w, rng.choice(PASS_KINDS)])
            continue
        if r0 < 0.20:
            wr = rng.randint(0, 1) if (two or nest) else 0          # reads through either wrapper
            kind = rng.choice(["ns"] if cfg == "sgraph" else ["triples", "triples", "len", "ctxs", "tctx", "ns", "bound"])
            pool = init + known(("add",))
            q = list(rng.choice(pool)) if pool and rng.random() < 0.7 else quad(subs)
            if kind == "triples":
                mask = rng.choice([0, 1, 2, 3, 4, 5, 6, 7, 7])
                for b_, j in ((1, 1), (2, 2), (4, 0)):
                    if mask & b_:
                        q[j] = None
                if rng.random() < 0.5:
                    q[3] = None
                ops.append(["triples", wr] + q)
            elif kind == "len":
                ops.append(["len", wr, q[3] if rng.random() < 0.7 else None])
            elif kind == "tctx":
                ops.append(["tctx", wr] + q[:3])
            else:
                ops.append([kind, wr])
            continue
        if r0 < 0.26 and cfg != "sgraph":
            # SPARQL Update through Graph.update (the wrapper has no update(): rdflib's own processor evaluates the request
            # and calls add / remove on the graphs): ground terms and IRI-named graphs only
            ground = [x for x in ss if x != 2] or [1]
            named = [DEFAULT_G] if cfg == "graph" else [90, 91, DEFAULT_G]
            sub = rng.choice(["insert", "insert", "delete", "delwhere", "delwhere"] + (["clear"] if cfg != "graph" and not two else []))
            c_ = rng.choice(named)

            def gq():
                return [rng.choice(ground), rng.choice(list(PRED)), rng.choice([20, 21, 22, 23, 24]), c_]
            pool = [q for q in init + known(("add",)) if q[0] in ground and q[2] != 25 and q[3] in named]
            if sub in ("insert", "delete"):
                qs = []
                for _k in range(rng.randint(1, 3)):
                    q = list(rng.choice(pool)) if pool and rng.random() < (0.3 if sub == "insert" else 0.7) else gq()
                    qs.append(q[:3] + [c_])
                ops.append(["upd", w, sub, qs])
            elif sub == "clear":
                ops.append(["upd", w, "clear", c_])
            else:
                q = list(rng.choice(pool)) if pool and rng.random() < 0.7 else gq()
                mask = rng.choice([1, 2, 3, 3]) if two else rng.choice([1, 2, 3, 4, 5, 6, 7])
                for b_, j in ((1, 1), (2, 2), (4, 0)):
                    if mask & b_:
                        q[j] = None
                # (always inside GRAPH <g>: without it rdflib's update evaluator matches in the union but deletes from the
                #  default graph only - with or without the wrapper; that is the SPARQL subsystem's business, not C18's)
                ops.append(["upd", w, "delwhere"] + q)
            continue
        r = rng.random()
        if r < 0.10:
            # batch add (Graph.addN / ConjunctiveGraph.addN / +=): 1-4 quads, duplicates and re-adds likely
            pool = [q for q in init if q[0] in ss] + [q for q in known(("add", "remove")) if q[0] in ss]
            qs = []
            for _k in range(rng.randint(1, 4)):
                q = list(rng.choice(pool)) if pool and rng.random() < 0.6 else quad(ss)
                qs.append(q)
                if rng.random() < 0.35:
                    qs.append(list(q))
            ops.append(["addn", w, qs])
        elif r < 0.13:
            # a document parsed into one graph inside the transaction (Graph.parse / ConjunctiveGraph.parse):
            # a history of adds made by the parser; blank-node-free so that the parsed terms are the vocabulary's
            c_ = rng.choice(graphs)
            ground = [x for x in ss if x != 2] or [1]
            qs = []
            for _k in range(rng.randint(1, 3)):
                qs.append([rng.choice(ground), rng.choice(list(PRED)), rng.choice([20, 21, 22, 23, 24]), c_])
            ops.append(["parse", w, qs])
        elif r < 0.155:
            # Graph.set((s, p, o)): remove every (s, p, *) of that graph, then add
            ops.append(["set", w] + quad(ss))
        elif r < 0.17:
            # graph -= [triples]: exact removes, present and absent ones
            pool = [q for q in init if q[0] in ss] + [q for q in known(("add",)) if q[0] in ss]
            c_ = rng.choice(graphs)
            qs = []
            for _k in range(rng.randint(1, 3)):
                q = list(rng.choice(pool)) if pool and rng.random() < 0.7 else quad(ss)
                qs.append(q[:3] + [c_])
            ops.append(["isub", w, qs])
        elif r < 0.18 and cfg in ("cg", "nest") and not two:
            # ConjunctiveGraph.remove_context(g): the whole graph goes
            ops.append(["rmctx", w, rng.choice(graphs)])
        elif r < 0.20 and cfg in ("cg", "nest"):
            q = quad(ss)
            extra = []
            for _k in range(rng.randint(0, 2)):
                e = quad(ss)
                extra.append(e[:3])
            ops.append(["addf", w, q, extra])
        elif r < 0.38:
            pool = [q for q in init if q[0] in ss]
            q = rng.choice(pool) if pool and rng.random() < 0.5 else quad(ss)
            rt = route()
            q = list(q)
            if rt == ["self"]:
                q[3] = DEFAULT_G
            ops.append(["add", w] + q + rt)
        elif r < 0.8:
            pool = [q for q in init if q[0] in ss] + [q for q in known(("add",)) if q[0] in ss]
            q = list(rng.choice(pool)) if pool and rng.random() < 0.7 else quad(ss)
            mask = rng.choice([0, 0, 0, 1, 2, 3, 4, 5, 6, 7]) if not two else rng.choice([0, 0, 1, 2, 3])
            if mask & 1:
                q[1] = None
            if mask & 2:
                q[2] = None
            if mask & 4 and not two:
                q[0] = None
            if cfg in ("cg", "nest") and rng.random() < 0.3:
                q[3] = None
            rt = route()
            if rt == ["self"]:
                q[3] = DEFAULT_G
            ops.append(["remove", w] + q + rt)
        elif r < 0.9:
            ops.append(["rollback", (1 if rng.random() < 0.3 else 0) if nest else w])
        else:
            ops.append(["commit", (1 if rng.random() < 0.4 else 0) if nest else w])
    if rng.random() < 0.8:
        ops.append(["rollback", rng.randint(0, 1) if two else 0])
    if nest and rng.random() < 0.5:
        ops.append(["rollback", 1])
    return {"cfg": cfg, "two": two, "init": init, "ops": ops}


def _quads(mem, gn_rev, term_rev):
    out = []
    if not mem.context_aware:   # SimpleMemory: one anonymous graph, reported as the default graph
        for s, p, o in Graph(store=mem):
            out.append((SUBJ_REV[s], PRED_REV[p], OBJ_REV[o], DEFAULT_G))
        return sorted(set(out)), len(out)
    cg = ConjunctiveGraph(store=mem)
    for s, p, o, c in cg.quads((None, None, None)):
        out.append((SUBJ_REV[s], PRED_REV[p], OBJ_REV[o], gn_rev.get(c.identifier, 98)))
    return sorted(set(out)), len(out)


def _fmt(rows):
    return " ".join(",".join(map(str, r)) for r in sorted(rows))


def _bindings(st):
    """the bindings of the vocabulary's prefixes / namespaces, as the wrapper reports them"""
    nrev = {v: k for k, v in NSP.items()}
    prev = {v: k for k, v in PFX.items()}
    ns = []
    for p, text in PFX.items():
        n = st.namespace(text)
        if n is not None:
            ns.append((p, nrev.get(n, 0)))
    pf = []
    for n, uri in NSP.items():
        p = st.prefix(uri)
        if p is not None:
            pf.append((n, prev.get(p, 0)))
    listed = sorted((prev[p], nrev[n]) for p, n in st.namespaces() if p in prev and n in nrev)
    return ns, pf, listed


def _fmt_bind(ns, pf):
    return " ".join(f"{a}={b}" for a, b in sorted(ns)) + " | " + " ".join(f"{a}={b}" for a, b in sorted(pf))


def run_impl(case):
    global _TRACE
    created = {}
    cfg = case["cfg"]
    gn = _ids(cfg)
    gn_rev = {v: k for k, v in gn.items()}
    term_rev = {v: k for k, v in TERM.items()}
    simple = cfg == "sgraph"
    nest = cfg == "nest"
    mem = SimpleMemory() if simple else Memory()
    if simple:
        cfg = "graph"           # same driving, the wrapped store is not context aware
    for s, p, o, c in case["init"]:
        mem.add((TERM[s], TERM[p], TERM[o]), Graph(store=mem, identifier=gn[c]))
    tops, sts = [], []
    if nest:
        inner = AuditableStore(mem)
        outer = AuditableStore(inner)
        sts = [outer, inner]
        top0 = ConjunctiveGraph(store=outer, identifier=gn[DEFAULT_G])
        tops = [top0, top0]
        cfg = "cg"
    else:
        for _w in range(2 if case["two"] else 1):
            st = AuditableStore(mem)
            sts.append(st)
            if cfg == "graph":
                tops.append(Graph(store=st, identifier=gn[DEFAULT_G]))
            elif cfg == "cg":
                tops.append(ConjunctiveGraph(store=st, identifier=gn[DEFAULT_G]))
            else:
                tops.append(Dataset(store=st))
    obs, viol = [], []
    if not all(bool(v) for v in gn.values()):
        viol.append("truthy: a Graph carries a falsy identifier (AuditableStore.remove tests `if ctxId:`)")
    terr = (lambda w: ({1, 2} if w == 0 else {3, 4})) if case["two"] else (lambda w: set(SUBJ))
    q0, _ = _quads(mem, gn_rev, term_rev)
    snap = [set(q0), set(q0)]
    dirty = [False, False]
    inner_rb = False            # nest: the inner wrapper rolled back since the outer transaction began
    nontrivial = False

    def t(x):
        return None if x is None else TERM[x]

    def ctx_of(st, c):
        return None if c is None else Graph(store=st, identifier=gn[c])

    def handed_out(top, c):
        """the Graph object contexts() hands out for the name (written through inside the transaction)"""
        for g_ in top.contexts():
            # (Memory hands back the context object it was given: after `cg.add((s, p, o, cg))` that is a
            # ConjunctiveGraph, whose remove(triple) means "from every graph" - not a write to ONE graph)
            if g_.identifier == gn[c] and not isinstance(g_, ConjunctiveGraph):
                return g_
        return top.get_context(gn[c])

    def handed_out_by(route, top, st, c, held):
        """the Graph object named gn[c] that a READ through the wrapper hands out (None if that read yields none)"""
        cands = []
        if route == "ctxof":
            for q_ in held:
                if q_[3] == c:
                    cands = list(top.contexts((TERM[q_[0]], TERM[q_[1]], TERM[q_[2]])))
                    break
        elif route == "quadctx":
            cands = [g_ for _s, _p, _o, g_ in top.quads((None, None, None))]
        else:
            for _t, cg_ in st.triples((None, None, None), None):
                cands.extend(cg_)
        for g_ in cands:
            if isinstance(g_, Graph) and g_.identifier == gn[c] and not isinstance(g_, ConjunctiveGraph):
                return g_
        return top.get_context(gn[c])

    for st_ in sts:
        if not (st_.transaction_aware is True and st_.formula_aware is False and st_.context_aware == mem.context_aware):
            viol.append("flags: AuditableStore must be transaction aware, not formula aware, and context aware as the wrapped store is")

    for k, op in enumerate(case["ops"]):
        kind, w = op[0], op[1]
        top = tops[w]
        st = sts[w if (nest or case["two"]) else 0]
        before, _ = _quads(mem, gn_rev, term_rev)
        bind_before = _bindings(st)[:2]
        if kind in READS:
            B = before
            if kind == "triples":
                s, p, o, c = op[2:6]
                rows = []
                for (s_, p_, o_), cg in st.triples((t(s), t(p), t(o)), ctx_of(st, c)):
                    rows.append([SUBJ_REV[s_], PRED_REV[p_], OBJ_REV[o_]] + sorted(gn_rev.get(x.identifier, 98) for x in cg))
                want = {}
                for q in B:
                    want.setdefault(q[:3], []).append(q[3])
                want = sorted([list(tr) + sorted(cs) for tr, cs in want.items()
                               if all(a is None or a == b for a, b in zip((s, p, o), tr)) and (c is None or c in cs)])
                if sorted(rows) != want:
                    viol.append(f"read: op {k} triples{(s, p, o, c)} through the wrapper answered {sorted(rows)}, the store holds {want}")
                obs.append(_fmt(rows))
            elif kind == "len":
                c = op[2]
                n_ = st.__len__(ctx_of(st, c)) if c is not None else len(st)
                want = len({q[:3] for q in B}) if c is None else len([q for q in B if q[3] == c])
                if n_ != want:
                    viol.append(f"read: op {k} __len__({c}) through the wrapper answered {n_}, the store holds {want}")
                obs.append(str(n_))
            elif kind == "ctxs":
                cs = sorted(gn_rev.get(x.identifier, 98) for x in st.contexts())
                if not {q[3] for q in B} <= set(cs):
                    viol.append(f"read: op {k} contexts() through the wrapper answered {cs}, the store holds quads in {sorted({q[3] for q in B})}")
                obs.append(",".join(map(str, cs)))
            elif kind == "tctx":
                s, p, o = op[2:5]
                cs = sorted(gn_rev.get(x.identifier, 98) for x in st.contexts((t(s), t(p), t(o))))
                want = sorted(q[3] for q in B if q[:3] == (s, p, o))
                if cs != want:
                    viol.append(f"read: op {k} contexts({(s, p, o)}) through the wrapper answered {cs}, the store holds it in {want}")
                obs.append(",".join(map(str, cs)))
            elif kind == "bound":
                # every Graph object obtained through the wrapper must write through the wrapper; one bit per Source of
                # XModel.lean: storeContexts storeTriples cgContexts cgContextsOf cgQuads getContext resource collection nsManager
                src = {n_: [] for n_ in ("storeContexts", "storeTriples", "cgContexts", "cgContextsOf", "cgQuads", "getContext",
                                         "resource", "collection", "nsManager")}
                src["storeContexts"] = [g_ for g_ in st.contexts() if isinstance(g_, Graph)]
                src["storeTriples"] = [g_ for _t, cg_ in st.triples((None, None, None), None) for g_ in cg_ if isinstance(g_, Graph)]
                if not (nest and w == 1):
                    names = sorted({q_[3] for q_ in B}) or [DEFAULT_G]
                    if cfg == "cg":
                        src["cgContexts"] = list(top.contexts())
                        for q_ in B[:3]:
                            src["cgContextsOf"] += list(top.contexts((TERM[q_[0]], TERM[q_[1]], TERM[q_[2]])))
                        src["cgQuads"] = [g_ for _s, _p, _o, g_ in top.quads((None, None, None))]
                        src["getContext"] = [top, top.default_context] + [top.get_context(gn[c_]) for c_ in names]
                        for c_ in names:
                            try:
                                src["getContext"].append(top.get_graph(gn[c_]))
                            except IndexError:
                                pass
                        views = [top] + [top.get_context(gn[c_]) for c_ in names]
                    else:
                        src["getContext"] = [top]
                        views = [top]
                    for v_ in views:
                        src["resource"].append(v_.resource(TERM[1]).graph)
                        src["collection"].append(Collection(v_, BNode()).graph)
                        src["nsManager"].append(v_.namespace_manager.graph)
                bits = []
                for n_, gs_ in src.items():
                    loose = [g_ for g_ in gs_ if g_.store is not st]
                    bits.append(str(int(not loose)))
                    if loose:
                        viol.append(f"bound: op {k}: a Graph object handed out by {n_} is bound to another store "
                                    f"({type(loose[0].store).__name__}), not to the wrapper: writes through it bypass the undo log")
                obs.append(" ".join(bits))
            else:
                ns, pf, listed = _bindings(st)
                if sorted(ns) != listed:
                    viol.append(f"read: op {k} namespaces() lists {listed} but namespace() answers {sorted(ns)}")
                obs.append(_fmt_bind(ns, pf))
            after, _n = _quads(mem, gn_rev, term_rev)
            if after != before:
                viol.append(f"read: op {k} ({kind}) changed the store")
            continue
        route = op[6] if kind in ("add", "remove") and len(op) > 6 else None
        _TRACE = []
        try:
            if kind == "bind":
                taken = st.namespace(PFX[op[2]]) is not None or st.prefix(NSP[op[3]]) is not None
                st.bind(PFX[op[2]], NSP[op[3]], override=bool(op[4]))
                if not op[4] and taken and _bindings(st)[:2] != bind_before:
                    viol.append(f"bind: op {k} bind({op[2]}, {op[3]}, override=False) through the wrapper changed existing bindings "
                                f"{bind_before} -> {_bindings(st)[:2]}")
                if op[4] and (st.namespace(PFX[op[2]]) != NSP[op[3]] or st.prefix(NSP[op[3]]) != PFX[op[2]]):
                    viol.append(f"bind: op {k} bind({op[2]}, {op[3]}, override=True) through the wrapper did not take effect")
            elif kind == "pass":
                what = op[2]
                if what == "open":
                    st.open("cfg")
                elif what == "close":
                    st.close()
                elif what == "close_commit":
                    st.close(True)
                elif what == "destroy":
                    st.destroy("cfg")
                else:
                    try:
                        st.query("SELECT * WHERE { ?s ?p ?o }", {}, {}, "__UNION__")
                    except NotImplementedError:
                        pass
            elif kind == "add":
                s, p, o, c = op[2:6]
                if route == "store":
                    st.add((t(s), t(p), t(o)), ctx_of(st, c))
                elif route == "resource":
                    (top if cfg == "graph" else top.get_context(gn[c])).resource(t(s)).add(t(p), t(o))
                elif cfg == "graph":
                    top.add((t(s), t(p), t(o)))
                elif route == "ident":
                    top.add((t(s), t(p), t(o), gn[c]))
                elif route == "ctxobj":
                    handed_out(top, c).add((t(s), t(p), t(o)))
                elif route == "self" and c == DEFAULT_G:
                    top.add((t(s), t(p), t(o), top))
                elif route in ("ctxof", "quadctx", "tripctx"):
                    handed_out_by(route, top, st, c, before).add((t(s), t(p), t(o)))
                elif k % 2 == 0:
                    top.add((t(s), t(p), t(o), top.get_context(gn[c])))
                else:
                    top.get_context(gn[c]).add((t(s), t(p), t(o)))
                dirty[w] = True
            elif kind == "addf":
                (s_, p_, o_, c_), extra = op[2], op[3]
                foreign = Graph(identifier=gn[c_])          # a graph of ANOTHER store carrying the same name
                for es, ep, eo in extra:
                    foreign.add((t(es), t(ep), t(eo)))
                top.add((t(s_), t(p_), t(o_), foreign))     # _graph() copies its content in, then adds the triple
                dirty[w] = True
            elif kind == "addn":
                qs = op[2]
                if cfg == "graph":
                    if k % 2 == 0:
                        top.addN([(t(s_), t(p_), t(o_), top) for s_, p_, o_, _c in qs])
                    else:
                        top += [(t(s_), t(p_), t(o_)) for s_, p_, o_, _c in qs]
                else:
                    top.addN([(t(s_), t(p_), t(o_), top.get_context(gn[c_])) for s_, p_, o_, c_ in qs])
                dirty[w] = True
            elif kind == "parse":
                qs = op[2]
                doc = Graph()
                for s_, p_, o_, _c in qs:
                    doc.add((t(s_), t(p_), t(o_)))
                text = doc.serialize(format="nt")
                c_ = qs[0][3]
                if cfg == "graph":
                    top.parse(data=text, format="nt")
                else:
                    top.get_context(gn[c_]).parse(data=text, format="nt")
                dirty[w] = True
            elif kind == "upd":
                sub = op[2]

                def n3(x):
                    return TERM[x].n3()

                def wrap(body, c_):
                    return body if (cfg == "graph" or c_ is None or (c_ == DEFAULT_G and sub != "delwhere")) else "GRAPH %s { %s }" % (gn[c_].n3(), body)
                if sub in ("insert", "delete"):
                    qs = op[3]
                    body = " ".join("%s %s %s ." % (n3(s_), n3(p_), n3(o_)) for s_, p_, o_, _c in qs)
                    top.update("%s DATA { %s }" % ("INSERT" if sub == "insert" else "DELETE", wrap(body, qs[0][3])))
                elif sub == "clear":
                    top.update("CLEAR GRAPH %s" % gn[op[3]].n3())
                else:
                    s, p, o, c = op[3:7]
                    body = "%s %s %s ." % tuple(("?v%d" % j) if x is None else n3(x) for j, x in enumerate((s, p, o)))
                    top.update("DELETE WHERE { %s }" % wrap(body, c))
                dirty[w] = True
            elif kind == "set":
                s, p, o, c = op[2:]
                (top if cfg == "graph" else top.get_context(gn[c])).set((t(s), t(p), t(o)))
                dirty[w] = True
            elif kind == "isub":
                qs = op[2]
                g_ = top if cfg == "graph" else top.get_context(gn[qs[0][3]])
                g_ -= [(t(s_), t(p_), t(o_)) for s_, p_, o_, _c in qs]
                dirty[w] = True
            elif kind == "rmctx":
                top.remove_context(top.get_context(gn[op[2]]))
                dirty[w] = True
            elif kind == "remove":
                s, p, o, c = op[2:6]
                if route == "store":
                    st.remove((t(s), t(p), t(o)), ctx_of(st, c))
                elif route == "resource" and s is not None and p is not None and c is not None:
                    (top if cfg == "graph" else top.get_context(gn[c])).resource(t(s)).remove(t(p), t(o))
                elif cfg == "graph":
                    top.remove((t(s), t(p), t(o)))
                elif c is None:
                    top.remove((t(s), t(p), t(o)))
                elif route == "ident":
                    top.remove((t(s), t(p), t(o), gn[c]))
                elif route == "ctxobj":
                    handed_out(top, c).remove((t(s), t(p), t(o)))
                elif route == "self" and c == DEFAULT_G:
                    top.remove((t(s), t(p), t(o), top))
                elif route in ("ctxof", "quadctx", "tripctx"):
                    handed_out_by(route, top, st, c, before).remove((t(s), t(p), t(o)))
                elif k % 2 == 0:
                    top.remove((t(s), t(p), t(o), top.get_context(gn[c])))
                else:
                    top.get_context(gn[c]).remove((t(s), t(p), t(o)))
                dirty[w] = True
            elif kind == "commit":
                (st if (nest and w == 1) else top).commit()
            elif kind == "rollback":
                (st if (nest and w == 1) else top).rollback()
        except core.CaseTimeout:
            raise
        except Exception as e_:     # a valid call on valid arguments that cannot be carried out: the history breaks off here
            viol.append(f"raise: op {k} ({kind}{'/' + str(op[2]) if kind in ('upd', 'pass') else ''}) raised {type(e_).__name__}: {str(e_)[:120]}")
        made, _TRACE = _TRACE, None
        # graphs created while the operation ran: one bound BELOW the wrapper the caller talks to, created anywhere but inside
        # AuditableStore itself (its own re-bound views are never handed out: `bound` reads), is a way round the undo log
        below = [mem] + ([sts[1]] if nest and w == 0 else [])
        for g_, file_, fn_ in made:
            created["graphs_created_by_" + file_.replace(".py", "") + "." + fn_] = created.get("graphs_created_by_" + file_.replace(".py", "") + "." + fn_, 0) + 1
            if any(g_.store is b_ for b_ in below) and file_ != "auditable.py":
                viol.append(f"leak: op {k} ({kind}): {file_}:{fn_} created a {type(g_).__name__} bound to the store UNDER the wrapper")
        after, raw_n = _quads(mem, gn_rev, term_rev)
        if raw_n != len(after):
            viol.append(f"dup: store yields duplicate quads after op {k}")
        if any(q[3] == 98 for q in after):
            viol.append(f"graph: after op {k} the store holds quads in a graph no operation named: "
                        f"{[q for q in after if q[3] == 98]}")
        line = " ".join(",".join(map(str, q)) for q in after)
        obs.append(line)
        if not nest:
            obs.append(line)        # compared with the abstract model too (`obsw`)
        A, B = set(after), set(before)
        if kind in ("bind", "pass") and A != B:
            viol.append(f"pass: op {k} ({kind}) is handed to the wrapped store and must not change a quad")
        if kind != "bind" and not simple and _bindings(st)[:2] != bind_before:
            viol.append(f"frame: op {k} ({kind}) changed the namespace bindings {bind_before} -> {_bindings(st)[:2]}")
        mine = terr(w)
        if nest:
            if kind == "rollback":
                if dirty[0]:
                    nontrivial = True
                if w == 0:
                    if not inner_rb and A != snap[0]:
                        viol.append(f"rollback: after op {k} (outer rollback) store has {sorted(A)} but the outer transaction "
                                    f"began with {sorted(snap[0])}")
                    snap[0], inner_rb = set(A), False
                else:
                    if A != snap[1]:
                        viol.append(f"rollback: after op {k} (inner rollback) store has {sorted(A)} but the inner transaction "
                                    f"began with {sorted(snap[1])}")
                    snap[1], inner_rb = set(A), True
            elif kind == "commit":
                if dirty[0]:
                    nontrivial = True
                if A != B:
                    viol.append(f"commit: op {k} changed the store")
                snap[w] = set(A)
                if w == 0:
                    inner_rb = False
            continue
        if kind == "rollback":
            if dirty[w]:
                nontrivial = True
            want = {q for q in snap[w] if q[0] in mine} | {q for q in B if q[0] not in mine}
            if A != want:
                viol.append(f"rollback: after op {k} store has {sorted(A)} but transaction began with "
                            f"{sorted(want)}")
            dirty[w] = False
        elif kind == "commit":
            if dirty[w]:
                nontrivial = True
            if A != B:
                viol.append(f"commit: op {k} changed the store")
            snap[w] = set(A)
            dirty[w] = False
        if kind in ("rollback", "commit"):
            snap[w] = set(A)
    kinds = [o[0] for o in case["ops"]]
    return {"obs": obs, "viol": viol, "nontrivial": nontrivial,
            "key": repr((case["cfg"], case["two"], case["init"], case["ops"])),
            "stats": {**created, "ops": len(case["ops"]), "cfg_" + case["cfg"]: 1, "two_wrappers": int(case["two"]),
                      **{"op_" + o[0]: 1 for o in case["ops"]},
                      **{"route_" + o[6]: 1 for o in case["ops"] if o[0] in ("add", "remove") and len(o) > 6},
                      **{"pass_" + o[2]: 1 for o in case["ops"] if o[0] == "pass"},
                      **{"sparql_update_" + o[2]: 1 for o in case["ops"] if o[0] == "upd"},
                      "reads": sum(1 for x in kinds if x in READS),
                      "remove_all_graphs": sum(1 for o in case["ops"] if o[0] == "remove" and o[5] is None),
                      "remove_fully_bound": sum(1 for o in case["ops"] if o[0] == "remove" and None not in o[2:6]),
                      "nest_inner_boundary": int(nest and any(o[0] in ("commit", "rollback") and o[1] == 1 for o in case["ops"])),
                      "parse_in_transaction": int(any(o[0] == "parse" for o in case["ops"])),
                      "addf_foreign_graph_object": int(any(o[0] == "addf" for o in case["ops"])),
                      "addn_with_duplicate": int(any(o[0] == "addn" and len({tuple(q) for q in o[2]}) < len(o[2]) for o in case["ops"]))}}


def _w(x):
    return "*" if x is None else str(x)


def _op_lines(op):
    """the model-side line of one harness op; compound operations are expanded into the wrapper's calls by the MODEL
    (`GOp.expand` in XModel.lean), not here"""
    k, w = op[0], op[1]
    if k in ("add", "remove"):
        return [f"{k} {w} " + " ".join(_w(x) for x in op[2:6])]
    if k == "addn":
        return [f"addn {w} " + " ".join(" ".join(_w(x) for x in q) for q in op[2])]
    if k == "parse":
        return [f"parse {w} " + " ".join(" ".join(_w(x) for x in q) for q in op[2])]
    if k == "addf":
        return [f"addf {w} " + " ".join(_w(x) for x in op[2]) + "".join(" " + " ".join(_w(x) for x in e) for e in op[3])]
    if k == "set":
        return [f"set {w} " + " ".join(_w(x) for x in op[2:6])]
    if k == "isub":
        return [f"isub {w} " + " ".join(" ".join(_w(x) for x in q) for q in op[2])]
    if k == "rmctx":
        return [f"rmctx {w} {op[2]}"]
    if k == "upd":
        sub = op[2]
        if sub == "insert":
            return [f"upd-insert {w} " + " ".join(" ".join(_w(x) for x in q) for q in op[3])]
        if sub == "delete":
            return [f"upd-delete {w} " + " ".join(" ".join(_w(x) for x in q) for q in op[3])]
        if sub == "clear":
            return [f"upd-clear {w} {op[3]}"]
        return [f"upd-delwhere {w} " + " ".join(_w(x) for x in op[3:7])]
    if k == "bind":
        return [f"bind {w} {op[2]} {op[3]} {op[4]}"]
    if k == "pass":
        return [f"pass {w}"]
    return [f"{k} {w}"]


def _read_line(op):
    k = op[0]
    if k == "triples":
        return "triples " + " ".join(_w(x) for x in op[2:6])
    if k == "len":
        return "len " + _w(op[2])
    if k == "tctx":
        return "tctx " + " ".join(str(x) for x in op[2:5])
    return k


def _case_lines(case):
    """[(line, observed?)] of the whole case"""
    nest = case["cfg"] == "nest"
    out = [("reset-nested" if nest else "reset", False)]
    for q in case["init"]:
        out.append(("init " + " ".join(map(str, q)), False))
    for op in case["ops"]:
        if op[0] in READS:
            out.append((_read_line(op), True))
            continue
        out.extend((ln, False) for ln in _op_lines(op))
        out.append(("obs", True))
        if not nest:
            out.append(("obsw", True))
    return out


def model_lines(case):
    return [ln for ln, _ in _case_lines(case)]


def select_model_obs(case, out):
    # keep only the answers to the observed lines
    return [out[i] for i, (_ln, seen) in enumerate(_case_lines(case)) if seen]


def shrink(case):
    ops, init = case["ops"], case["init"]
    for i in range(len(ops)):
        yield {**case, "ops": ops[:i] + ops[i + 1:]}
    for i in range(len(init)):
        yield {**case, "init": init[:i] + init[i + 1:]}
    for i, op in enumerate(ops):
        if op[0] == "addf" and op[3]:
            for j in range(len(op[3])):
                yield {**case, "ops": ops[:i] + [["addf", op[1], op[2], op[3][:j] + op[3][j + 1:]]] + ops[i + 1:]}
    for i, op in enumerate(ops):
        if op[0] in ("addn", "parse", "isub") and len(op[2]) > 1:
            for j in range(len(op[2])):
                yield {**case, "ops": ops[:i] + [[op[0], op[1], op[2][:j] + op[2][j + 1:]]] + ops[i + 1:]}
    if case["two"] and all(o[1] == 0 for o in ops):
        yield {**case, "two": False}


def _m_readd(case, result):
    """remove a present quad, re-add it, rollback (the pre-fix `add` appended *and* cancelled)"""
    kinds = [o[0] for o in case["ops"]]
    return kinds[:3] == ["remove", "add", "rollback"] and any(v.startswith("rollback") for v in result["viol"])


def _m_foreign(case, result):
    """a quad add whose graph is a Graph object of another store, then rollback"""
    return any(o[0] == "addf" for o in case["ops"]) and any(v.startswith("rollback") for v in result["viol"])


def _m_cg_as_graph(case, result):
    """a wildcard remove whose graph is the ConjunctiveGraph itself, then rollback"""
    return (any(o[0] == "remove" and len(o) > 6 and o[6] == "self" and None in o[2:5] for o in case["ops"])
            and any(v.startswith("rollback") for v in result["viol"]))


def _m_triples_graphs(case, result):
    """a write through the graph object of a quad from quads() / triples(), then rollback"""
    return (any(o[0] in ("add", "remove") and len(o) > 6 and o[6] in ("quadctx", "tripctx") for o in case["ops"])
            and any(v.startswith("rollback") for v in result["viol"]))


MATCHERS = {"graph_of_a_quad_bypasses_log": _m_triples_graphs, "conjunctive_graph_as_context": _m_cg_as_graph, "remove_readd_rollback": _m_readd, "foreign_graph_object": _m_foreign}
