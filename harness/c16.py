"""C16 — SPARQL results survive their exchange formats.  DESIGN §6 C16.

Case (JSON-able):
  {"kind": "select", "via": "direct"|"query", "src": "bytes"|"text",
   "vars": ["a", "b"], "rows": [[term|null, ...], ...],          rows aligned to vars
   "tsv": [ [[ [sq, short, [k…]] per cell ] per row ] per choice stream ],
   "hist": [["take", k, "next"|"for"] | ["force", "len"|"bool"|"bindings"], …]   history on the Result object before
           it is serialised (fresh iterator advanced k times / anything reading Result.bindings); with "hist" the SAME
           object is then serialised in every format in a row; "pre": an extra earlier serialisation (format or null),
   "mhist": [["open"] | ["next", i] | ["force", "len"|"bool"|"bindings"|"ser:json"|"ser:xml"|"ser:csv"|"ser:txt"], …]
           (instead of "hist") several iterators alive at once over the one Result, interleaved arbitrarily}
  {"kind": "ask", "via": "direct"|"query", "src": …, "value": true|false}
  term = ["I", iri] | ["B", label] | ["P", lex] | ["T", lex, datatype] | ["L", lex, langtag]

Observations (one line each, compared with the compiled Lean model `drv_c16`):
  json-rt / xml-rt / csv-rt : Result.parse(BytesIO(r.serialize(format=F)), format=F), canonical table
  json-of / xml-of / csv-of : the *implementation's* document, loaded with json / ElementTree / csv,
                              read by the model's ofJson / ofXml / ofCsv      (impl writer -> model reader)
  json-to / xml-to / csv-to : the *model's* tree, dumped with json / a 20-line XML writer / csv,
                              read by rdflib's parser                          (model writer -> impl reader)
  per TSV choice stream     : the harness' W3C reference rendering == Lean `Spec.Tsv.render` (text),
                              rdflib's TSV reader on that text == Lean `readTsv`
Property oracle (independent of Lean, `viol`): the round-tripped table equals the input cell by cell
(JSON, XML); the TSV reader returns exactly the table rendered; CSV keeps the row sequence and the
string value of every bound term.
"""
import csv
import io
import json
import logging
import os
import pathlib
import re
import tempfile
import warnings
import xml.etree.ElementTree as ET
from xml.sax.saxutils import quoteattr as _sax_quoteattr

import core  # noqa: F401
from rdflib import BNode, Graph, Literal, URIRef, Variable
from rdflib.namespace import XSD
from rdflib import plugin as _plugin
from rdflib.query import Result, ResultParser, ResultSerializer

warnings.filterwarnings("ignore")
logging.getLogger("rdflib").setLevel(logging.CRITICAL)
logging.getLogger("rdflib.term").setLevel(logging.CRITICAL)

ID = "C16"
LEAN_TARGETS = ["RV.C16.Props", "RV.C16.Audit"]
AUDIT = "RV/C16/Audit.lean"
DRIVER = "drv_c16"
CASES = {"quick": 2000, "thorough": 30000, "search": 12000}
RULE = ("random result tables (0-4 variables, 0-8 rows, any pattern of unbound cells incl. all-unbound rows and "
        "leading/trailing unbound columns; terms of every kind from a pool with control characters, quotes, "
        "backslashes, tabs, line ends, U+0085/U+2028, non-BMP) built directly as Result objects or by a real "
        "graph.query(), and both ASK answers; serialised and parsed back in JSON, XML, CSV, and rendered as TSV "
        "under 3 choice streams; text level: every string token of the JSON / XML documents and the whole CSV document rdflib writes, "
        "plus foreign and malformed tokens / renderings / texts, through the Lean readers and the real ones; non-trivial = a SELECT table with at least one bound and one unbound cell; "
        "distinct = distinct (vars, rows, choices)")
ASSUMPTIONS = ["terms are fixed points of rdflib's literal normalisation (what rdflib hands out by default, C09)",
               "IRIs, blank node labels, language tags and variable names are syntactically legal (non-empty, "
               "IRIREF / BLANK_NODE_LABEL / LANGTAG / VARNAME); no lone surrogates",
               "since round g the character level is modelled (JSON string escaping / scanning, csv quoting / reader state machine, XML "
               "character-data and attribute-value escaping / reading); document syntax around the strings (JSON punctuation, XML markup) and "
               "byte encodings are exercised here but not modelled"]
TRUSTED = ["harness/c16.py generators, canonicalisation and reference TSV writer (tied to Lean Spec.Tsv.render on "
           "every case)", "lean/RV/C16/Drive.lean line protocol",
           "Python json / csv / xml.etree / expat around and below the modelled string level (JSON punctuation, XML markup, byte encodings)",
           "the harness' tokenisers of JSON and XML documents (regex; a mis-tokenisation shows as a divergence, never hides one)"]

SPARQL_NS = "http://www.w3.org/2005/sparql-results#"
XML_NS = "http://www.w3.org/XML/1998/namespace"
XSDS = str(XSD)

# ------------------------------------------------------------------ table regenerated from the source (DESIGN §2.4)

def TABLES():
    """lean/RV/C16/Tables.lean: `compat._string_escape_map`, the table `decodeUnicodeEscape` decodes ECHARs with.
    Props.lean proves on every run that the model's `unescChar` is exactly this table."""
    from rdflib.compat import _string_escape_map
    items = sorted(_string_escape_map.items())
    if not items or any(len(k) != 1 or len(v) != 1 for k, v in items):
        raise ValueError("compat._string_escape_map is no longer a char -> char table")
    body = ",\n   ".join("(Char.ofNat %d, Char.ofNat %d)" % (ord(k), ord(v)) for k, v in items)
    return ("/- GENERATED by harness/c16.py TABLES() from rdflib.compat._string_escape_map on every run. Do not edit. -/\n"
            "namespace RV.C16.Tables\n\n"
            "/-- (character after the backslash, character it stands for) -/\n"
            "def stringEscapeMap : List (Char × Char) :=\n  [" + body + "]\n\n"
            "end RV.C16.Tables\n")


# ------------------------------------------------------------------ pools

SPECIAL = ["\t", "\n", "\r", "\r\n", '"', "'", "\\", "\x08", "\x0c", "\x0b", "\x00", "\x01", "\x1c", "\x1f", "\x7f",
           "\x85", " ", " ", " ", "é", "\U0001F600", "\U00010000", "�", "￾", "￿",
           " ", ",", ";", "<", ">", "&", "]]>", "@", "^", "#", "?", "_:", "\\n", "\\\\", "\\\"", "%", "|", "{", "}"]
BACKSLASHED = ["\\u00e9", "\\u00E9t", "\\U0001F600", "\\n", "\\t", "\\r", "\\\"", "\\'", "\\\\u0041", "\\u0022", "\\u005C",
               "\\u12", "\\U0001", "C:\\temp\\u00e9t", "\\\\", "\\b", "\\f", "\\x41"]
# Latin-1 supplement (also text that is well-formed UTF-8 when written as Latin-1), cp1252-only, beyond both, astral
ENCODING_PROBES = ["café", "Ã©", "ü", "ÿ", "Â ", "Ã¼ber", "\x80\x9f", "€", "€ 5", "Ω", "œ", "\u20ac\u2122", "\U0001F600", "日本"]
PLAIN = ["a", "b", "xyz", "0", "12", "-1.5", "true", "http://x", "https://e/y", "_:b", "@en", "^^<x>", "null", "é"]
LEX_FIXED = ["", " ", "a b", " lead", "trail ", "a\tb\nc\rd", "\r\n", "line1\nline2", '"', "''", '"\'"', "\\",
             "\\t", 'say "hi"', "it's", "a,b", '"a",b', "<&>", "]]>", "\x00", "\x01x", "\x08\x0c", "\x0bv",
             "\x1cfs", "nel\x85", "ls ps ", "\U0001F600", "é\U00010000", "￾", "￿", "_:x",
             "http://looks/like/iri", "true", "12", "-3", "+3", "1.5", "1e5", "?a", "\t", "\n", "\r"]
IRIS = ["http://e/%3C%7B%22%7C%5E%60%5C%20", "http://e/a%C3%A9?q=%26", "http://e/ü/Ã©", "http://e/€", "http://e/a", "http://e/é", "urn:x:1", "https://e/?q=1&r=2#f", "http://e/\U0001F600", "mailto:a@b",
        "http://e/a'b", "http://e/%20", "http://e/a,b", "x:y", "http://e/a;b=(1)", "tag:e,2020:x"]
LABELS = ["a.b.c", "0", "_", "a-", "a·b", "a‿b", "Z9-_.x", "b1", "N1234abcd", "b.1", "1b", "a-b", "é", "x_y", "b0", "genid5"]
DTYPES = ["http://e/dt?x=1&y='z'#é(1)", "http://e/dt%20x;p=1,2", "urn:dt:a*b+c$d!e~f", XSDS + "string", "http://e/dt", "http://e/dt#é", XSDS + "token2", "urn:dt:1"]
LANGS = ["en", "EN-us", "de-CH-1996", "x-a", "fr"]
NUMERIC = [(XSDS + "integer", ["0", "5", "-5", "12", "123456789012345678901234567890", "-7"]),
           (XSDS + "decimal", ["1.5", "-1.5", "0.0", "10.25", "-0.5", "3.0"]),
           (XSDS + "double", ["1e-07", "1e+16", "-2.5e-09", "1.5e+300"]),
           (XSDS + "boolean", ["true", "false"]),
           (XSDS + "integer", ["abc", "1 2", ""]),  # ill-typed lexical forms are kept as they are
           (XSDS + "double", ["1.0", "-0.5", "100000.0"])]  # not DOUBLE tokens: no bare form possible
VARNAMES = ["a", "b", "c", "x1", "_v", "A", "ab", "é", "s", "p", "o", "v2"]


def mk_term(t):
    if t is None:
        return None
    k = t[0]
    if k == "I":
        return URIRef(t[1])
    if k == "B":
        return BNode(t[1])
    if k == "P":
        return Literal(t[1])
    if k == "T":
        return Literal(t[1], datatype=URIRef(t[2]))
    if k == "L":
        return Literal(t[1], lang=t[2])
    raise ValueError(t)


def un_term(x):
    if x is None:
        return None
    if isinstance(x, URIRef):
        return ["I", str(x)]
    if isinstance(x, BNode):
        return ["B", str(x)]
    if isinstance(x, Literal):
        if x.language is not None:
            return ["L", str(x), x.language]
        if x.datatype is not None:
            return ["T", str(x), str(x.datatype)]
        return ["P", str(x)]
    return ["?", repr(x)]


def _stable(t):
    """a term rdflib represents exactly (fixed point of literal normalisation)"""
    try:
        return un_term(mk_term(t)) == t
    except Exception:
        return False


def rand_lex(rng):
    r = rng.random()
    if r < 0.35:
        return rng.choice(LEX_FIXED)
    if r < 0.45:
        return rng.choice(BACKSLASHED) + (rng.choice(PLAIN + SPECIAL) if rng.random() < 0.5 else "")
    if r < 0.55:
        return rng.choice(ENCODING_PROBES) + (rng.choice(PLAIN + SPECIAL + ENCODING_PROBES) if rng.random() < 0.5 else "")
    n = rng.choice([1, 1, 2, 3, 4, 6])
    return "".join(rng.choice(BACKSLASHED) if (x := rng.random()) < 0.12 else rng.choice(SPECIAL) if x < 0.62
                   else rng.choice(PLAIN) for _ in range(n))


def rand_term(rng):
    for _ in range(20):
        r = rng.random()
        if r < 0.14:
            t = ["I", rng.choice(IRIS)]
        elif r < 0.26:
            t = ["B", rng.choice(LABELS)]
        elif r < 0.52:
            t = ["P", rand_lex(rng)]
        elif r < 0.66:
            t = ["L", rand_lex(rng), rng.choice(LANGS)]
        elif r < 0.82:
            t = ["T", rand_lex(rng), rng.choice(DTYPES)]
        else:
            dt, lexes = rng.choice(NUMERIC)
            t = ["T", rng.choice(lexes), dt]
        if _stable(t):
            return t
    return ["P", "x"]


def rand_choices(rng, rows, mode):
    out = []
    for row in rows:
        cr = []
        for t in row:
            if mode == 0 or t is None:
                cr.append([0, 0, []])
                continue
            lex = t[1] if t[0] in "PTL" else ""
            if mode == 1:
                ks = []
            else:
                pu = rng.choice([0.0, 0.0, 0.15, 0.5, 1.0])
                ps = rng.choice([0.0, 0.5, 1.0])  # UCHAR for quote, backslash, control characters
                ks = [(rng.choice([2, 3]) if rng.random() < (ps if (c in "\"'\\" or ord(c) < 32) else pu)
                       else rng.randint(0, 1)) for c in lex]
                while ks and ks[-1] == 0:
                    ks.pop()
            cr.append([rng.randint(0, 1), 1 if mode == 1 or rng.random() < 0.6 else 0, ks])
        out.append(cr)
    return out


def gen_case(rng, tier, i):
    wide = 2.5 if tier == "thorough" else 1.0       # the rarer values of each axis get a larger share in thorough
    r0 = rng.random()
    via = "query" if r0 < 0.25 else "gen" if r0 < 0.25 + 0.05 * wide else "direct"
    src = rng.choice(["binfile", "textfile"]) if rng.random() < 0.06 * wide else ("bytes" if rng.random() < 0.7 else "text")
    dest = (rng.choice(["path", "fileuri", "binfile", "textfile"]) if rng.random() < 0.06 * wide
            else "stream" if rng.random() < 0.25 else "bytes")
    axes = {"fmtname": "mime" if rng.random() < 0.06 * wide else "name",
            "how": rng.choice(["mime", "ctype", "ctype+charset", "default"]) if rng.random() < 0.08 * wide else "format",
            "hops": 2 if rng.random() < 0.08 * wide else 1, "hop2": rng.choice(["json", "xml", "same"]),
            "plugin": rng.random() < 0.04 * wide, "rowapi": rng.random() < 0.3}
    enc = rng.choice(["utf-8", "utf-8", "utf-8", "iso-8859-1", "cp1252", "ascii", "utf-16"])
    if rng.random() < 0.04:
        return {"kind": "ask", "via": "direct" if via == "gen" else via, "src": src, "dest": dest, "enc": enc, **axes,
                "rowapi": False, "value": rng.random() < 0.5}
    nv = rng.choice([0, 1, 1, 2, 2, 2, 3, 3, 4])
    nr = rng.choice([0, 1, 1, 2, 2, 3, 3, 4, 5, 6, 8])
    vars_ = rng.sample(VARNAMES, nv)
    p_unbound = rng.choice([0.0, 0.1, 0.2, 0.35, 0.35, 0.6, 0.6, 1.0])
    small_pool = [rand_term(rng) for _ in range(rng.choice([1, 2, 4, 8]))]  # repeated terms within a table
    rows = []
    for _ in range(nr):
        rows.append([None if rng.random() < p_unbound else
                     (rng.choice(small_pool) if rng.random() < 0.5 else rand_term(rng)) for _ in range(nv)])
    shape = rng.random()
    if rows and nv:
        if shape < 0.15:
            rows[rng.randrange(nr)] = [None] * nv                      # an all-unbound row
        elif shape < 0.25:
            for r in rows:
                r[-1] = None                                           # trailing unbound column
        elif shape < 0.33:
            for r in rows:
                r[0] = None                                            # leading unbound column
        elif shape < 0.38:
            rows[-1] = [None] * nv                                     # last row empty
        elif shape < 0.43:
            rows[0] = [None] * nv
        elif shape < 0.50:
            rows.append(list(rows[rng.randrange(len(rows))]))          # a duplicate row
            rows.insert(0, list(rows[-1]))
        elif shape < 0.55:
            j = rng.randrange(nv)
            for r in rows:
                r[j] = None                                            # a variable that is never bound
    nr = len(rows)
    if nv == 0 and via == "query":
        via = "direct"
    tsv = [rand_choices(rng, rows, 0), rand_choices(rng, rows, 1), rand_choices(rng, rows, 2)]
    case = {"kind": "select", "via": via, "src": src, "dest": dest, "enc": enc, **axes, "vars": vars_, "rows": rows, "tsv": tsv}
    # a history on the Result object before it is serialised (the same object then goes through every format)
    hist = []
    if rng.random() < (0.85 if via in ("query", "gen") else 0.4):
        for _ in range(rng.choice([1, 1, 2, 3, 4])):
            r = rng.random()
            if r < 0.6:
                hist.append(["take", rng.choice([0, 1, 1, 1, 2, 2, 3, nr, nr + 1]), rng.choice(["next", "for"])])
            else:
                hist.append(["force", rng.choice(["len", "bool", "bindings"])])
    case["hist"] = hist
    if nv and rng.random() < (0.5 if via in ("query", "gen") else 0.15):
        # several iterators alive at once over the one Result, interleaved with reads of Result.bindings
        mh, nit = [["open"]], 1
        for _ in range(rng.choice([2, 3, 4, 6, 8, 12])):
            r = rng.random()
            if r < 0.15 and nit < 4:
                mh.append(["open"])
                nit += 1
            elif r < 0.85:
                mh.append(["next", rng.randrange(nit)])
            else:
                mh.append(["force", rng.choice(["len", "bool", "bindings", "ser:json", "ser:xml", "ser:csv", "ser:txt"])])
        case["hist"] = []
        case["mhist"] = mh
    case["pre"] = rng.choice([None, None, "json", "xml", "csv"])   # an extra serialisation before the observed ones
    case["jx"] = rand_json_tokens(rng, case_strings(case))         # foreign / malformed JSON string tokens for the reader
    pq = rng.choice([0.0, 0.3, 1.0])                                # CSV reference writer: quote without need, LF line ends
    case["cq"] = [int(rng.random() < 0.4), [[int(rng.random() < pq) for _ in range(nv)] for _ in range(len(rows) + 1)]]
    case["cx"] = rand_csv_texts(rng)                               # arbitrary short texts for the CSV reader
    case["xx"] = rand_xml_tokens(rng, case_strings(case))          # foreign / malformed XML character data and attribute values
    case["jd"] = [rng.randrange(6), rng.randint(0, 1), rng.choice([0, 0, 1, 1, 7, 7, 2, 3, 4, 5, 6])]   # foreign JSON document layout / damage
    if rng.random() < 0.6:                                          # destination kind of Result.serialize, every kind with real weight
        case["dest"] = rng.choice(DEST_KINDS[1:])
    return case


# ------------------------------------------------------------------ building results

_Q_CACHE = {}


def build_result(case, via=None):
    via = via or case["via"]
    if case["kind"] == "ask":
        if via == "direct":
            r = Result("ASK")
            r.askAnswer = bool(case["value"])
            return r
        g = Graph()
        if case["value"]:
            g.add((URIRef("urn:s"), URIRef("urn:p"), Literal("o")))
        return g.query("ASK { ?s ?p ?o }")
    vars_ = [Variable(v) for v in case["vars"]]
    if via in ("direct", "gen") or not vars_:
        r = Result("SELECT")
        r.vars = vars_
        dicts = [{v: mk_term(t) for v, t in zip(vars_, row) if t is not None} for row in case["rows"]]
        # "gen": a hand-built result whose bindings are handed over as a generator (kept lazily, like a query's)
        r.bindings = (d for d in dicts) if via == "gen" else dicts
        return r
    g = Graph()
    idx = URIRef("urn:c16:i")
    for i, row in enumerate(case["rows"]):
        rn = BNode("c16row%d" % i)
        g.add((rn, idx, Literal(i)))
        for j, t in enumerate(row):
            if t is not None:
                g.add((rn, URIRef("urn:c16:c%d" % j), mk_term(t)))
    q = "SELECT %s WHERE { ?c16r <urn:c16:i> ?c16i . %s } ORDER BY ?c16i" % (
        " ".join("?" + v for v in case["vars"]),
        " ".join("OPTIONAL { ?c16r <urn:c16:c%d> ?%s }" % (j, v) for j, v in enumerate(case["vars"])))
    return g.query(q)  # lazily evaluated: res._genbindings is the evaluator's generator


# ------------------------------------------------------------------ canonical forms (shared with Drive.lean)

def enc_str(s):
    return "-" if s == "" else ".".join(str(ord(c)) for c in s)


def dec_str(w):
    return "" if w == "-" else "".join(chr(int(x)) for x in w.split("."))


def enc_cell(t):
    if t is None:
        return "U"
    return ":".join([t[0]] + [enc_str(x) for x in t[1:]])


def enc_table(vars_, rows):
    out = ["S", str(len(vars_))] + [enc_str(v) for v in vars_] + [str(len(rows))]
    for r in rows:
        out += [enc_cell(t) for t in r]
    return " ".join(out)


def enc_case_result(case):
    if case["kind"] == "ask":
        return "A 1" if case["value"] else "A 0"
    return enc_table(case["vars"], case["rows"])


ERRMAP = {"JSONDecodeError": "ValueError", "ParseException": "ParseError", "ParseError": "ParseError", "ExpatError": "ParseError",
          "KeyError": "KeyError", "TypeError": "TypeError", "ValueError": "ValueError",
          "NotImplementedError": "NotImplementedError", "ResultException": "ResultException",
          "IndexError": "IndexError", "AttributeError": "AttributeError"}


def err_name(e):
    return "err:" + ERRMAP.get(type(e).__name__, "Other")


def table_of(res):
    """(vars, aligned rows as term lists, number of bindings for variables outside vars)"""
    vars_ = list(res.vars)
    rows, extra = [], 0
    for b in res.bindings:
        rows.append([un_term(b.get(v)) for v in vars_])
        extra += sum(1 for k in b if k not in vars_)
    return [str(v) for v in vars_], rows, extra


def canon(res):
    if res.type == "ASK":
        return "ok A 1" if res.askAnswer is True else "ok A 0" if res.askAnswer is False else "ok A ?"
    vars_, rows, _extra = table_of(res)
    return "ok " + enc_table(vars_, rows)


def open_src(data: bytes, src):
    return io.BytesIO(data) if src == "bytes" else io.StringIO(data.decode("utf-8"), newline="")


def parse_canon(data: bytes, fmt, src):
    try:
        return canon(Result.parse(open_src(data, src), format=fmt))
    except Exception as e:  # noqa: BLE001
        return err_name(e)


# ------------------------------------------------------------------ trees <-> tokens

def json_tokens(x):
    if x is None:
        return ["n"]
    if x is True:
        return ["t"]
    if x is False:
        return ["f"]
    if isinstance(x, str):
        return ["s:" + enc_str(x)]
    if isinstance(x, (int, float)):
        return ["d"]
    if isinstance(x, list):
        out = ["a:%d" % len(x)]
        for y in x:
            out += json_tokens(y)
        return out
    if isinstance(x, dict):
        out = ["o:%d" % len(x)]
        for k, v in x.items():
            out += [enc_str(str(k))] + json_tokens(v)
        return out
    raise TypeError(x)


def json_untokens(ws, i=0):
    w = ws[i]
    if w == "n":
        return None, i + 1
    if w == "t":
        return True, i + 1
    if w == "f":
        return False, i + 1
    if w == "d":
        return 0, i + 1
    k, _, rest = w.partition(":")
    if k == "s":
        return dec_str(rest), i + 1
    if k == "a":
        xs, i = [], i + 1
        for _ in range(int(rest)):
            x, i = json_untokens(ws, i)
            xs.append(x)
        return xs, i
    if k == "o":
        d, i = {}, i + 1
        for _ in range(int(rest)):
            key = dec_str(ws[i])
            v, i = json_untokens(ws, i + 1)
            d[key] = v
        return d, i
    raise ValueError(w)


def _tagname(tag):
    return tag[len(SPARQL_NS) + 2:] if tag.startswith("{%s}" % SPARQL_NS) else "!" + tag


def _attrname(a):
    if a == "{%s}lang" % XML_NS:
        return "xml:lang"
    return "!" + a if a.startswith("{") else a


def xml_tokens(el):
    kids = list(el)
    out = [":".join(["e", enc_str(_tagname(el.tag)), str(len(el.attrib)), str(len(kids)), enc_str(el.text or "")])]
    for a, v in el.attrib.items():
        out += [enc_str(_attrname(a)), enc_str(v)]
    for k in kids:
        out += xml_tokens(k)
    return out


def _esc_text(s):
    return s.replace("&", "&amp;").replace("<", "&lt;").replace(">", "&gt;").replace("\r", "&#13;")


def _esc_attr(s):
    return (_esc_text(s).replace('"', "&quot;").replace("\t", "&#9;").replace("\n", "&#10;"))


def xml_untokens(ws, i=0, root=True):
    """model tree tokens -> XML text (a deliberately plain writer, independent of rdflib's)"""
    _e, tag, na, nk, text = ws[i].split(":")
    tag, na, nk, text = dec_str(tag), int(na), int(nk), dec_str(text)
    i += 1
    attrs = []
    for _ in range(na):
        attrs.append((dec_str(ws[i]), dec_str(ws[i + 1])))
        i += 2
    s = "<" + tag + (' xmlns="%s"' % SPARQL_NS if root else "")
    s += "".join(' %s="%s"' % (a, _esc_attr(v)) for a, v in attrs) + ">" + _esc_text(text)
    for _ in range(nk):
        k, i = xml_untokens(ws, i, False)
        s += k
    return s + "</" + tag + ">", i


def table_tokens(t):
    out = [str(len(t))]
    for r in t:
        out += [str(len(r))] + [enc_str(f) for f in r]
    return " ".join(out)


def table_untokens(line):
    ws = line.split(" ")
    n, i, t = int(ws[0]), 1, []
    for _ in range(n):
        m = int(ws[i])
        t.append([dec_str(w) for w in ws[i + 1:i + 1 + m]])
        i += 1 + m
    return t


# ------------------------------------------------------------------ W3C reference TSV writer (mirror of Spec.Tsv.render)

def _is_int(u):
    return u != "" and all(c in "0123456789" for c in u)


def _is_dec(u):
    p = u.split(".")
    return len(p) == 2 and all(c in "0123456789" for c in p[0]) and _is_int(p[1])


def _is_dbl(u):
    k = next((j for j, c in enumerate(u) if c in "eE"), None)
    if k is None:
        return False
    m, e = u[:k], u[k + 1:]
    if e[:1] in ("+", "-"):
        e = e[1:]
    if not _is_int(e):
        return False
    p = m.split(".")
    if len(p) == 1:
        return _is_int(p[0])
    if len(p) == 2:
        return (_is_int(p[0]) and all(c in "0123456789" for c in p[1])) or (p[0] == "" and _is_int(p[1]))
    return False


def short_ok(lex, dt):
    if dt == XSDS + "boolean":
        return lex in ("true", "false")
    if lex.startswith("+"):
        return False
    u = lex[1:] if lex.startswith("-") else lex
    return ((dt == XSDS + "integer" and _is_int(u)) or (dt == XSDS + "decimal" and _is_dec(u))
            or (dt == XSDS + "double" and _is_dbl(u)))


def _uchar(c, lower):
    o = ord(c)
    h = ("\\u%04X" % o) if o < 0x10000 else ("\\U%08X" % o)
    return h[:2] + h[2:].lower() if lower else h


def tsv_quoted(lex, sq, ks):
    """k per character: 2 / 3 = UCHAR (upper / lower case hex) for *any* character — quote, backslash and control
    characters included; otherwise the quote itself, backslash, tab, LF, CR as ECHAR and, for backspace, form feed
    and the other quote character, 0 = raw, 1 = ECHAR"""
    q = "'" if sq else '"'
    other = '"' if sq else "'"
    out = [q]
    for j, c in enumerate(lex):
        k = ks[j] if j < len(ks) else 0
        if k >= 2:
            out.append(_uchar(c, k == 3))
        elif c == q:
            out.append("\\" + q)
        elif c == "\\":
            out.append("\\\\")
        elif c == "\t":
            out.append("\\t")
        elif c == "\n":
            out.append("\\n")
        elif c == "\r":
            out.append("\\r")
        elif c == "\x08" and k == 1:
            out.append("\\b")
        elif c == "\x0c" and k == 1:
            out.append("\\f")
        elif c == other and k == 1:
            out.append("\\" + other)
        else:
            out.append(c)
    out.append(q)
    return "".join(out)


def tsv_cell(t, ch):
    if t is None:
        return ""
    sq, short, ks = ch
    k = t[0]
    if k == "I":
        return "<" + t[1] + ">"
    if k == "B":
        return "_:" + t[1]
    if k == "P":
        return tsv_quoted(t[1], sq, ks)
    if k == "L":
        return tsv_quoted(t[1], sq, ks) + "@" + t[2]
    if short and short_ok(t[1], t[2]):
        return t[1]
    return tsv_quoted(t[1], sq, ks) + "^^<" + t[2] + ">"


def tsv_render(vars_, rows, chs):
    lines = ["\t".join("?" + v for v in vars_)]
    for r, cr in zip(rows, chs):
        lines.append("\t".join(tsv_cell(t, c) for t, c in zip(r, cr)))
    return "".join(l + "\n" for l in lines)


def enc_choices(chs):
    return " ".join("%d:%d:%s" % (c[0], c[1], ".".join(map(str, c[2])) if c[2] else "-") for cr in chs for c in cr)


# ------------------------------------------------------------------ text level (round g): JSON string tokens

_JSTR = re.compile(r'"(?:[^"\\]|\\.)*"', re.S)


def json_raw_tokens(text):
    """the string tokens of a JSON document as they are spelled, quotes included, in document order"""
    return _JSTR.findall(text)


def json_walk_strings(x, out=None):
    """the strings `json.loads` built — keys and values — in document order"""
    out = [] if out is None else out
    if isinstance(x, str):
        out.append(x)
    elif isinstance(x, list):
        for y in x:
            json_walk_strings(y, out)
    elif isinstance(x, dict):
        for k, v in x.items():
            out.append(k)
            json_walk_strings(v, out)
    return out


_JSHORT = {"\\": "\\\\", '"': '\\"', "\b": "\\b", "\f": "\\f", "\n": "\\n", "\r": "\\r", "\t": "\\t"}


def _ju(c, lower):
    o = ord(c)
    f = (lambda n: "\\u%04x" % n) if lower else (lambda n: "\\u%04X" % n)
    if o < 0x10000:
        return f(o)
    o -= 0x10000
    return f(0xD800 | (o >> 10)) + f(0xDC00 | (o & 0x3FF))


def jspell_char(k, c):
    """mirror of Lean `jsonSpellChar` (tied to it by the `jtext-spell` line of every case)"""
    if k >= 2:
        return _ju(c, k == 2)
    if k == 1 and c == "/":
        return "\\/"
    if c in _JSHORT:
        return _JSHORT[c]
    return "\\u%04x" % ord(c) if ord(c) < 0x20 else c


def derive_jchoices(tok, s):
    """the per-character choices under which the reference writer spells `s` as `tok` (None: no such choices)"""
    body, pos, ks = tok[1:-1], 0, []
    for c in s:
        for k in (0, 1, 2, 3):
            sp = jspell_char(k, c)
            if body.startswith(sp, pos):
                ks.append(k)
                pos += len(sp)
                break
        else:
            return None
    return ks if pos == len(body) and tok[:1] == '"' and tok[-1:] == '"' else None


def py_loads_token(tok):
    """Python's reader on one string token, in the driver's answer format"""
    try:
        x = json.loads(tok)
    except ValueError:
        return "err:ValueError"
    if not isinstance(x, str):
        return "err:Other"
    if any(0xD800 <= ord(c) <= 0xDFFF for c in x):
        return "err:Unmodelled"
    return "ok:" + enc_str(x)


def case_strings(case):
    """every string of the table: variable names, lexical forms / IRIs / labels, datatypes, language tags"""
    if case["kind"] != "select":
        return []
    return list(case["vars"]) + [x for r in case["rows"] for t in r if t for x in t[1:]]


def rand_json_tokens(rng, strings):
    """foreign spellings of the table's strings (any RFC 8259 choice per character, mixed-case hex) and, for a third
    of them, malformed tokens: truncated escapes, raw control characters, unknown escapes, lone / reversed surrogates"""
    out = []
    for _ in range(rng.choice([0, 1, 2, 3])):
        s = rng.choice(strings) if strings and rng.random() < 0.7 else rng.choice(SPECIAL + PLAIN + ENCODING_PROBES + ["/", "a/b"])
        mode = rng.choice([0, 1, 2, 3, 4, 4, 4])
        body = "".join(jspell_char(rng.randint(0, 3) if mode == 4 else mode, c) for c in s)
        r = rng.random()
        if r < 0.10:
            body = re.sub(r"\\u([0-9a-fA-F]{4})", lambda m: "\\u" + "".join(rng.choice([ch.lower(), ch.upper()]) for ch in m.group(1)), body)
        elif r < 0.40:
            j = rng.randint(0, len(body))
            body = body[:j] + rng.choice(["\\ud83d", "\\ude00", "\\ude00\\ud83d", "\\ud83d\\u0041", "\\ud83d\\u12", "\\x41", "\\u12", "\\u00g1",
                                          "\\", "\x01", "\n", "\\ud83d\\", "\\uD83D\\uDE00", "\\ud83dx", '"', "\\U0001F600", "\\a", "\\u+123",
                                          "\\udbff\\udfff", "\\ud800\\udc00", "\\ud7ff", "\\ue000", "\x7f", "\x1f"]) + body[j:]
        elif r < 0.45 and body:
            body = body[:rng.randrange(len(body))]
        out.append('"' + body + '"')
    return out


def csv_field_table(case):
    """the field table rdflib's CSV writer hands to `csv.writer`: header, then one field per cell"""
    return [list(case["vars"])] + [["" if t is None else ("_:" + t[1] if t[0] == "B" else t[1]) for t in r] for r in case["rows"]]


def csv_render(table, qss, lf):
    """mirror of Lean `csvRender` (RFC 4180 reference writer: fields quoted without need, LF or CR LF), tied to it by the
    `ctext-render` line"""
    out = []
    for i, row in enumerate(table):
        if row == [""]:
            s = '""'
        else:
            s = ",".join(('"' + f.replace('"', '""') + '"') if ((qss[i][j] if i < len(qss) and j < len(qss[i]) else 0)
                                                                 or any(c in ',"\r\n' for c in f)) else f
                         for j, f in enumerate(row))
        out.append(s + ("\n" if lf else "\r\n"))
    return "".join(out)


def py_csv_parse(text):
    try:
        return "ok " + table_tokens(list(csv.reader(io.StringIO(text, newline=""), delimiter=",")))
    except Exception as e:  # noqa: BLE001
        return err_name(e)


def rand_csv_texts(rng):
    """short arbitrary texts for the reader's state machine: stray quotes, bare CR, text after a closing quote, no final line end"""
    out = []
    for _ in range(rng.choice([0, 1, 1, 2])):
        out.append("".join(rng.choice(['a', 'b', '"', '"', ',', ',', '\r', '\n', '\r\n', ' ', 'é', '""'])
                           for _ in range(rng.choice([0, 1, 2, 3, 4, 6, 8, 12]))))
    return out


_XTAG = re.compile(r"<([^<>]*)>([^<]*)")
_XATTRTOK = re.compile(r"""\s([A-Za-z_][\w:.-]*)=("[^"]*"|'[^']*')""")
_TERM_TAGS = ("uri", "bnode", "literal", "boolean")


def xml_raw_tokens(doc):
    """(attribute values as spelled, quotes included; character data of term elements as spelled), document order"""
    body = doc[doc.index("?>") + 2:] if doc.startswith("<?xml") else doc
    attrs, texts = [], []
    for m in _XTAG.finditer(body):
        tag, text = m.group(1), m.group(2)
        if tag[:1] in ("/", "?", "!"):
            continue
        attrs += [a.group(2) for a in _XATTRTOK.finditer(tag) if not a.group(1).startswith("xmlns")]
        if re.split(r"[\s/]", tag, 1)[0] in _TERM_TAGS:
            texts.append(text)
    return attrs, texts


def xml_decoded(doc_bytes):
    """the same strings as ElementTree / expat deliver them"""
    root = ET.fromstring(doc_bytes)
    attrs = [v for el in root.iter() for v in el.attrib.values()]
    texts = [el.text or "" for el in root.iter() if _tagname(el.tag) in _TERM_TAGS]
    return attrs, texts


def xml_doc_strings(case):
    """(attribute strings, text strings) of the table in the order a SPARQL XML document holds them"""
    attrs, texts = list(case["vars"]), []
    for row in case["rows"]:
        for v, t in zip(case["vars"], row):
            if t is not None:
                attrs.append(v)
                if t[0] in "TL":
                    attrs.append(t[2])
                texts.append(t[1])
    return attrs, texts


def xml_assemble(case, attrs, texts):
    """a SPARQL XML document whose every attribute value and character data is spelled by the Lean writer model"""
    ai, ti = iter(attrs), iter(texts)
    out = ['<?xml version="1.0" encoding="utf-8"?>\n<sparql xmlns="%s" xmlns:xml="%s"><head>' % (SPARQL_NS, XML_NS)]
    for _v in case["vars"]:
        out.append("<variable name=%s></variable>" % next(ai))
    out.append("</head><results>")
    for row in case["rows"]:
        out.append("<result>")
        for _v, t in zip(case["vars"], row):
            if t is None:
                continue
            out.append("<binding name=%s>" % next(ai))
            if t[0] == "I":
                out.append("<uri>%s</uri>" % next(ti))
            elif t[0] == "B":
                out.append("<bnode>%s</bnode>" % next(ti))
            elif t[0] == "P":
                out.append("<literal>%s</literal>" % next(ti))
            elif t[0] == "T":
                out.append("<literal datatype=%s>%s</literal>" % (next(ai), next(ti)))
            else:
                out.append("<literal xml:lang=%s>%s</literal>" % (next(ai), next(ti)))
            out.append("</binding>")
        out.append("</result>")
    out.append("</results></sparql>")
    return "".join(out)


def py_xml_token(kind, raw):
    """expat / ElementTree on one spelled token: character data of an element ('t') or a quoted attribute value ('a')"""
    doc = ("<a>%s</a>" % raw) if kind == "t" else ("<a b=%s/>" % raw)
    try:
        el = ET.fromstring(doc.encode("utf-8"))
    except ET.ParseError:
        return "err:ParseError"
    except Exception as e:  # noqa: BLE001
        return err_name(e)
    if kind == "t":
        return "ok:" + enc_str(el.text or "") if len(el) == 0 else "err:Other"
    return "ok:" + enc_str(el.get("b")) if set(el.attrib) == {"b"} else "err:Other"


_XNAMED = {"&": "&amp;", "<": "&lt;", ">": "&gt;", '"': "&quot;", "'": "&apos;"}
_XBAD = ["&bogus;", "&#0;", "&#xD800;", "&#xFFFE;", "]]>", "&", "&#;", "&#x;", "&#X41;", "&#1a;", "&amp", "\r", "\r\n", "\n", "\t",
         "&#x1F600;", "&#128512;", "&#13;", "&#10;", "&#13;\n", "]]", "]]&gt;", "]>", "]]]>", "&#1114112;", "\x01", "\ufffe", "&#x1f;", "&#9;", "&apos;", "&quot;",
         ";", "&#xd;", "&#x00041;", "&#00065;", "&lt;&gt;", "\x7f", "\x85", "\u2028"]


def rand_xml_tokens(rng, strings):
    """foreign spellings of the table's strings (raw / named / decimal / hexadecimal references per character) and malformed
    tokens, as character data ('t') or attribute value ('a')"""
    out = []
    for _ in range(rng.choice([0, 1, 2, 3])):
        kind = rng.choice("ta")
        s = rng.choice(strings) if strings and rng.random() < 0.7 else rng.choice(SPECIAL + PLAIN + ENCODING_PROBES)
        s = "".join(c for c in s if not 0xD800 <= ord(c) <= 0xDFFF)
        q = rng.choice("\"'")
        parts = []
        for c in s:
            k = rng.choice([0, 0, 0, 1, 2, 3])
            if k == 0 and not (c == "<" or c == "&" or (kind == "a" and c == q)):
                parts.append(c)
            elif k <= 1 and c in _XNAMED:
                parts.append(_XNAMED[c])
            elif k == 3:
                parts.append("&#x%s;" % (("%x" if rng.random() < 0.5 else "%X") % ord(c)))
            else:
                parts.append("&#%d;" % ord(c))
        if rng.random() < 0.4:
            j = rng.randint(0, len(parts))
            parts[j:j] = [rng.choice(_XBAD + (["<"] if kind == "a" else []))]
        body = "".join(parts)
        out.append([kind, body if kind == "t" else q + body + q])
    return out


def json_foreign_doc(obj, jd):
    """the tree of rdflib's document in another legal layout (indentation, separators, `ensure_ascii`, white space around),
    then possibly damaged: `jd` = [layout, ascii, damage]"""
    layout, asc, damage = jd
    kw = [{}, {"separators": (",", ":")}, {"indent": 2}, {"indent": "\t"}, {"separators": (" ,\n", " :\r\n ")}, {"indent": 0}][layout]
    t = json.dumps(obj, ensure_ascii=bool(asc), **kw)
    if damage == 1:
        t = " \n\t" + t + "\r\n "
    elif damage == 2:
        k = t.rfind("}")
        t = t[:k] + "," + t[k:]                       # trailing comma
    elif damage == 3:
        t = t + " x"                                  # extra data
    elif damage == 4:
        t = t[:-1]                                    # truncated
    elif damage == 5:
        t = t.replace(":", " ", 1)                    # a colon missing
    elif damage == 6:
        t = t.replace("true", "True").replace('"head"', "'head'", 1)
    elif damage == 7:
        t = t.replace("{", "{ ", 1).replace("]", " ]").replace(",", " , ")   # (also inside strings: still a legal document)
    return t


def py_json_parse(text):
    try:
        return "ok " + " ".join(json_tokens(json.loads(text)))
    except ValueError:
        return "err:ValueError"
    except Exception as e:  # noqa: BLE001
        return err_name(e)


def text_level(case, st=None, want_obs=True, viol=None):
    """(driver lines, observations of the implementation) for the text level.  Computed by one function for both sides:
    the driver lines quote rdflib's own document (as `json-of` does), the observations are what Python's reader /
    writer make of it (`want_obs=False`: `model_lines` needs only the driver lines; the readers are not run)."""
    lines, obs = [], []
    st = {} if st is None else st
    strings = case_strings(case)
    dcase = {**case, "plugin": False, "enc": "utf-8"}

    def doc_of(fmt, e="utf-8"):
        """rdflib's document for the table, written to the case's destination kind (bytes as they end up there); it must
        carry the same table as the document `serialize()` returns as bytes"""
        data = _serialize(build_result(case, "direct"), fmt, dcase, e)
        dest = case.get("dest", "bytes")
        if want_obs and dest != "bytes" and e == "utf-8":
            ref = build_result(case, "direct").serialize(format=fmt)
            same = ref == data
            st["destdoc_%s_%s" % (fmt, "identical" if same else "differs")] = 1
            if not same:
                a, b = parse_canon(ref, fmt, "bytes"), parse_canon(data, fmt, "bytes")
                if a != b and viol is not None:
                    viol.append(f"dest: the {fmt} document written to a {dest} destination reads back as {b[:80]!r}, "
                                f"the one returned as bytes as {a[:80]!r}")
        return data

    def ob(f):
        obs.append(f() if want_obs else "")

    def xml_block(doc, enc_name):
        """the two reader lines for one XML document of rdflib's"""
        rattrs, rtexts = xml_raw_tokens(doc.decode(enc_name))
        lines.append(" ".join(["xattr-read"] + [enc_str(x) for x in rattrs]))
        lines.append(" ".join(["xtext-read"] + [enc_str(x) for x in rtexts]))
        if not want_obs:
            obs.extend(["", ""])
            return rattrs, rtexts
        try:
            dattrs, dtexts = xml_decoded(doc)
            obs.append(" ".join(["="] + ["ok:" + enc_str(x) for x in dattrs]))
            obs.append(" ".join(["="] + ["ok:" + enc_str(x) for x in dtexts]))
        except ET.ParseError:
            # the document is not well-formed (C16-K1): token by token, the Lean reader must refuse what expat refuses
            obs.append(" ".join(["="] + [py_xml_token("a", x) for x in rattrs]))
            obs.append(" ".join(["="] + [py_xml_token("t", x) for x in rtexts]))
            st["xtext_docs_not_wellformed"] = st.get("xtext_docs_not_wellformed", 0) + (1 if enc_name == "utf-8" else 0)
        return rattrs, rtexts

    try:
        doc = doc_of("json").decode("utf-8")
        toks = json_raw_tokens(doc)
        loaded = json_walk_strings(json.loads(doc))
    except Exception as e:  # noqa: BLE001
        lines += ["const " + err_name(e)] * 2
        obs += [err_name(e)] * 2
    else:
        extra = list(case.get("jx", []))
        # reader: Lean `jsonLoadsStr` on every string token rdflib wrote (+ foreign / malformed tokens) == json.loads
        lines.append(" ".join(["jstr-loads"] + [enc_str(t) for t in toks + extra]))
        ob(lambda: " ".join(["="] + ["ok:" + enc_str(x) for x in loaded] + [py_loads_token(t) for t in extra]))
        # writer: rdflib's spelling of each string is a spelling of the reference writer (choices read off the document)
        chs = [derive_jchoices(t, x) for t, x in zip(toks, loaded)] if len(toks) == len(loaded) else []
        lines.append(" ".join(["jstr-spell"] + [enc_str(x) + "/" + (".".join(map(str, ks)) if ks else "-" if ks is not None else "9")
                                                for x, ks in zip(loaded, chs)]))
        ob(lambda: " ".join(["="] + [enc_str(t) for t in toks]))
        # ---- the JSON document (round h): rdflib's text read by Lean `jsonParse` + `ofJson`; the Lean writer's text read by rdflib;
        #      Lean `jsonWrite` == `json.dumps` on the tree; the same tree in a foreign layout, possibly damaged
        own = parse_canon(doc.encode("utf-8"), "json", "bytes") if want_obs else ""
        obj = json.loads(doc)
        lines.append("jdoc-of " + enc_str(doc))
        obs.append(own)
        lines.append("jdoc-write " + enc_case_result(case))          # completed in select_model_obs
        obs.append(own)
        lines.append("jdoc-dumps " + " ".join(json_tokens(obj)))
        ob(lambda: "= " + enc_str(json.dumps(obj, ensure_ascii=False)))
        if "jd" in case:
            ft = json_foreign_doc(obj, case["jd"])
            lines.append("jdoc-parse " + enc_str(ft))
            ob(lambda: py_json_parse(ft))
            lines.append("jdoc-of " + enc_str(ft))
            ob(lambda: parse_canon(ft.encode("utf-8"), "json", "bytes"))
            if want_obs:
                st["jdoc_foreign"] = 1
                st["jdoc_foreign_damaged"] = int(case["jd"][2] in (2, 3, 4, 5, 6))
                st["jdoc_foreign_rejected"] = int(py_json_parse(ft).startswith("err"))
        if want_obs:
            st["jtext_tokens"] = len(toks)
            st["jtext_doc_minimal_spelling"] = int(all(ks is not None and not any(ks) for ks in chs))
            st["jtext_foreign_tokens"] = len(extra)
            st["jtext_foreign_errors"] = sum(1 for t in extra if py_loads_token(t).startswith("err"))
    # Python's two string encoders on every string of the table
    for a in (0, 1):
        lines.append(" ".join(["jstr-dumps", str(a)] + [enc_str(x) for x in strings]))
        ob(lambda: " ".join(["="] + [enc_str(json.dumps(x, ensure_ascii=bool(a))) for x in strings]))
    if case["kind"] != "select":
        return lines, obs
    # ---- CSV text: rdflib's document read by the Lean reader; the Lean writer's document read by rdflib
    try:
        cdoc = doc_of("csv").decode("utf-8")
    except Exception as e:  # noqa: BLE001
        lines += ["const " + err_name(e)] * 2
        obs += [err_name(e)] * 2
    else:
        own = parse_canon(cdoc.encode("utf-8"), "csv", "bytes") if want_obs else ""
        lines.append("ctext-of " + enc_str(cdoc))
        obs.append(own)
        lines.append("ctext-write " + enc_case_result(case))      # completed in select_model_obs
        obs.append(own)
        st["ctext_quoted_fields"] = int(cdoc.count('"') - 2 * cdoc.count('""') > 0)
    if "cq" in case:
        lf, qss = case["cq"]
        table = csv_field_table(case)
        text = csv_render(table, qss, lf)
        lines.append(" ".join(["ctext-render", str(int(bool(lf))), str(len(table))] + [
            w for i, row in enumerate(table) for w in [str(len(row))] + [
                "%d:%s" % ((qss[i][j] if i < len(qss) and j < len(qss[i]) else 0), enc_str(f)) for j, f in enumerate(row)]]))
        obs.append("= " + enc_str(text))
        lines.append("ctext-of " + enc_str(text))
        ob(lambda: parse_canon(text.encode("utf-8"), "csv", case["src"] if case["src"] in ("bytes", "text") else "bytes"))
        st["ctext_foreign_docs"] = 1
        st["ctext_foreign_lf"] = int(bool(lf))
    for t in case.get("cx", []):
        lines.append("ctext-parse " + enc_str(t))
        ob(lambda: py_csv_parse(t))
        st["ctext_arbitrary_texts"] = st.get("ctext_arbitrary_texts", 0) + 1
    # ---- XML text: the strings of rdflib's document as spelled, read by the Lean reader == as expat delivers them
    wattrs, wtexts = xml_doc_strings(case)
    try:
        xdoc = doc_of("xml")
        xdoc.decode("utf-8")
    except Exception as e:  # noqa: BLE001
        lines += ["const " + err_name(e)] * 4
        obs += [err_name(e)] * 4
    else:
        rattrs, rtexts = xml_block(xdoc, "utf-8")
        st["xtext_tokens"] = len(rattrs) + len(rtexts)
        # writer: a document assembled from the Lean writer's spellings, read by rdflib (completed in select_model_obs)
        lines.append(" ".join(["xdoc-attrs"] + [enc_str(x) for x in wattrs]))
        lines.append(" ".join(["xdoc-texts"] + [enc_str(x) for x in wtexts]))
        obs.append("(see next line)")
        ob(lambda: parse_canon(xdoc, "xml", "bytes"))
    # ---- the same under `encoding="ascii"`: every character the encoding lacks is a decimal character reference
    try:
        adoc = doc_of("xml", "ascii")
        adoc.decode("ascii")
    except Exception as e:  # noqa: BLE001
        lines += ["const " + err_name(e)] * 4
        obs += [err_name(e)] * 4
    else:
        rattrs, rtexts = xml_block(adoc, "ascii")
        # attribute values: quoteattr, then the codec's xmlcharrefreplace (attributes under an encoding are not modelled)
        lines.append("echo XATTR " + " ".join(enc_str(_sax_quoteattr(x).encode("ascii", "xmlcharrefreplace").decode("ascii")) for x in wattrs))
        lines.append(" ".join(["xdoc-texts-ascii"] + [enc_str(x) for x in wtexts]))
        obs.append("(see next line)")
        ob(lambda: parse_canon(adoc, "xml", "bytes"))
        st["xtext_ascii_charrefs"] = sum(t.count("&#") for t in rtexts)
    # `quoteattr` itself (the standard library function rdflib's writer relies on)
    lines.append(" ".join(["xattr-write"] + [enc_str(x) for x in wattrs]))
    ob(lambda: " ".join(["="] + [enc_str(_sax_quoteattr(x)) for x in wattrs]))
    xx = case.get("xx", [])
    if xx:
        lines.append(" ".join(["xattr-read"] + [enc_str(r) for k, r in xx if k == "a"]))
        ob(lambda: " ".join(["="] + [py_xml_token(k, r) for k, r in xx if k == "a"]))
        lines.append(" ".join(["xtext-read"] + [enc_str(r) for k, r in xx if k == "t"]))
        ob(lambda: " ".join(["="] + [py_xml_token(k, r) for k, r in xx if k == "t"]))
        if want_obs:
            st["xtext_foreign_tokens"] = len(xx)
            st["xtext_foreign_errors"] = sum(1 for k, r in xx if py_xml_token(k, r).startswith("err"))
    return lines, obs


# ------------------------------------------------------------------ the implementation under test

def _cmp_tables(tag, case, got_vars, got_rows, extra, viol):
    if got_vars != case["vars"]:
        viol.append(f"{tag}: variables {got_vars!r} instead of {case['vars']!r}")
        return
    if len(got_rows) != len(case["rows"]):
        viol.append(f"{tag}: {len(got_rows)} rows instead of {len(case['rows'])}")
        return
    if extra:
        viol.append(f"{tag}: {extra} bindings for variables that are not in vars")
    for i, (g, w) in enumerate(zip(got_rows, case["rows"])):
        for v, a, b in zip(case["vars"], g, w):
            if a != b:
                viol.append(f"{tag}: row {i} ?{v}: got {a!r}, expected {b!r}")
                return


MIME = {"json": "application/sparql-results+json", "xml": "application/sparql-results+xml", "csv": "text/csv",
        "tsv": "text/tab-separated-values"}
_TMPDIR = None
TEXT_DESTS = ("textfile", "textfile-default", "stringio", "stringio-default")
DEST_KINDS = ("bytes", "stream", "stringio", "stringio-default", "textfile", "textfile-default", "binfile", "path", "fileuri", "pathlib")


def _tmp(name):
    global _TMPDIR
    if _TMPDIR is None:
        _TMPDIR = tempfile.mkdtemp(prefix="c16-")
    return os.path.join(_TMPDIR, "%d-%s" % (os.getpid(), name))


def _serialize(r, fmt, case, e):
    """Result.serialize along the case's axes: format by name / MIME type, encoding keyword, destination kind,
    or the serializer plugin object used directly (twice: the second document is the one read back)"""
    kw = {"encoding": e} if "enc" in case else {}
    name = MIME[fmt] if case.get("fmtname") == "mime" else fmt
    dest = case.get("dest", "bytes")
    if case.get("plugin") and e == "utf-8":
        ser = _plugin.get(name, ResultSerializer)(r)
        b1, b2 = io.BytesIO(), io.BytesIO()
        ser.serialize(b1, encoding="utf-8")
        ser.serialize(b2, encoding="utf-8")
        return b2.getvalue()
    if dest in TEXT_DESTS and e != "utf-8":
        dest = "binfile" if dest.startswith("textfile") else "stream"   # a text destination takes str: no other encoding to ask for
    if dest == "bytes":
        return r.serialize(format=name, **kw)
    if dest == "stream":
        buf = io.BytesIO()
        r.serialize(destination=buf, format=name, **kw)
        return buf.getvalue()
    if dest in ("stringio", "stringio-default"):
        # a text stream (`newline=""`: nothing translated; default `newline="\n"`: nothing translated on this platform either)
        sbuf = io.StringIO(newline="") if dest == "stringio" else io.StringIO()
        r.serialize(destination=sbuf, format=name, **kw)
        return sbuf.getvalue().encode("utf-8")
    p = _tmp("out." + fmt)
    if os.path.exists(p):
        os.remove(p)
    if dest == "path":
        r.serialize(destination=p, format=name, **kw)
    elif dest == "pathlib":
        # outside the signature (`str | IO | None`): refused with AttributeError by `urlparse`; then the str of the path is used
        try:
            r.serialize(destination=pathlib.Path(p), format=name, **kw)
        except AttributeError:
            r.serialize(destination=str(pathlib.Path(p)), format=name, **kw)
    elif dest == "fileuri":
        r.serialize(destination="file://" + p, format=name, **kw)
    elif dest == "binfile":
        with open(p, "wb") as f:
            r.serialize(destination=f, format=name, **kw)
    elif dest == "textfile-default":
        with open(p, "w", encoding="utf-8") as f:          # text mode with the platform's newline handling
            r.serialize(destination=f, format=name, **kw)
    else:
        with open(p, "w", encoding="utf-8", newline="") as f:
            r.serialize(destination=f, format=name, **kw)
    with open(p, "rb") as f:
        return f.read()


def _parse(data, fmt, case, e):
    """Result.parse along the case's axes: parser chosen by format name / MIME name / content_type (with or without
    parameters) / the xml default; source a BytesIO, a StringIO, a binary or a text file object; or the parser plugin
    object used directly for two documents in a row"""
    how = case.get("how", "format")
    if how == "default" and fmt != "xml":
        how = "format"
    kw = {"format": {"format": fmt}, "mime": {"format": MIME[fmt]}, "ctype": {"content_type": MIME[fmt]},
          "ctype+charset": {"content_type": MIME[fmt] + "; charset=utf-8"}, "default": {}}[how]
    src = case["src"]
    f = None
    if src == "bytes":
        source = io.BytesIO(data)
    elif src == "text":
        source = io.StringIO(data.decode(e), newline="")
    else:
        p = _tmp("in." + fmt)
        with open(p, "wb") as w:
            w.write(data)
        f = source = open(p, "rb") if src == "binfile" else open(p, "r", encoding=e, newline="")
    try:
        if case.get("plugin") and e == "utf-8":
            parser = _plugin.get(fmt, ResultParser)()
            parser.parse(io.BytesIO(data))
            return parser.parse(source)
        return Result.parse(source, **kw)
    finally:
        if f is not None:
            f.close()


def _strings2(case):
    return [x for r in case.get("rows", []) for t in r if t for x in t[1:]]


def _csv_strings(res):
    vars_, rows, _ = table_of(res)
    return vars_, [["" if t is None else t[1] for t in r] for r in rows]


def _csv_strings_case(case):
    return list(case["vars"]), [["" if t is None else ("_:" + t[1] if t[0] == "B" else t[1]) for t in r] for r in case["rows"]]


def apply_history(res, case):
    """run the case's history on the Result; per op what the caller saw, in the driver's format"""
    vars_ = [Variable(v) for v in case["vars"]]
    segs = []
    for op in case.get("hist", []):
        if op[0] == "take":
            k, how, seen = op[1], op[2], []
            if how == "for" and k >= 1:
                for row in res:
                    seen.append(row)
                    if len(seen) >= k:
                        break
            else:
                it = iter(res)
                for _ in range(k):
                    try:
                        seen.append(next(it))
                    except StopIteration:
                        break
                del it
            cells = [enc_cell(un_term(row[i])) for row in seen for i in range(len(vars_))]
            segs.append(" ".join(["T%d" % len(seen)] + cells))
        else:
            n = len(res) if op[1] == "len" else len(res.bindings) if op[1] == "bindings" else (bool(res), len(res.bindings))[1]
            segs.append("F%d" % n)
    return " ; ".join(segs)


def apply_mhistory(res, case, viol):
    """several live iterators over one Result; per op what the caller saw, in the driver's format"""
    vars_ = [Variable(v) for v in case["vars"]]
    its, segs = [], []
    for op in case["mhist"]:
        if op[0] == "open":
            its.append(iter(res))
            segs.append("O")
        elif op[0] == "next":
            try:
                row = next(its[op[1]])
                segs.append(" ".join(["R"] + [enc_cell(un_term(row[i])) for i in range(len(vars_))]))
            except StopIteration:
                segs.append("X")
        else:
            how = op[1]
            if how.startswith("ser:"):
                fmt = how[4:]
                try:
                    data = res.serialize(format=fmt)
                    if fmt != "txt":
                        back = Result.parse(io.BytesIO(data), format=fmt)
                        if len(back.bindings) != len(case["rows"]):
                            viol.append(f"hist: a {fmt} serialisation in the middle of the history has "
                                        f"{len(back.bindings)} rows instead of {len(case['rows'])}")
                except Exception as e:  # noqa: BLE001  (XML and non-XML characters: K1; txt is write-only, not in the statement)
                    if fmt in ("json", "csv"):
                        viol.append(f"hist: {fmt} serialisation in the middle of the history raised {type(e).__name__}")
                segs.append("F%d" % len(res.bindings))
            else:
                n = len(res) if how == "len" else len(res.bindings) if how == "bindings" else (bool(res), len(res.bindings))[1]
                segs.append("F%d" % n)
    return " ; ".join(segs), its


def run_impl(case):
    obs, viol, xviol = [], [], []
    src = case["src"]
    has_hist = case["kind"] == "select" and "hist" in case
    hist_line = None
    if has_hist:
        shared = build_result(case)
        try:
            if "mhist" in case:
                hist_line, _live_iterators = apply_mhistory(shared, case, viol)
            else:
                hist_line = apply_history(shared, case)
        except Exception as e:  # noqa: BLE001
            hist_line = err_name(e)
            viol.append(f"hist: the history raised {type(e).__name__}: {str(e)[:80]}")
        if case.get("pre"):
            try:
                back = Result.parse(io.BytesIO(shared.serialize(format=case["pre"])), format=case["pre"])
                if len(back.bindings) != len(case["rows"]):
                    viol.append(f"hist: after the history, the first serialisation ({case['pre']}) has "
                                f"{len(back.bindings)} rows instead of {len(case['rows'])}")
            except Exception as e:  # noqa: BLE001
                if case["pre"] != "xml":
                    viol.append(f"hist: first serialisation ({case['pre']}) raised {type(e).__name__}")
    fresh = (lambda: shared) if has_hist else (lambda: build_result(case))
    enc = case.get("enc", "utf-8")
    st = {"via_" + case["via"]: 1, "src_" + src: 1, "kind_" + case["kind"]: 1, "dest_" + case.get("dest", "bytes"): 1,
          "enc_" + enc: 1, "fmtname_" + case.get("fmtname", "name"): 1, "parsehow_" + case.get("how", "format"): 1,
          "hops_%s" % case.get("hops", 1): 1, "plugin_objects_reused": int(bool(case.get("plugin"))),
          "rowapi": int(bool(case.get("rowapi")))}
    if case.get("hops") == 2:
        st["hop2_" + str(case.get("hop2"))] = 1
    res = build_result(case)
    want = "ok " + enc_case_result(case)
    if canon(res) != want:
        viol.append("build: the constructed result is not the case's table: " + canon(res)[:120])
    formats = ["json", "xml"] + (["csv"] if case["kind"] == "select" else [])
    for fmt in formats:
        tag = fmt
        sink = xviol if fmt == "xml" else viol
        use_enc = enc
        first_hop_line = None

        def ser(e):
            return _serialize(fresh(), fmt, case, e)

        try:
            try:
                data = ser(use_enc)
            except (UnicodeError, TypeError):
                # JSON and CSV documents carry no encoding declaration and rdflib's readers take bytes as UTF-8;
                # an encoding that cannot spell a character may be refused (see design.d/C16.md) — XML may not
                if fmt == "xml" or use_enc == "utf-8":
                    raise
                st["enc_refused_" + fmt] = 1
                use_enc = "utf-8"
                data = ser(use_enc)
        except Exception as e:  # noqa: BLE001
            sink.append(f"{tag}: serialize(encoding={use_enc}) raised {type(e).__name__}: {str(e)[:80]}")
            obs += [err_name(e)] * 3
            continue
        try:
            if fmt == "xml" or use_enc == "utf-8":
                # the XML document declares its encoding: bytes must read back whatever the encoding
                back = _parse(data, fmt, case, use_enc)
                first_hop_line = canon(back)
                if case.get("hops") == 2:
                    # two hops: the parsed result is itself serialised (same format, or the other of json / xml) and read again
                    g = fmt
                    if fmt != "csv" and case.get("hop2") in ("json", "xml") and all(
                            _xml_char(c) for x in list(case.get("vars", [])) + _strings2(case) for c in x):
                        g = case["hop2"]
                    back = Result.parse(io.BytesIO(back.serialize(format=g)), format=g)
            else:
                # the consumer decodes with the encoding it asked for; the writer's silent fall-back to UTF-8 when
                # that encoding cannot spell a character is tolerated (observed, not demanded)
                back, err = None, None
                for e2 in (use_enc, "utf-8"):
                    try:
                        cand = Result.parse(io.StringIO(data.decode(e2), newline=""), format=fmt)
                    except Exception as e:  # noqa: BLE001
                        err = err or e
                        continue
                    good = _csv_strings(cand) == _csv_strings_case(case) if fmt == "csv" else canon(cand) == want
                    if back is None or good:
                        back = cand
                    if good:
                        if e2 != use_enc:
                            st["enc_fell_back_to_utf8_" + fmt] = 1
                        break
                if back is None:
                    raise err
            line = first_hop_line if (case.get("hops") == 2 and first_hop_line) else canon(back)
        except Exception as e:  # noqa: BLE001
            sink.append(f"{tag}: parse raised {type(e).__name__}: {str(e)[:80]}")
            obs += [err_name(e)] * 3
            continue
        obs += [line] * 3
        if case["kind"] == "ask":
            if back.type != "ASK" or back.askAnswer is not bool(case["value"]):
                sink.append(f"{tag}: boolean {case['value']} came back as {back.type} {back.askAnswer!r}")
            continue
        if back.type != "SELECT":
            sink.append(f"{tag}: result type {back.type}")
            continue
        gv, gr, extra = table_of(back)
        if fmt != "csv":
            n0 = len(sink)
            _cmp_tables(tag, case, gv, gr, extra, sink)
            if len(sink) == n0:
                # the container's own notion of equality and size must agree with the cell-wise oracle
                if not (back == res and res == back):
                    sink.append(f"{tag}: Result.__eq__ says the round-tripped result differs from the original")
                if len(back) != len(case["rows"]):
                    sink.append(f"{tag}: len(result) is {len(back)} for {len(case['rows'])} rows")
                if case.get("rowapi"):
                    # the same table through the row API: ResultRow as tuple, by variable, by name, as dict
                    exp = [r for r in case["rows"] if any(t is not None for t in r)]
                    got = list(back)
                    vs = [Variable(v) for v in case["vars"]]
                    good = len(got) == len(exp) and all(
                        [un_term(x) for x in row] == e and [un_term(row[v]) for v in vs] == e
                        and [un_term(row.get(str(v))) for v in vs] == e
                        and {k: un_term(x) for k, x in row.asdict().items()} == {str(v): t for v, t in zip(vs, e) if t is not None}
                        for row, e in zip(got, exp))
                    if not good:
                        sink.append(f"{tag}: iterating the round-tripped result (ResultRow) does not give the table's rows")
        else:
            if gv != case["vars"]:
                sink.append(f"csv: variables {gv!r} instead of {case['vars']!r}")
            elif len(gr) != len(case["rows"]):
                sink.append(f"csv: {len(gr)} rows instead of {len(case['rows'])}")
            else:
                for i, (g, w) in enumerate(zip(gr, case["rows"])):
                    for v, a, b in zip(case["vars"], g, w):
                        sa = "" if a is None else a[1]
                        sb = "" if b is None else b[1]
                        # a blank node has no string value beyond its label; CSV writes it as `_:label`
                        ok = sa == sb
                        if not ok and b is not None and (b[0] == "B" or (case.get("hops") == 2 and sb.startswith("_:"))):
                            # each CSV hop puts `_:` in front of a blank node's label (and reads `_:x` as a blank node)
                            ok = sa.endswith(sb) and sa[:len(sa) - len(sb)] in ("_:", "_:_:")
                        if not ok:
                            sink.append(f"csv: row {i} ?{v}: string value {sa!r} instead of {sb!r}")
                            break
    if case["kind"] == "select":
        for k, chs in enumerate(case["tsv"]):
            text = tsv_render(case["vars"], case["rows"], chs)
            obs.append(enc_str(text))
            try:
                back = _parse(text.encode("utf-8"), "tsv", case, "utf-8")
                obs.append(canon(back))
                gv, gr, extra = table_of(back)
                _cmp_tables("tsv", case, gv, gr, extra, viol)
            except Exception as e:  # noqa: BLE001
                obs.append(err_name(e))
                viol.append(f"tsv: reader raised {type(e).__name__} on a conformant document (stream {k}): {str(e)[:80]}")
        cells = [t for r in case["rows"] for t in r]
        bound = [t for t in cells if t is not None]
        st.update({"vars_%d" % len(case["vars"]): 1, "rows": len(case["rows"]), "cells_bound": len(bound),
                   "cells_unbound": len(cells) - len(bound),
                   "rows_all_unbound": sum(1 for r in case["rows"] if r and all(t is None for t in r)),
                   "tables_zero_rows": int(not case["rows"]),
                   "tables_trailing_unbound_col": int(bool(case["rows"]) and bool(case["vars"])
                                                      and all(r[-1] is None for r in case["rows"])),
                   "tsv_bare_tokens": sum(1 for chs in case["tsv"] for r, cr in zip(case["rows"], chs)
                                          for t, c in zip(r, cr) if t and t[0] == "T" and c[1] and short_ok(t[1], t[2])),
                   "tsv_single_quoted": sum(1 for chs in case["tsv"] for r, cr in zip(case["rows"], chs)
                                            for t, c in zip(r, cr) if t and t[0] in "PTL" and c[0])})
        for t in bound:
            st["term_" + t[0]] = st.get("term_" + t[0], 0) + 1
            s = t[1]
            for name, pred in (("ctl", lambda c: ord(c) < 32 and c not in "\t\n\r"), ("tab_nl_cr", lambda c: c in "\t\n\r"),
                               ("quote_bs", lambda c: c in "\"'\\"), ("nonbmp", lambda c: ord(c) > 0xFFFF),
                               ("uni_linebreak", lambda c: c in "\x0b\x0c\x1c\x1d\x1e\x85  ")):
                if any(pred(c) for c in s):
                    st["chars_" + name] = st.get("chars_" + name, 0) + 1
        nontrivial = bool(bound) and len(bound) < len(cells)
        if has_hist:
            try:
                final = canon(shared)[3:]
            except Exception as e:  # noqa: BLE001
                final = err_name(e)
            obs.append(hist_line + " | " + final)
            if final != enc_case_result(case):
                viol.append("hist: after the history Result.bindings is not the full table: " + final[:100])
            st["hist_ops"] = len(case["hist"])
            if "mhist" in case:
                st["mhist_cases"] = 1
                st["mhist_ops"] = len(case["mhist"])
                st["mhist_iterators"] = sum(1 for o in case["mhist"] if o[0] == "open")
                st["mhist_lazy"] = int(case["via"] == "query")
                st["mhist_forces"] = sum(1 for o in case["mhist"] if o[0] == "force")
            st["hist_lazy_partly_consumed"] = int(case["via"] == "query" and any(o[0] == "take" for o in case["hist"]))
            st["hist_pre_serialisation"] = int(bool(case.get("pre")))
    else:
        nontrivial = False
    obs += text_level(case, st, viol=viol)[1]
    return {"obs": obs, "viol": viol + xviol, "nontrivial": nontrivial,
            "key": json.dumps([case.get("vars"), case.get("rows"), case.get("tsv"), case.get("value")], sort_keys=True),
            "stats": st}


# ------------------------------------------------------------------ the model side

def model_lines(case):
    r = enc_case_result(case)
    lines = []
    direct = build_result(case, "direct")
    # JSON
    lines.append("json-rt " + r)
    try:
        lines.append("json-of " + " ".join(json_tokens(json.loads(direct.serialize(format="json").decode("utf-8")))))
    except Exception as e:  # noqa: BLE001
        lines.append("const " + err_name(e))
    lines.append("json-to " + r)
    # XML
    lines.append("xml-rt " + r)
    try:
        lines.append("xml-of " + " ".join(xml_tokens(ET.fromstring(direct.serialize(format="xml")))))
    except Exception as e:  # noqa: BLE001
        lines.append("const " + err_name(e))
    lines.append("xml-to " + r)
    if case["kind"] == "select":
        lines.append("csv-rt " + r)
        try:
            text = direct.serialize(format="csv").decode("utf-8")
            lines.append("csv-of " + table_tokens(list(csv.reader(io.StringIO(text, newline="")))))
        except Exception as e:  # noqa: BLE001
            lines.append("const " + err_name(e))
        lines.append("csv-to " + r)
        for chs in case["tsv"]:
            lines.append(("tsv-render " + r + " " + enc_choices(chs)).rstrip())
            lines.append("tsv-read " + enc_str(tsv_render(case["vars"], case["rows"], chs)))
        if "hist" in case:
            lazy = "1" if ((case["via"] == "query" and case["vars"]) or case["via"] == "gen") else "0"
            if "mhist" in case:
                ops = " ".join("o" if o[0] == "open" else "n%d" % o[1] if o[0] == "next" else "f" for o in case["mhist"])
                lines.append(("mhist " + lazy + " " + r + " | " + ops).rstrip())
            else:
                ops = " ".join("k%d" % o[1] if o[0] == "take" else "f" for o in case["hist"])
                lines.append(("hist " + lazy + " " + r + " | " + ops).rstrip())
    lines += text_level(case, want_obs=False)[0]
    return lines


def select_model_obs(case, out):
    """`*-to` lines carry the model's tree: hand it to rdflib's reader and observe the table it builds"""
    out = list(out)
    src = case["src"]
    try:
        if out[2] != "bad-op":
            obj, _ = json_untokens(out[2].split(" "))
            out[2] = parse_canon(json.dumps(obj, ensure_ascii=False).encode("utf-8"), "json", src)
        if out[5] != "bad-op":
            text, _ = xml_untokens(out[5].split(" "))
            out[5] = parse_canon(('<?xml version="1.0" encoding="utf-8"?>\n' + text).encode("utf-8"), "xml", src)
        if case["kind"] == "select" and not out[8].startswith(("err", "bad-op")):
            buf = io.StringIO(newline="")
            csv.writer(buf).writerows(table_untokens(out[8]))
            out[8] = parse_canon(buf.getvalue().encode("utf-8"), "csv", src)
        for i, l in enumerate(out):
            if l.startswith("JDOC "):      # the Lean JSON writer's document, read by rdflib
                out[i] = parse_canon(dec_str(l[5:]).encode("utf-8"), "json", "bytes")
            elif l.startswith("CTEXT "):     # the Lean CSV writer's document, read by rdflib
                out[i] = parse_canon(dec_str(l[6:]).encode("utf-8"), "csv", "bytes")
            elif l.startswith("XATTR") and i + 1 < len(out) and out[i + 1].startswith("XTEXT"):
                # a document assembled from the Lean XML writer's spellings, read by rdflib
                doc = xml_assemble(case, [dec_str(w) for w in l.split(" ")[1:]], [dec_str(w) for w in out[i + 1].split(" ")[1:]])
                out[i] = "(see next line)"
                out[i + 1] = parse_canon(doc.encode("utf-8"), "xml", "bytes")
    except Exception as e:  # noqa: BLE001
        out.append("harness-error in select_model_obs: %r" % (e,))
    return out


# ------------------------------------------------------------------ shrinking and known findings

def _simpler_terms(t, ks):
    """(smaller term, per-character choices that go with it)"""
    if t is None:
        return
    yield None, []
    if t[0] != "P":
        yield ["P", t[1]], ks
    s = t[1]
    if len(s) > 1:
        for j in range(len(s)):
            yield [t[0], s[:j] + s[j + 1:]] + t[2:], ks[:j] + ks[j + 1:]
    if t[0] == "P" and s not in ("a", ""):
        yield ["P", "a"], ks[:1]
    if any(ks):
        for j, k in enumerate(ks):
            if k:
                yield t, ks[:j] + [0] + ks[j + 1:]


def shrink(case):
    if case["kind"] != "select":
        return
    vars_, rows, tsv = case["vars"], case["rows"], case["tsv"]
    for i in range(len(case.get("hist", []))):
        yield {**case, "hist": case["hist"][:i] + case["hist"][i + 1:]}
    mh = case.get("mhist")
    if mh is not None:
        if len(mh) <= 1:
            yield {k: v for k, v in case.items() if k != "mhist"}
        for i, o in enumerate(mh):
            if o[0] != "open":
                yield {**case, "mhist": mh[:i] + mh[i + 1:]}
        nit = sum(1 for o in mh if o[0] == "open")
        if nit > 1:   # drop the youngest iterator with all its steps
            last = max(i for i, o in enumerate(mh) if o[0] == "open")
            yield {**case, "mhist": [o for i, o in enumerate(mh) if i != last and not (o[0] == "next" and o[1] == nit - 1)]}
    if case.get("pre"):
        yield {**case, "pre": None}
    if case["via"] != "direct":
        yield {**case, "via": "direct"}
    if case["src"] != "bytes":
        yield {**case, "src": "bytes"}
    if case.get("dest", "bytes") != "bytes":
        yield {**case, "dest": "bytes"}
    if case.get("enc", "utf-8") != "utf-8":
        yield {**case, "enc": "utf-8"}
    for k, v in (("fmtname", "name"), ("how", "format"), ("hops", 1), ("plugin", False), ("rowapi", False)):
        if case.get(k, v) != v:
            yield {**case, k: v}
    if case["src"] in ("binfile", "textfile"):
        yield {**case, "src": "bytes"}
    if case["via"] == "gen":
        yield {**case, "via": "direct"}
    for i in range(len(rows)):
        yield {**case, "rows": rows[:i] + rows[i + 1:], "tsv": [c[:i] + c[i + 1:] for c in tsv]}
    for j in range(len(vars_)):
        yield {**case, "vars": vars_[:j] + vars_[j + 1:], "rows": [r[:j] + r[j + 1:] for r in rows],
               "tsv": [[cr[:j] + cr[j + 1:] for cr in c] for c in tsv]}
    if len(tsv) > 1:
        for k in range(len(tsv)):
            yield {**case, "tsv": [tsv[k]]}
    for i, r in enumerate(rows):
        for j, t in enumerate(r):
            ks0 = tsv[0][i][j][2] if tsv else []
            for t2, ks2 in _simpler_terms(t, ks0):
                if t2 is not None and not _stable(t2):
                    continue
                nr = [list(x) for x in rows]
                nr[i][j] = t2
                nt = [[[list(c) for c in cr] for cr in chs] for chs in tsv]
                for k, chs in enumerate(nt):
                    chs[i][j] = [chs[i][j][0], chs[i][j][1], list(ks2) if k == 0 else []]
                yield {**case, "rows": nr, "tsv": nt}
    for k, chs in enumerate(tsv):
        for i, cr in enumerate(chs):
            for j, c in enumerate(cr):
                if c != [0, 0, []]:
                    nt = [[[list(x) for x in cr2] for cr2 in chs2] for chs2 in tsv]
                    nt[k][i][j] = [0, 0, []]
                    yield {**case, "tsv": nt}
    for j, v in enumerate(vars_):
        if v not in ("a", "b", "c", "d") :
            for nv in ("a", "b", "c", "d"):
                if nv not in vars_:
                    yield {**case, "vars": vars_[:j] + [nv] + vars_[j + 1:]}
                    break


def _xml_char(c):
    o = ord(c)
    return c in "\t\n\r" or 0x20 <= o <= 0xD7FF or 0xE000 <= o <= 0xFFFD or 0x10000 <= o <= 0x10FFFF


def _m_xml_char(case, result):
    """XML 1.0 cannot carry the character: rdflib writes it raw, the document is not well-formed.
    Only the xml clause fails, with a parse error, and some string of the table has such a character."""
    if case["kind"] != "select" or not result["viol"]:
        return False
    if not all(v.startswith("xml: parse raised ParseError") for v in result["viol"]):
        return False
    strings = list(case["vars"]) + [x for r in case["rows"] for t in r if t for x in t[1:]]
    return any(not _xml_char(c) for s in strings for c in s)


def _viols(result, prefix):
    return bool(result["viol"]) and all(v.startswith(prefix) for v in result["viol"])


def _strings(case):
    return [t[1] for r in case.get("rows", []) for t in r if t]


# matchers of the *fixed* findings document the shape of each repaired defect (core.py consults
# matchers for `known` entries only; a fixed witness that fails again is always a VIOLATION)
MATCHERS = {
    "xml_non_xml_char": _m_xml_char,
    "tsv_unbound_row_dropped": lambda c, r: _viols(r, "tsv: ") and any(all(t is None for t in row) for row in c["rows"]),
    "xsv_unicode_linebreak": lambda c, r: any(ch in s for s in _strings(c) for ch in "\x0b\x0c\x1c\x1d\x1e\x85\u2028\u2029")
    and all(v.startswith(("csv: ", "tsv: ")) for v in r["viol"]) and bool(r["viol"]),
    "xml_falsy_literal": lambda c, r: _viols(r, "xml: row"),
    "xml_cr_lost": lambda c, r: _viols(r, "xml: row") and any("\r" in s for s in _strings(c)),
    "tsv_negative_decimal": lambda c, r: _viols(r, "tsv: reader raised TypeError"),
    "tsv_zero_vars": lambda c, r: _viols(r, "tsv: reader raised ParseException") and not c["vars"],
    "iter_forgets_unbound_row": lambda c, r: c["via"] == "query" and any(o[0] == "take" for o in c.get("hist", []))
    and any(row and all(t is None for t in row) for row in c["rows"]) and any(v.startswith("hist: ") for v in r["viol"]),
    "tsv_string_escapes": lambda c, r: _viols(r, "tsv: reader raised ParseException")
    and any(k for chs in c["tsv"] for cr in chs for cell in cr for k in cell[2]),
}
