"""C16 — SPARQL results survive their exchange formats.  DESIGN §6 C16.

Case (JSON-able):
  {"kind": "select", "via": "direct"|"query", "src": "bytes"|"text",
   "vars": ["a", "b"], "rows": [[term|null, ...], ...],          rows aligned to vars
   "tsv": [ [[ [sq, short, [k…]] per cell ] per row ] per choice stream ]}
  {"kind": "ask", "via": "direct"|"query", "src": …, "value": true|false}
  term = ["I", iri] | ["B", label] | ["P", lex] | ["T", lex, datatype] | ["L", lex, langtag]

Observations (one line each, compared with the compiled Lean model `drv_c16`):
  json-rt / xml-rt / csv-rt : Result.parse(BytesIO(r.serialize(format=F)), format=F), canonical table
  json-of / xml-of / csv-of : the *implementation's* document, loaded with json / ElementTree / csv,
                              read by the model's ofJson / ofXml / ofCsv      (impl writer -> model reader)
  json-to / xml-to / csv-to : the *model's* tree, dumped with json / a 20-line XML writer / csv,
                              read by rdflib's parser                          (model writer -> impl reader)
  per TSV choice stream     : the harness' W3C reference rendering == Lean `Spec.Tsv.render` (text),
                              rdflib's TSV reader on that text == Lean `readTsv`
Property oracle (independent of Lean, `viol`): the round-tripped table equals the input cell by cell
(JSON, XML); the TSV reader returns exactly the table rendered; CSV keeps the row sequence and the
string value of every bound term.
"""
import csv
import io
import json
import logging
import warnings
import xml.etree.ElementTree as ET

import core  # noqa: F401
from rdflib import BNode, Graph, Literal, URIRef, Variable
from rdflib.namespace import XSD
from rdflib.query import Result

warnings.filterwarnings("ignore")
logging.getLogger("rdflib").setLevel(logging.CRITICAL)
logging.getLogger("rdflib.term").setLevel(logging.CRITICAL)

ID = "C16"
LEAN_TARGETS = ["RV.C16.Props", "RV.C16.Audit"]
AUDIT = "RV/C16/Audit.lean"
DRIVER = "drv_c16"
CASES = {"quick": 2000, "thorough": 30000, "search": 12000}
RULE = ("random result tables (0-4 variables, 0-8 rows, any pattern of unbound cells incl. all-unbound rows and "
        "leading/trailing unbound columns; terms of every kind from a pool with control characters, quotes, "
        "backslashes, tabs, line ends, U+0085/U+2028, non-BMP) built directly as Result objects or by a real "
        "graph.query(), and both ASK answers; serialised and parsed back in JSON, XML, CSV, and rendered as TSV "
        "under 3 choice streams; non-trivial = a SELECT table with at least one bound and one unbound cell; "
        "distinct = distinct (vars, rows, choices)")
ASSUMPTIONS = ["terms are fixed points of rdflib's literal normalisation (what rdflib hands out by default, C09)",
               "IRIs, blank node labels, language tags and variable names are syntactically legal (non-empty, "
               "IRIREF / BLANK_NODE_LABEL / LANGTAG / VARNAME); no lone surrogates",
               "byte level of json, expat/ElementTree and csv is exercised here but not modelled, except XML "
               "end-of-line normalisation and the XML 1.0 Char range"]
TRUSTED = ["harness/c16.py generators, canonicalisation and reference TSV writer (tied to Lean Spec.Tsv.render on "
           "every case)", "lean/RV/C16/Drive.lean line protocol", "Python json / csv / xml.etree / expat"]

SPARQL_NS = "http://www.w3.org/2005/sparql-results#"
XML_NS = "http://www.w3.org/XML/1998/namespace"
XSDS = str(XSD)

# ------------------------------------------------------------------ pools

SPECIAL = ["\t", "\n", "\r", "\r\n", '"', "'", "\\", "\x08", "\x0c", "\x0b", "\x00", "\x01", "\x1c", "\x1f", "\x7f",
           "\x85", " ", " ", " ", "é", "\U0001F600", "\U00010000", "�", "￾", "￿",
           " ", ",", ";", "<", ">", "&", "]]>", "@", "^", "#", "?", "_:", "\\n", "\\\\", "\\\"", "%", "|", "{", "}"]
PLAIN = ["a", "b", "xyz", "0", "12", "-1.5", "true", "http://x", "https://e/y", "_:b", "@en", "^^<x>", "null", "é"]
LEX_FIXED = ["", " ", "a b", " lead", "trail ", "a\tb\nc\rd", "\r\n", "line1\nline2", '"', "''", '"\'"', "\\",
             "\\t", 'say "hi"', "it's", "a,b", '"a",b', "<&>", "]]>", "\x00", "\x01x", "\x08\x0c", "\x0bv",
             "\x1cfs", "nel\x85", "ls ps ", "\U0001F600", "é\U00010000", "￾", "￿", "_:x",
             "http://looks/like/iri", "true", "12", "-3", "+3", "1.5", "1e5", "?a", "\t", "\n", "\r"]
IRIS = ["http://e/a", "http://e/é", "urn:x:1", "https://e/?q=1&r=2#f", "http://e/\U0001F600", "mailto:a@b",
        "http://e/a'b", "http://e/%20", "http://e/a,b", "x:y", "http://e/a;b=(1)", "tag:e,2020:x"]
LABELS = ["b1", "N1234abcd", "b.1", "1b", "a-b", "é", "x_y", "b0", "genid5"]
DTYPES = [XSDS + "string", "http://e/dt", "http://e/dt#é", XSDS + "token2", "urn:dt:1"]
LANGS = ["en", "EN-us", "de-CH-1996", "x-a", "fr"]
NUMERIC = [(XSDS + "integer", ["0", "5", "-5", "12", "123456789012345678901234567890", "-7"]),
           (XSDS + "decimal", ["1.5", "-1.5", "0.0", "10.25", "-0.5", "3.0"]),
           (XSDS + "double", ["1e-07", "1e+16", "-2.5e-09", "1.5e+300"]),
           (XSDS + "boolean", ["true", "false"]),
           (XSDS + "integer", ["abc", "1 2", ""]),  # ill-typed lexical forms are kept as they are
           (XSDS + "double", ["1.0", "-0.5", "100000.0"])]  # not DOUBLE tokens: no bare form possible
VARNAMES = ["a", "b", "c", "x1", "_v", "A", "ab", "é", "s", "p", "o", "v2"]


def mk_term(t):
    if t is None:
        return None
    k = t[0]
    if k == "I":
        return URIRef(t[1])
    if k == "B":
        return BNode(t[1])
    if k == "P":
        return Literal(t[1])
    if k == "T":
        return Literal(t[1], datatype=URIRef(t[2]))
    if k == "L":
        return Literal(t[1], lang=t[2])
    raise ValueError(t)


def un_term(x):
    if x is None:
        return None
    if isinstance(x, URIRef):
        return ["I", str(x)]
    if isinstance(x, BNode):
        return ["B", str(x)]
    if isinstance(x, Literal):
        if x.language is not None:
            return ["L", str(x), x.language]
        if x.datatype is not None:
            return ["T", str(x), str(x.datatype)]
        return ["P", str(x)]
    return ["?", repr(x)]


def _stable(t):
    """a term rdflib represents exactly (fixed point of literal normalisation)"""
    try:
        return un_term(mk_term(t)) == t
    except Exception:
        return False


def rand_lex(rng):
    r = rng.random()
    if r < 0.35:
        return rng.choice(LEX_FIXED)
    n = rng.choice([1, 1, 2, 3, 4, 6])
    return "".join(rng.choice(SPECIAL) if rng.random() < 0.6 else rng.choice(PLAIN) for _ in range(n))


def rand_term(rng):
    for _ in range(20):
        r = rng.random()
        if r < 0.14:
            t = ["I", rng.choice(IRIS)]
        elif r < 0.26:
            t = ["B", rng.choice(LABELS)]
        elif r < 0.52:
            t = ["P", rand_lex(rng)]
        elif r < 0.66:
            t = ["L", rand_lex(rng), rng.choice(LANGS)]
        elif r < 0.82:
            t = ["T", rand_lex(rng), rng.choice(DTYPES)]
        else:
            dt, lexes = rng.choice(NUMERIC)
            t = ["T", rng.choice(lexes), dt]
        if _stable(t):
            return t
    return ["P", "x"]


def rand_choices(rng, rows, mode):
    out = []
    for row in rows:
        cr = []
        for t in row:
            if mode == 0 or t is None:
                cr.append([0, 0, []])
                continue
            lex = t[1] if t[0] in "PTL" else ""
            if mode == 1:
                ks = []
            else:
                pu = rng.choice([0.0, 0.0, 0.15, 0.5])
                ks = [(rng.choice([2, 3]) if rng.random() < pu else rng.randint(0, 1)) for _ in lex]
                while ks and ks[-1] == 0:
                    ks.pop()
            cr.append([rng.randint(0, 1), 1 if mode == 1 or rng.random() < 0.6 else 0, ks])
        out.append(cr)
    return out


def gen_case(rng, tier, i):
    via = "query" if rng.random() < 0.25 else "direct"
    src = "bytes" if rng.random() < 0.7 else "text"
    dest = "stream" if rng.random() < 0.25 else "bytes"
    if rng.random() < 0.04:
        return {"kind": "ask", "via": via, "src": src, "dest": dest, "value": rng.random() < 0.5}
    nv = rng.choice([0, 1, 1, 2, 2, 2, 3, 3, 4])
    nr = rng.choice([0, 1, 1, 2, 2, 3, 3, 4, 5, 6, 8])
    vars_ = rng.sample(VARNAMES, nv)
    p_unbound = rng.choice([0.0, 0.1, 0.2, 0.35, 0.35, 0.6, 0.6, 1.0])
    small_pool = [rand_term(rng) for _ in range(rng.choice([1, 2, 4, 8]))]  # repeated terms within a table
    rows = []
    for _ in range(nr):
        rows.append([None if rng.random() < p_unbound else
                     (rng.choice(small_pool) if rng.random() < 0.5 else rand_term(rng)) for _ in range(nv)])
    shape = rng.random()
    if rows and nv:
        if shape < 0.15:
            rows[rng.randrange(nr)] = [None] * nv                      # an all-unbound row
        elif shape < 0.25:
            for r in rows:
                r[-1] = None                                           # trailing unbound column
        elif shape < 0.33:
            for r in rows:
                r[0] = None                                            # leading unbound column
        elif shape < 0.38:
            rows[-1] = [None] * nv                                     # last row empty
        elif shape < 0.43:
            rows[0] = [None] * nv
    if nv == 0:
        via = "direct"
    tsv = [rand_choices(rng, rows, 0), rand_choices(rng, rows, 1), rand_choices(rng, rows, 2)]
    return {"kind": "select", "via": via, "src": src, "dest": dest, "vars": vars_, "rows": rows, "tsv": tsv}


# ------------------------------------------------------------------ building results

_Q_CACHE = {}


def build_result(case, via=None):
    via = via or case["via"]
    if case["kind"] == "ask":
        if via == "direct":
            r = Result("ASK")
            r.askAnswer = bool(case["value"])
            return r
        g = Graph()
        if case["value"]:
            g.add((URIRef("urn:s"), URIRef("urn:p"), Literal("o")))
        return g.query("ASK { ?s ?p ?o }")
    vars_ = [Variable(v) for v in case["vars"]]
    if via == "direct" or not vars_:
        r = Result("SELECT")
        r.vars = vars_
        r.bindings = [{v: mk_term(t) for v, t in zip(vars_, row) if t is not None} for row in case["rows"]]
        return r
    g = Graph()
    idx = URIRef("urn:c16:i")
    for i, row in enumerate(case["rows"]):
        rn = BNode("c16row%d" % i)
        g.add((rn, idx, Literal(i)))
        for j, t in enumerate(row):
            if t is not None:
                g.add((rn, URIRef("urn:c16:c%d" % j), mk_term(t)))
    q = "SELECT %s WHERE { ?c16r <urn:c16:i> ?c16i . %s } ORDER BY ?c16i" % (
        " ".join("?" + v for v in case["vars"]),
        " ".join("OPTIONAL { ?c16r <urn:c16:c%d> ?%s }" % (j, v) for j, v in enumerate(case["vars"])))
    res = g.query(q)
    res.bindings  # evaluate
    return res


# ------------------------------------------------------------------ canonical forms (shared with Drive.lean)

def enc_str(s):
    return "-" if s == "" else ".".join(str(ord(c)) for c in s)


def dec_str(w):
    return "" if w == "-" else "".join(chr(int(x)) for x in w.split("."))


def enc_cell(t):
    if t is None:
        return "U"
    return ":".join([t[0]] + [enc_str(x) for x in t[1:]])


def enc_table(vars_, rows):
    out = ["S", str(len(vars_))] + [enc_str(v) for v in vars_] + [str(len(rows))]
    for r in rows:
        out += [enc_cell(t) for t in r]
    return " ".join(out)


def enc_case_result(case):
    if case["kind"] == "ask":
        return "A 1" if case["value"] else "A 0"
    return enc_table(case["vars"], case["rows"])


ERRMAP = {"ParseException": "ParseError", "ParseError": "ParseError", "ExpatError": "ParseError",
          "KeyError": "KeyError", "TypeError": "TypeError", "ValueError": "ValueError",
          "NotImplementedError": "NotImplementedError", "ResultException": "ResultException",
          "IndexError": "IndexError", "AttributeError": "AttributeError"}


def err_name(e):
    return "err:" + ERRMAP.get(type(e).__name__, "Other")


def table_of(res):
    """(vars, aligned rows as term lists, number of bindings for variables outside vars)"""
    vars_ = list(res.vars)
    rows, extra = [], 0
    for b in res.bindings:
        rows.append([un_term(b.get(v)) for v in vars_])
        extra += sum(1 for k in b if k not in vars_)
    return [str(v) for v in vars_], rows, extra


def canon(res):
    if res.type == "ASK":
        return "ok A 1" if res.askAnswer is True else "ok A 0" if res.askAnswer is False else "ok A ?"
    vars_, rows, _extra = table_of(res)
    return "ok " + enc_table(vars_, rows)


def open_src(data: bytes, src):
    return io.BytesIO(data) if src == "bytes" else io.StringIO(data.decode("utf-8"), newline="")


def parse_canon(data: bytes, fmt, src):
    try:
        return canon(Result.parse(open_src(data, src), format=fmt))
    except Exception as e:  # noqa: BLE001
        return err_name(e)


# ------------------------------------------------------------------ trees <-> tokens

def json_tokens(x):
    if x is None:
        return ["n"]
    if x is True:
        return ["t"]
    if x is False:
        return ["f"]
    if isinstance(x, str):
        return ["s:" + enc_str(x)]
    if isinstance(x, (int, float)):
        return ["d"]
    if isinstance(x, list):
        out = ["a:%d" % len(x)]
        for y in x:
            out += json_tokens(y)
        return out
    if isinstance(x, dict):
        out = ["o:%d" % len(x)]
        for k, v in x.items():
            out += [enc_str(str(k))] + json_tokens(v)
        return out
    raise TypeError(x)


def json_untokens(ws, i=0):
    w = ws[i]
    if w == "n":
        return None, i + 1
    if w == "t":
        return True, i + 1
    if w == "f":
        return False, i + 1
    if w == "d":
        return 0, i + 1
    k, _, rest = w.partition(":")
    if k == "s":
        return dec_str(rest), i + 1
    if k == "a":
        xs, i = [], i + 1
        for _ in range(int(rest)):
            x, i = json_untokens(ws, i)
            xs.append(x)
        return xs, i
    if k == "o":
        d, i = {}, i + 1
        for _ in range(int(rest)):
            key = dec_str(ws[i])
            v, i = json_untokens(ws, i + 1)
            d[key] = v
        return d, i
    raise ValueError(w)


def _tagname(tag):
    return tag[len(SPARQL_NS) + 2:] if tag.startswith("{%s}" % SPARQL_NS) else "!" + tag


def _attrname(a):
    if a == "{%s}lang" % XML_NS:
        return "xml:lang"
    return "!" + a if a.startswith("{") else a


def xml_tokens(el):
    kids = list(el)
    out = [":".join(["e", enc_str(_tagname(el.tag)), str(len(el.attrib)), str(len(kids)), enc_str(el.text or "")])]
    for a, v in el.attrib.items():
        out += [enc_str(_attrname(a)), enc_str(v)]
    for k in kids:
        out += xml_tokens(k)
    return out


def _esc_text(s):
    return s.replace("&", "&amp;").replace("<", "&lt;").replace(">", "&gt;").replace("\r", "&#13;")


def _esc_attr(s):
    return (_esc_text(s).replace('"', "&quot;").replace("\t", "&#9;").replace("\n", "&#10;"))


def xml_untokens(ws, i=0, root=True):
    """model tree tokens -> XML text (a deliberately plain writer, independent of rdflib's)"""
    _e, tag, na, nk, text = ws[i].split(":")
    tag, na, nk, text = dec_str(tag), int(na), int(nk), dec_str(text)
    i += 1
    attrs = []
    for _ in range(na):
        attrs.append((dec_str(ws[i]), dec_str(ws[i + 1])))
        i += 2
    s = "<" + tag + (' xmlns="%s"' % SPARQL_NS if root else "")
    s += "".join(' %s="%s"' % (a, _esc_attr(v)) for a, v in attrs) + ">" + _esc_text(text)
    for _ in range(nk):
        k, i = xml_untokens(ws, i, False)
        s += k
    return s + "</" + tag + ">", i


def table_tokens(t):
    out = [str(len(t))]
    for r in t:
        out += [str(len(r))] + [enc_str(f) for f in r]
    return " ".join(out)


def table_untokens(line):
    ws = line.split(" ")
    n, i, t = int(ws[0]), 1, []
    for _ in range(n):
        m = int(ws[i])
        t.append([dec_str(w) for w in ws[i + 1:i + 1 + m]])
        i += 1 + m
    return t


# ------------------------------------------------------------------ W3C reference TSV writer (mirror of Spec.Tsv.render)

def _is_int(u):
    return u != "" and all(c in "0123456789" for c in u)


def _is_dec(u):
    p = u.split(".")
    return len(p) == 2 and all(c in "0123456789" for c in p[0]) and _is_int(p[1])


def _is_dbl(u):
    k = next((j for j, c in enumerate(u) if c in "eE"), None)
    if k is None:
        return False
    m, e = u[:k], u[k + 1:]
    if e[:1] in ("+", "-"):
        e = e[1:]
    if not _is_int(e):
        return False
    p = m.split(".")
    if len(p) == 1:
        return _is_int(p[0])
    if len(p) == 2:
        return (_is_int(p[0]) and all(c in "0123456789" for c in p[1])) or (p[0] == "" and _is_int(p[1]))
    return False


def short_ok(lex, dt):
    if dt == XSDS + "boolean":
        return lex in ("true", "false")
    if lex.startswith("+"):
        return False
    u = lex[1:] if lex.startswith("-") else lex
    return ((dt == XSDS + "integer" and _is_int(u)) or (dt == XSDS + "decimal" and _is_dec(u))
            or (dt == XSDS + "double" and _is_dbl(u)))


def _uchar(c, lower):
    o = ord(c)
    h = ("\\u%04X" % o) if o < 0x10000 else ("\\U%08X" % o)
    return h[:2] + h[2:].lower() if lower else h


def tsv_quoted(lex, sq, ks):
    """k per character: 0 = raw where the grammar allows, 1 = ECHAR where one exists, 2 / 3 = UCHAR (upper / lower
    case hex) where a numeric escape is safe; the quote itself, backslash, tab, LF, CR always as ECHAR"""
    q = "'" if sq else '"'
    other = '"' if sq else "'"
    out = [q]
    for j, c in enumerate(lex):
        k = ks[j] if j < len(ks) else 0
        if c == q:
            out.append("\\" + q)
        elif c == "\\":
            out.append("\\\\")
        elif c == "\t":
            out.append("\\t")
        elif c == "\n":
            out.append("\\n")
        elif c == "\r":
            out.append("\\r")
        elif k >= 2:
            out.append(_uchar(c, k == 3))
        elif c == "\x08" and k == 1:
            out.append("\\b")
        elif c == "\x0c" and k == 1:
            out.append("\\f")
        elif c == other and k == 1:
            out.append("\\" + other)
        else:
            out.append(c)
    out.append(q)
    return "".join(out)


def tsv_cell(t, ch):
    if t is None:
        return ""
    sq, short, ks = ch
    k = t[0]
    if k == "I":
        return "<" + t[1] + ">"
    if k == "B":
        return "_:" + t[1]
    if k == "P":
        return tsv_quoted(t[1], sq, ks)
    if k == "L":
        return tsv_quoted(t[1], sq, ks) + "@" + t[2]
    if short and short_ok(t[1], t[2]):
        return t[1]
    return tsv_quoted(t[1], sq, ks) + "^^<" + t[2] + ">"


def tsv_render(vars_, rows, chs):
    lines = ["\t".join("?" + v for v in vars_)]
    for r, cr in zip(rows, chs):
        lines.append("\t".join(tsv_cell(t, c) for t, c in zip(r, cr)))
    return "".join(l + "\n" for l in lines)


def enc_choices(chs):
    return " ".join("%d:%d:%s" % (c[0], c[1], ".".join(map(str, c[2])) if c[2] else "-") for cr in chs for c in cr)


# ------------------------------------------------------------------ the implementation under test

def _cmp_tables(tag, case, got_vars, got_rows, extra, viol):
    if got_vars != case["vars"]:
        viol.append(f"{tag}: variables {got_vars!r} instead of {case['vars']!r}")
        return
    if len(got_rows) != len(case["rows"]):
        viol.append(f"{tag}: {len(got_rows)} rows instead of {len(case['rows'])}")
        return
    if extra:
        viol.append(f"{tag}: {extra} bindings for variables that are not in vars")
    for i, (g, w) in enumerate(zip(got_rows, case["rows"])):
        for v, a, b in zip(case["vars"], g, w):
            if a != b:
                viol.append(f"{tag}: row {i} ?{v}: got {a!r}, expected {b!r}")
                return


def run_impl(case):
    obs, viol, xviol = [], [], []
    src = case["src"]
    st = {"via_" + case["via"]: 1, "src_" + src: 1, "kind_" + case["kind"]: 1, "dest_" + case.get("dest", "bytes"): 1}
    res = build_result(case)
    want = "ok " + enc_case_result(case)
    if canon(res) != want:
        viol.append("build: the constructed result is not the case's table: " + canon(res)[:120])
    formats = ["json", "xml"] + (["csv"] if case["kind"] == "select" else [])
    for fmt in formats:
        tag = fmt
        sink = xviol if fmt == "xml" else viol
        try:
            if case.get("dest") == "stream":
                buf = io.BytesIO()
                build_result(case).serialize(destination=buf, format=fmt)
                data = buf.getvalue()
            else:
                data = build_result(case).serialize(format=fmt)
        except Exception as e:  # noqa: BLE001
            sink.append(f"{tag}: serialize raised {type(e).__name__}: {str(e)[:80]}")
            obs += [err_name(e)] * 3
            continue
        try:
            back = Result.parse(open_src(data, src), format=fmt)
            line = canon(back)
        except Exception as e:  # noqa: BLE001
            sink.append(f"{tag}: parse raised {type(e).__name__}: {str(e)[:80]}")
            obs += [err_name(e)] * 3
            continue
        obs += [line] * 3
        if case["kind"] == "ask":
            if back.type != "ASK" or back.askAnswer is not bool(case["value"]):
                sink.append(f"{tag}: boolean {case['value']} came back as {back.type} {back.askAnswer!r}")
            continue
        if back.type != "SELECT":
            sink.append(f"{tag}: result type {back.type}")
            continue
        gv, gr, extra = table_of(back)
        if fmt != "csv":
            n0 = len(sink)
            _cmp_tables(tag, case, gv, gr, extra, sink)
            if len(sink) == n0:
                # the container's own notion of equality and size must agree with the cell-wise oracle
                if not (back == res and res == back):
                    sink.append(f"{tag}: Result.__eq__ says the round-tripped result differs from the original")
                if len(back) != len(case["rows"]):
                    sink.append(f"{tag}: len(result) is {len(back)} for {len(case['rows'])} rows")
        else:
            if gv != case["vars"]:
                sink.append(f"csv: variables {gv!r} instead of {case['vars']!r}")
            elif len(gr) != len(case["rows"]):
                sink.append(f"csv: {len(gr)} rows instead of {len(case['rows'])}")
            else:
                for i, (g, w) in enumerate(zip(gr, case["rows"])):
                    for v, a, b in zip(case["vars"], g, w):
                        sa = "" if a is None else a[1]
                        sb = "" if b is None else b[1]
                        # a blank node has no string value beyond its label; CSV writes it as `_:label`
                        ok = sa in (sb, "_:" + sb) if (b is not None and b[0] == "B") else sa == sb
                        if not ok:
                            sink.append(f"csv: row {i} ?{v}: string value {sa!r} instead of {sb!r}")
                            break
    if case["kind"] == "select":
        for k, chs in enumerate(case["tsv"]):
            text = tsv_render(case["vars"], case["rows"], chs)
            obs.append(enc_str(text))
            try:
                back = Result.parse(open_src(text.encode("utf-8"), src), format="tsv")
                obs.append(canon(back))
                gv, gr, extra = table_of(back)
                _cmp_tables("tsv", case, gv, gr, extra, viol)
            except Exception as e:  # noqa: BLE001
                obs.append(err_name(e))
                viol.append(f"tsv: reader raised {type(e).__name__} on a conformant document (stream {k}): {str(e)[:80]}")
        cells = [t for r in case["rows"] for t in r]
        bound = [t for t in cells if t is not None]
        st.update({"vars_%d" % len(case["vars"]): 1, "rows": len(case["rows"]), "cells_bound": len(bound),
                   "cells_unbound": len(cells) - len(bound),
                   "rows_all_unbound": sum(1 for r in case["rows"] if r and all(t is None for t in r)),
                   "tables_zero_rows": int(not case["rows"]),
                   "tables_trailing_unbound_col": int(bool(case["rows"]) and bool(case["vars"])
                                                      and all(r[-1] is None for r in case["rows"])),
                   "tsv_bare_tokens": sum(1 for chs in case["tsv"] for r, cr in zip(case["rows"], chs)
                                          for t, c in zip(r, cr) if t and t[0] == "T" and c[1] and short_ok(t[1], t[2])),
                   "tsv_single_quoted": sum(1 for chs in case["tsv"] for r, cr in zip(case["rows"], chs)
                                            for t, c in zip(r, cr) if t and t[0] in "PTL" and c[0])})
        for t in bound:
            st["term_" + t[0]] = st.get("term_" + t[0], 0) + 1
            s = t[1]
            for name, pred in (("ctl", lambda c: ord(c) < 32 and c not in "\t\n\r"), ("tab_nl_cr", lambda c: c in "\t\n\r"),
                               ("quote_bs", lambda c: c in "\"'\\"), ("nonbmp", lambda c: ord(c) > 0xFFFF),
                               ("uni_linebreak", lambda c: c in "\x0b\x0c\x1c\x1d\x1e\x85  ")):
                if any(pred(c) for c in s):
                    st["chars_" + name] = st.get("chars_" + name, 0) + 1
        nontrivial = bool(bound) and len(bound) < len(cells)
    else:
        nontrivial = False
    return {"obs": obs, "viol": viol + xviol, "nontrivial": nontrivial,
            "key": json.dumps([case.get("vars"), case.get("rows"), case.get("tsv"), case.get("value")], sort_keys=True),
            "stats": st}


# ------------------------------------------------------------------ the model side

def model_lines(case):
    r = enc_case_result(case)
    lines = []
    direct = build_result(case, "direct")
    # JSON
    lines.append("json-rt " + r)
    try:
        lines.append("json-of " + " ".join(json_tokens(json.loads(direct.serialize(format="json").decode("utf-8")))))
    except Exception as e:  # noqa: BLE001
        lines.append("const " + err_name(e))
    lines.append("json-to " + r)
    # XML
    lines.append("xml-rt " + r)
    try:
        lines.append("xml-of " + " ".join(xml_tokens(ET.fromstring(direct.serialize(format="xml")))))
    except Exception as e:  # noqa: BLE001
        lines.append("const " + err_name(e))
    lines.append("xml-to " + r)
    if case["kind"] == "select":
        lines.append("csv-rt " + r)
        try:
            text = direct.serialize(format="csv").decode("utf-8")
            lines.append("csv-of " + table_tokens(list(csv.reader(io.StringIO(text, newline="")))))
        except Exception as e:  # noqa: BLE001
            lines.append("const " + err_name(e))
        lines.append("csv-to " + r)
        for chs in case["tsv"]:
            lines.append(("tsv-render " + r + " " + enc_choices(chs)).rstrip())
            lines.append("tsv-read " + enc_str(tsv_render(case["vars"], case["rows"], chs)))
    return lines


def select_model_obs(case, out):
    """`*-to` lines carry the model's tree: hand it to rdflib's reader and observe the table it builds"""
    out = list(out)
    src = case["src"]
    try:
        if out[2] != "bad-op":
            obj, _ = json_untokens(out[2].split(" "))
            out[2] = parse_canon(json.dumps(obj, ensure_ascii=False).encode("utf-8"), "json", src)
        if out[5] != "bad-op":
            text, _ = xml_untokens(out[5].split(" "))
            out[5] = parse_canon(('<?xml version="1.0" encoding="utf-8"?>\n' + text).encode("utf-8"), "xml", src)
        if case["kind"] == "select" and not out[8].startswith(("err", "bad-op")):
            buf = io.StringIO(newline="")
            csv.writer(buf).writerows(table_untokens(out[8]))
            out[8] = parse_canon(buf.getvalue().encode("utf-8"), "csv", src)
    except Exception as e:  # noqa: BLE001
        out.append("harness-error in select_model_obs: %r" % (e,))
    return out


# ------------------------------------------------------------------ shrinking and known findings

def _simpler_terms(t, ks):
    """(smaller term, per-character choices that go with it)"""
    if t is None:
        return
    yield None, []
    if t[0] != "P":
        yield ["P", t[1]], ks
    s = t[1]
    if len(s) > 1:
        for j in range(len(s)):
            yield [t[0], s[:j] + s[j + 1:]] + t[2:], ks[:j] + ks[j + 1:]
    if t[0] == "P" and s not in ("a", ""):
        yield ["P", "a"], ks[:1]
    if any(ks):
        for j, k in enumerate(ks):
            if k:
                yield t, ks[:j] + [0] + ks[j + 1:]


def shrink(case):
    if case["kind"] != "select":
        return
    vars_, rows, tsv = case["vars"], case["rows"], case["tsv"]
    if case["via"] != "direct":
        yield {**case, "via": "direct"}
    if case["src"] != "bytes":
        yield {**case, "src": "bytes"}
    if case.get("dest", "bytes") != "bytes":
        yield {**case, "dest": "bytes"}
    for i in range(len(rows)):
        yield {**case, "rows": rows[:i] + rows[i + 1:], "tsv": [c[:i] + c[i + 1:] for c in tsv]}
    for j in range(len(vars_)):
        yield {**case, "vars": vars_[:j] + vars_[j + 1:], "rows": [r[:j] + r[j + 1:] for r in rows],
               "tsv": [[cr[:j] + cr[j + 1:] for cr in c] for c in tsv]}
    if len(tsv) > 1:
        for k in range(len(tsv)):
            yield {**case, "tsv": [tsv[k]]}
    for i, r in enumerate(rows):
        for j, t in enumerate(r):
            ks0 = tsv[0][i][j][2] if tsv else []
            for t2, ks2 in _simpler_terms(t, ks0):
                if t2 is not None and not _stable(t2):
                    continue
                nr = [list(x) for x in rows]
                nr[i][j] = t2
                nt = [[[list(c) for c in cr] for cr in chs] for chs in tsv]
                for k, chs in enumerate(nt):
                    chs[i][j] = [chs[i][j][0], chs[i][j][1], list(ks2) if k == 0 else []]
                yield {**case, "rows": nr, "tsv": nt}
    for k, chs in enumerate(tsv):
        for i, cr in enumerate(chs):
            for j, c in enumerate(cr):
                if c != [0, 0, []]:
                    nt = [[[list(x) for x in cr2] for cr2 in chs2] for chs2 in tsv]
                    nt[k][i][j] = [0, 0, []]
                    yield {**case, "tsv": nt}
    for j, v in enumerate(vars_):
        if v not in ("a", "b", "c", "d") :
            for nv in ("a", "b", "c", "d"):
                if nv not in vars_:
                    yield {**case, "vars": vars_[:j] + [nv] + vars_[j + 1:]}
                    break


def _xml_char(c):
    o = ord(c)
    return c in "\t\n\r" or 0x20 <= o <= 0xD7FF or 0xE000 <= o <= 0xFFFD or 0x10000 <= o <= 0x10FFFF


def _m_xml_char(case, result):
    """XML 1.0 cannot carry the character: rdflib writes it raw, the document is not well-formed.
    Only the xml clause fails, with a parse error, and some string of the table has such a character."""
    if case["kind"] != "select" or not result["viol"]:
        return False
    if not all(v.startswith("xml: parse raised ParseError") for v in result["viol"]):
        return False
    strings = list(case["vars"]) + [x for r in case["rows"] for t in r if t for x in t[1:]]
    return any(not _xml_char(c) for s in strings for c in s)


def _viols(result, prefix):
    return bool(result["viol"]) and all(v.startswith(prefix) for v in result["viol"])


def _strings(case):
    return [t[1] for r in case.get("rows", []) for t in r if t]


# matchers of the *fixed* findings document the shape of each repaired defect (core.py consults
# matchers for `known` entries only; a fixed witness that fails again is always a VIOLATION)
MATCHERS = {
    "xml_non_xml_char": _m_xml_char,
    "tsv_unbound_row_dropped": lambda c, r: _viols(r, "tsv: ") and any(all(t is None for t in row) for row in c["rows"]),
    "xsv_unicode_linebreak": lambda c, r: any(ch in s for s in _strings(c) for ch in "\x0b\x0c\x1c\x1d\x1e\x85\u2028\u2029")
    and all(v.startswith(("csv: ", "tsv: ")) for v in r["viol"]) and bool(r["viol"]),
    "xml_falsy_literal": lambda c, r: _viols(r, "xml: row"),
    "xml_cr_lost": lambda c, r: _viols(r, "xml: row") and any("\r" in s for s in _strings(c)),
    "tsv_negative_decimal": lambda c, r: _viols(r, "tsv: reader raised TypeError"),
    "tsv_zero_vars": lambda c, r: _viols(r, "tsv: reader raised ParseException") and not c["vars"],
    "tsv_string_escapes": lambda c, r: _viols(r, "tsv: reader raised ParseException")
    and any(k for chs in c["tsv"] for cr in chs for cell in cr for k in cell[2]),
}
