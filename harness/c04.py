"""C04 — SPARQL graph patterns evaluate to the solution multiset the algebra defines.  DESIGN §6 C04.

Case = {"ds": dataset, "q": query}  (formats: harness/sparqlgen.py).

Three evaluators meet on every case:
  impl   rdflib: Dataset/Graph.query(text) observed through Result.vars / Result.bindings / askAnswer / graph
  model  Lean `Model.evalQuery` on rdflib's OWN translated algebra tree (prepareQuery(text).algebra, annotations
         `lazy`, `_vars`, `no_isolated_scope` included) — the model of evaluate.py's top-down evaluator
  spec   Lean `Spec.evalQuery (Spec.translate q)` on the generator's syntax tree — SPARQL 1.1 §18 bottom-up
  ref    the plain-Python reference evaluator of sparqlgen (same §18 definitions, independent of Lean)

obs[0] = impl result   vs driver line `model`   (impl ≡ model: the correspondence)
obs[1] = ref result    vs driver line `spec`    (Lean spec ≡ Python reference: a mismatch is a harness bug)
obs[2] = Safe / inFragment, Python mirror vs Lean
obs[3..6] = the same two pairs for the SAME prepared query evaluated again: after the data object was changed in place
         (case["ds2"]) and on another Graph / Dataset object with the same graph names (case["ds3"])
obs[-3] = the `lazy` / `_vars` annotations on rdflib's tree vs the Lean model of `analyse` / `_addVars` (Analysis.lean)
obs[-2] = impl result vs the Lean evaluator on the tree re-annotated by the Lean analysis (`amodel`)
obs[-1] = rdflib's own translated tree vs the Lean model of the translation run on the generator's syntax tree (`translate`)
viol   = impl ≠ ref   (the property itself, decided without Lean; tags reeval-… / other-… for the re-evaluations)
"""
import atexit
import hashlib
import io
import os
import shutil
import tempfile
import warnings

import core  # noqa: F401
import isoutil
import sparqlgen as G

warnings.filterwarnings("ignore")

ID = "C04"
LEAN_TARGETS = ["RV.C04.Props", "RV.C04.Audit"]
AUDIT = "RV/C04/Audit.lean"
DRIVER = "drv_c04"
CASES = {"quick": 1000, "thorough": 40000, "search": 20000}
RULE = ("random SELECT / ASK / CONSTRUCT queries (group nesting depth ≤ 4 quick, ≤ 6 thorough; BGP, joins of groups, "
        "OPTIONAL with and without filter, UNION, MINUS, FILTER with comparison / logical / bound / EXISTS / NOT EXISTS, "
        "BIND, VALUES, sub-SELECT, GRAPH; 4 shared variables) over random datasets (3-12 default-graph triples over ~8 "
        "terms incl. falsy literals and a blank node, 0 or 2-3 named graphs, sometimes default_union); non-trivial = the "
        "algebra gives ≥ 1 solution / true / a non-empty graph AND the pattern has ≥ 2 group elements; distinct = distinct "
        "(query text, dataset)")
ASSUMPTIONS = ["the stores behave as sets of triples per graph (C01/C02); Dataset.graph(name) registers a named graph",
               "queries are well-formed: BIND does not re-bind a variable in scope before it in its group",
               "between literals of different kinds §17 comparisons are type errors; §17.3.1 lets an implementation "
               "return a value: the specification adopts rdflib's (= false, != true, boolean < integer < string)",
               "EXISTS patterns are limited to constructs for which §18.6 `substitute` is unambiguous "
               "(triples, groups, UNION, a top-level FILTER, GRAPH)",
               "initBindings = {} (C15 covers initial bindings): nothing is pushed in at the top of a query, which is what the "
               "hypothesis Alg.safeIn [] of eval_correct_top uses"]
TRUSTED = ["harness/sparqlgen.py (generator, SPARQL printer, s-expression encoders incl. the reader of rdflib's algebra "
           "tree and of its `lazy` / `_vars` annotations, Python reference evaluator)",
           "lean/RV/C04/Drive.lean (s-expression parser, printer)",
           "pyparsing tokenisation of the generated query text (the generator only prints fully parenthesised text)"]


MAX_QUERY_TEXT = 2500
ISO_MAX_MINTED = 12   # isoutil.iso is consulted for CONSTRUCT results with at most this many minted blank nodes
PROBE_SHARE = 0.15  # share of queries from sparqlgen's scoping-probe template (see there)
_GENERATED = []   # query texts made by gen_case in this process (for the bulk algebra prefetch in model_lines)
_ALG = {}         # query text -> s-expression of rdflib's translated algebra
# parsing is the expensive step (pyparsing, ~20 ms a query): the worker processes of run_impl leave the encoded algebra in
# a scratch directory so that model_lines (main process) does not have to parse every query a second time
_SCRATCH = tempfile.mkdtemp(prefix="c04-alg-")
atexit.register(shutil.rmtree, _SCRATCH, True)
_MAIN_PID = os.getpid()


def _scratch_path(text):
    return os.path.join(_SCRATCH, hashlib.sha1(text.encode()).hexdigest())


def gen_case(rng, tier, i):
    named = rng.random() < 0.55
    ds = G.gen_dataset(rng, named=named)
    dmax = 4 if tier == "quick" else 6
    depth = rng.choice([1, 1, 2, 2, 2, 3, 3, dmax])
    q = G.gen_query(rng, ds, depth=depth, probe_share=PROBE_SHARE)
    # very large queries (several kB of text, depth 6) are correct but take rdflib tens of seconds since MINUS right-hand
    # sides and sub-selects are re-evaluated, unpushed, for every outer solution: the per-case watchdog (20 s) would
    # report them as timeouts.  The property is about answers, not speed: keep queries to a size that evaluates quickly.
    while len(G.to_sparql(q)) > MAX_QUERY_TEXT and depth > 1:
        depth -= 1
        q = G.gen_query(rng, ds, depth=depth)
    _GENERATED.append(G.to_sparql(q))
    # the SAME prepared query is evaluated again after the data changed in place (ds2) and on another
    # Graph / Dataset object with the same graph names (ds3)
    case = {"ds": ds, "q": q, "ds2": G.mutate_dataset(rng, ds), "ds3": G.mutate_dataset(rng, ds)}
    case.update(_gen_surface(rng, tier, ds, q))
    # GRAPH streams on a ConjunctiveGraph: its default context is named by a blank node, holds triples of its own, and is
    # listed by contexts() — GRAPH ?g must not range over it.  A ConjunctiveGraph's default graph is the union and it has no
    # graphs without triples, so the data is adjusted to what it can hold (every named graph and the default context
    # non-empty, in all three datasets of the case).
    if ds["named"] and "(graph " in G.sx_query(q) and rng.random() < (0.5 if "(graph ?" in G.sx_query(q) else 0.2):
        for k in ("ds", "ds2", "ds3"):
            d = case[k]
            d["union"] = True
            for j, (name, ts) in enumerate(d["named"]):
                if not ts:
                    d["named"][j] = [name, [[["i", j % 3], ["i", 10 + j % 2], ["i", (j + 1) % 3]]]]
            if not d["default"]:
                d["default"] = [[["i", 0], ["i", 10], ["i", 1]]]
        case["operand"] = "conjunctive"
    return case


# ------------------------------------------------------------------------------------------------- public surface
# (design.d/C04.md "Surface audit"): how the query is handed to rdflib, on what kind of operand, how its IRIs are spelled.
APIS = ["graph.query", "processor-instance", "result-class", "no-store-provided", "processor-direct", "evalQuery-direct",
        "translate-direct"]
SPELLINGS = ["pname-initNs", "pname-bound", "pname-declared", "relative-base", "relative-BASE"]
NS = "http://e/"
NS_ALT = "http://e/1"     # e:N then denotes <http://e/1N>: the same text means another query


def _gen_surface(rng, tier, ds, q):
    share = 0.25 if tier == "quick" else 0.5      # share of cases that leave the default on each axis
    out = {"api": "graph.query", "operand": "default", "spelling": "iri"}
    if rng.random() < share:
        out["api"] = rng.choice(APIS[1:])
    if rng.random() < share:
        out["spelling"] = rng.choice(SPELLINGS)
    if rng.random() < share:
        empty_named = any(not ts for _n, ts in ds["named"])
        if _needs_dataset(ds, q):
            kinds = []
            if ds.get("union") and not empty_named:
                kinds.append("conjunctive")       # ConjunctiveGraph: default graph = union; it has no empty graphs
            kinds.append("dataset-extra-call")    # the Dataset is also queried by an unrelated query first
        else:
            kinds = ["graph-simplememory", "graph-in-dataset", "aggregate", "graph-identified", "graph-in-conjunctive"]
        out["operand"] = rng.choice(kinds)
    return out


def _spell(text, spelling):
    """the same query with its IRIs written another way (the generator prints <http://e/N>)"""
    import re
    if spelling.startswith("pname"):
        body = re.sub(r"<http://e/(\d+)>", r"e:\1", text)
        return ("PREFIX e: <%s> " % NS) + body if spelling == "pname-declared" else body
    if spelling.startswith("relative"):
        body = re.sub(r"<http://e/(\d+)>", r"<\1>", text)
        return ("BASE <%s> " % NS) + body if spelling == "relative-BASE" else body
    return text


def _remap_query(q):
    """the query that the pname-spelled text denotes when e: is bound to NS_ALT (every IRI <http://e/N> becomes <http://e/1N>)"""
    def walk(x):
        if isinstance(x, list):
            if len(x) == 2 and x[0] == "i" and isinstance(x[1], int):
                return ["i", int("1" + str(x[1]))]
            return [walk(y) for y in x]
        if isinstance(x, dict):
            return {k: walk(v) for k, v in x.items()}
        return x
    return walk(q)


def _build_operand(kind, ds, q):
    """-> (the object whose .query is called, fn(old, new) that changes its data in place)"""
    from rdflib import ConjunctiveGraph, Dataset, Graph, URIRef
    from rdflib.graph import ReadOnlyGraphAggregate
    from rdflib.plugins.stores.memory import SimpleMemory
    T3 = lambda t: tuple(G.to_rdflib_term(x) for x in t)  # noqa: E731
    if kind == "conjunctive":
        cg = ConjunctiveGraph()
        for t in ds["default"]:
            cg.default_context.add(T3(t))
        for name, ts in ds["named"]:
            for t in ts:
                cg.get_context(G.to_rdflib_term(name)).add(T3(t))

        def mut(old, new):
            for ctx_, ots, nts in [(cg.default_context, old["default"], new["default"])] + [
                    (cg.get_context(G.to_rdflib_term(n)), o, n2) for (n, o), (_m, n2) in zip(old["named"], new["named"])]:
                for t in {G.T(t) for t in ots} - {G.T(t) for t in nts}:
                    ctx_.remove(T3(t))
                for t in {G.T(t) for t in nts} - {G.T(t) for t in ots}:
                    ctx_.add(T3(t))
        return cg, mut
    if kind == "graph-in-conjunctive":
        cg = ConjunctiveGraph()                      # a context of a ConjunctiveGraph that holds other contexts too
        cg.default_context.add((URIRef(NS + "0"), URIRef(NS + "10"), URIRef(NS + "0")))
        cg.get_context(URIRef(NS + "20")).add((URIRef(NS + "1"), URIRef(NS + "11"), URIRef(NS + "2")))
        g = cg.get_context(URIRef("http://e/779"))
        for t in ds["default"]:
            g.add(T3(t))
        return g, lambda old, new: _mutate_in_place(g, old, new)
    if kind in ("graph-simplememory", "graph-identified", "graph-in-dataset"):
        if kind == "graph-simplememory":
            g = Graph(store=SimpleMemory())
        elif kind == "graph-identified":
            g = Graph(identifier=URIRef("http://e/777"))
        else:
            d = Dataset()
            d.add((URIRef(NS + "0"), URIRef(NS + "10"), URIRef(NS + "0")))          # other graphs of the same store
            d.graph(URIRef(NS + "20")).add((URIRef(NS + "1"), URIRef(NS + "11"), URIRef(NS + "2")))
            g = d.graph(URIRef("http://e/778"))
        for t in ds["default"]:
            g.add(T3(t))
        return g, lambda old, new: _mutate_in_place(g, old, new)
    if kind == "aggregate":
        g1, g2 = Graph(), Graph()

        def fill(dsx):
            ts = dsx["default"]
            for k, t in enumerate(ts):
                (g1 if k % 2 == 0 else g2).add(T3(t))
                if k % 3 == 0:
                    (g2 if k % 2 == 0 else g1).add(T3(t))       # overlap: the union holds it once
        fill(ds)
        agg = ReadOnlyGraphAggregate([g1, g2])

        def mut(old, new):
            g1.remove((None, None, None)); g2.remove((None, None, None)); fill(new)
        return agg, mut
    g = G.to_rdflib_dataset(ds) if _needs_dataset(ds, q) else G.to_rdflib_graph(ds)
    return g, lambda old, new: _mutate_in_place(g, old, new)


_PROC = {}


def _parse_input_kind(text):
    """parseQuery takes str | bytes | a text stream: which one a text is handed over as (direct entry points only)"""
    return ("str", "bytes", "stream")[(len(text) // 2) % 3]


def _call(api, target, query, kw):
    """hand the query (text or prepared Query) to rdflib through one of the public entry points"""
    from rdflib.plugins.sparql.processor import SPARQLProcessor, SPARQLResult

    def proc():      # ONE processor object per graph object, used for every call of the case's history on that graph
        if id(target) not in _PROC or _PROC[id(target)][0] is not target:
            _PROC.clear()
            _PROC[id(target)] = (target, SPARQLProcessor(target))
        return _PROC[id(target)][1]
    if api == "processor-instance":
        return target.query(query, processor=proc(), **kw)
    if api == "result-class":
        return target.query(query, result=SPARQLResult, **kw)
    if api == "no-store-provided":
        return target.query(query, use_store_provided=False, **kw)
    if api in ("processor-direct", "evalQuery-direct", "translate-direct"):
        ns = kw.get("initNs") or dict(target.namespaces())
        if api == "processor-direct":
            return SPARQLResult(proc().query(query, {}, ns, **({"base": kw["base"]} if "base" in kw else {})))
        from rdflib.plugins.sparql.algebra import translateQuery
        from rdflib.plugins.sparql.evaluate import evalQuery
        from rdflib.plugins.sparql.parser import parseQuery
        if isinstance(query, str):
            src = {"str": query, "bytes": query.encode("utf-8"), "stream": io.StringIO(query)}[_parse_input_kind(query)]
            query = translateQuery(parseQuery(src), kw.get("base"), ns)
        return SPARQLResult(evalQuery(target, query, {}, kw.get("base"))) if api == "evalQuery-direct" else target.query(query)
    return target.query(query, **kw)


def _safe_line(alg_sx):
    """mirror of the driver's `safe` answer, from sparqlgen's Python copy of RV/C04/Safe.lean"""
    try:
        pat = G.query_pattern(G.parse_sx(alg_sx))
        return (f"safe={0 if G.alg_problems(pat) else 1} frag={1 if G.alg_in_fragment(pat) else 0} "
                f"top={0 if G.alg_problems_in(pat, []) else 1}")
    except Exception as e:
        return f"safe-error {type(e).__name__}"


def _canon(res, star):
    if "vars" in res and star:
        res = {**res, "vars": sorted(res["vars"])}
    return G.canon_result(res)


def _needs_dataset(ds, q):
    return bool(ds["named"] or ds.get("union") or "(graph " in G.sx_query(q))


def _mutate_in_place(g, old, new):
    """change the rdflib Graph / Dataset `g` (holding `old`) so that it holds `new`; same objects, same graph names"""
    def diff(graph, ots, nts):
        o = {G.T(t) for t in ots}
        n = {G.T(t) for t in nts}
        for t in o - n:
            graph.remove(tuple(G.to_rdflib_term(x) for x in t))
        for t in n - o:
            graph.add(tuple(G.to_rdflib_term(x) for x in t))
    if hasattr(g, "default_context"):
        diff(g.default_context, old["default"], new["default"])
        for (name, ots), (_n, nts) in zip(old["named"], new["named"]):
            diff(g.graph(G.to_rdflib_term(name)), ots, nts)
    else:
        diff(g, old["default"], new["default"])


def _as_rdflib_triples(ts):
    from rdflib import BNode
    def conv(x):
        return BNode("m%s_%s" % (x[1], x[2])) if x[0] == "fb" else G.to_rdflib_term(x)
    return {tuple(conv(x) for x in t) for t in ts}


def _judge(q, got, ref, impl_line, ref_line, star, tag0=""):
    viol = []
    if "error" in got:
        viol.append(f"{tag0}raises: rdflib raised {got['error']} on a well-formed query; algebra gives {ref_line[:120]}")
    elif q["form"] == "select":
        if G.canon_bag(got["bag"]) != G.canon_bag(ref["bag"]):
            viol.append(f"{tag0}bag: rdflib returned {{{G.canon_bag(got['bag'])[:200]}}} but the algebra gives "
                        f"{{{G.canon_bag(ref['bag'])[:200]}}} for {G.to_sparql(q)[:300]}")
        elif not star and got["vars"] != ref["vars"]:
            viol.append(f"{tag0}vars: Result.vars {got['vars']} differ from the projection {ref['vars']}")
        elif star and not set(ref["vars"]) <= set(got["vars"]):
            viol.append(f"{tag0}vars: SELECT * misses in-scope variables: {got['vars']} vs {ref['vars']}")
    elif q["form"] == "construct":
        # CONSTRUCT: equality up to a renaming of the minted blank nodes.  The canonical text of sparqlgen.canon_graph is
        # exact for template-shaped graphs; harness/isoutil.py (the independent decision procedure) is asked as well
        # whenever the graphs are small enough for its backtracking (many interchangeable minted nodes make it explode).
        same = impl_line == ref_line
        minted = {x for g_ in (got["graph"], ref["graph"]) for t_ in g_ for x in t_ if x[0] == "fb"}
        if len(minted) <= ISO_MAX_MINTED:
            if isoutil.iso(_as_rdflib_triples(got["graph"]), _as_rdflib_triples(ref["graph"])) != same:
                viol.append(f"{tag0}harness: canonical graph text and isoutil.iso disagree ({impl_line[:120]} / "
                            f"{ref_line[:120]})")
        if not same:
            viol.append(f"{tag0}construct: rdflib gives {impl_line[:200]} but the algebra gives {ref_line[:200]} for "
                        f"{G.to_sparql(q)[:300]}")
    elif impl_line != ref_line:
        tag = "ask" if q["form"] == "ask" else "construct"
        viol.append(f"{tag0}{tag}: rdflib gives {impl_line[:200]} but the algebra gives {ref_line[:200]} for "
                    f"{G.to_sparql(q)[:300]}")
    return viol


def run_impl(case):
    ds, q = case["ds"], case["q"]
    star = q["form"] == "select" and q["proj"] is None
    st = dict(G.stats_of(q))
    text = G.to_sparql(q)
    rounds = [("", ds)] + ([("reeval-", case["ds2"]), ("other-", case["ds3"])] if "ds2" in case and "ds3" in case else [])
    api, kind, spelling = case.get("api", "graph.query"), case.get("operand", "default"), case.get("spelling", "iri")
    if kind == "aggregate" and spelling == "pname-bound":
        spelling = "pname-initNs"              # a ReadOnlyGraphAggregate cannot bind prefixes
    st["api_" + api] = 1
    st["operand_" + kind] = 1
    st["spelling_" + spelling] = 1
    st["data_dataset" if _needs_dataset(ds, q) else "data_plain_graph"] = 1
    if ds.get("union"):
        st["data_default_union"] = 1
    if any(not ts for _n, ts in ds["named"]):
        st["data_empty_named_graph"] = 1
    text_s = _spell(text, spelling)
    kw = {}
    if spelling == "pname-initNs":
        kw["initNs"] = {"e": NS}
    elif spelling == "relative-base":
        kw["base"] = NS
    obs_pairs, viol = [], []
    pq = g = mut = None
    nonempty = False
    use_text = (len(text) % 4 == 0) if api == "graph.query" else (len(text) % 2 == 0)
    for k, (tag0, dsk) in enumerate(rounds):
        ref = G.eval_query(dsk, q, st if k == 0 else None)
        ref_line = _canon(ref, star)
        try:
            if k == 0:
                from rdflib.plugins.sparql import prepareQuery
                g, mut = _build_operand(kind, ds, q)
                if spelling == "pname-bound":
                    g.bind("e", NS)
                pq = prepareQuery(text_s, **({"initNs": {"e": NS}} if spelling in ("pname-initNs", "pname-bound") else {}),
                                  **({"base": NS} if spelling == "relative-base" else {}))
                if text not in _ALG:
                    try:
                        _ALG[text] = G.encode_rdflib_algebra(pq.algebra)   # before evaluation (Expr.eval touches the tree)
                    except Exception as e:
                        _ALG[text] = f"(unencodable {type(e).__name__})"
                    if os.getpid() != _MAIN_PID:
                        with open(_scratch_path(text), "w") as f:
                            f.write(_ALG[text])
                if kind == "dataset-extra-call":
                    g.query("SELECT * { ?s ?p ?o }").bindings      # an unrelated query on the same object first
                # the two ways users run a query: a prepared Query object, or the text (parsed again by the processor)
                if use_text:
                    got = G.read_rdflib_result(_call(api, g, text_s, kw))
                    st["api_text"] = 1
                    if api in ("evalQuery-direct", "translate-direct"):
                        st["parse_input_" + _parse_input_kind(text_s)] = 1
                    if len(rounds) > 1:
                        G.read_rdflib_result(_call(api, g, pq, {}))   # first use of the prepared object
                else:
                    got = G.read_rdflib_result(_call(api, g, pq, {}))
                    st["api_prepared"] = 1
            elif k == 1:
                mut(ds, dsk)                            # same Graph / Dataset object, data changed in place
                got = G.read_rdflib_result(_call(api, g, pq, {}))
                st["reeval_same_object"] = 1
            else:
                g3, _m3 = _build_operand(kind, dsk, q)
                got = G.read_rdflib_result(_call(api, g3, pq, {}))    # another object with the same identifiers
                st["reeval_other_object"] = 1
            impl_line = _canon(got, star)
        except core.CaseTimeout:
            raise
        except Exception as e:  # the fragment never raises in the specification
            got, impl_line = {"error": type(e).__name__}, "error " + type(e).__name__
        viol += _judge(q, got, ref, impl_line, ref_line, star, tag0)
        obs_pairs.append((impl_line, ref_line))
        if k == 0:
            got0, ref0 = got, ref
            nonempty = bool(ref.get("bag")) or bool(ref.get("ask")) or bool(ref.get("graph"))
    # the same TEXT again with the prefix e: meaning another namespace, then with the first one again: three calls with
    # one query string on one object, the keyword (or the graph's binding) varied in between
    if spelling in ("pname-initNs", "pname-bound") and g is not None and "error" not in got0:
        cur = rounds[1][1] if len(rounds) > 1 else ds
        for step, (ns, qq) in enumerate([(NS_ALT, _remap_query(q)), (NS, q)]):
            ref = G.eval_query(cur, qq)
            try:
                if spelling == "pname-bound":
                    g.bind("e", ns, override=True, replace=True)
                    got = G.read_rdflib_result(_call(api, g, text_s, {}))
                else:
                    got = G.read_rdflib_result(_call(api, g, text_s, {"initNs": {"e": ns}}))
                impl_line = _canon(got, star)
            except core.CaseTimeout:
                raise
            except Exception as e:
                got, impl_line = {"error": type(e).__name__}, "error " + type(e).__name__
            viol += _judge(qq, got, ref, impl_line, _canon(ref, star), star, "prefix%d-" % step)
            st["history_same_text_other_prefix"] = 1
    st["nonempty"] = int(nonempty)
    st["queries"] = 1
    alg = _algebra_text(text)
    safe_line = _safe_line(alg)
    try:
        pat = G.query_pattern(G.parse_sx(alg))
        # round g: the hypothesis of the theorems is the context-sensitive `Alg.safeIn [] ` (`safe_top`); the context-free
        # `Alg.safe` of the earlier rounds implies it (theorem safeIn_of_safe) and is still counted (`safe`)
        probs_free = G.alg_problems(pat)
        probs = G.alg_problems_in(pat, [])
        st["safe"] = int(not probs_free)
        st["safe_top"] = int(not probs)
        if probs and not probs_free:
            viol.append("harness: Alg.safe holds but Alg.safeIn [] does not (contradicts theorem safeIn_of_safe)")
        st["in_proved_fragment"] = int(G.alg_in_fragment(pat))
        st["safe_and_in_proved_fragment"] = int(not probs and G.alg_in_fragment(pat))
        for k in probs:
            st["unsafe_" + k] = 1
        for k in probs_free:
            st["unsafe_ctxfree_" + k] = 1
        if G.annotation_mismatches(pat):
            st["annotations_not_as_addVars"] = 1
        if viol and not probs:
            viol = ["safe-" + v for v in viol]     # a failure on a query the theorems' hypothesis `Safe` covers
    except Exception:
        st["algebra_unencodable"] = 1
    if star and "vars" in got0 and set(got0["vars"]) != set(ref0["vars"]):
        st["select_star_extra_header_vars"] = 1
    # SELECT *: rdflib's header also lists variables that occur only in FILTER / MINUS (never bound).  obs[0] compares
    # the header rdflib reports with the model's (PV of rdflib's tree); the property (a multiset of bindings) only needs
    # the in-scope variables to be present.
    n_elts = len(q["where"][1])
    obs = [obs_pairs[0][0], obs_pairs[0][1], safe_line] + [x for pr in obs_pairs[1:] for x in pr]
    # round g: the annotations `analyse` / `_addVars` left on rdflib's tree vs the Lean model of the two passes run on the
    # same tree; and rdflib's answer vs the Lean evaluator on the tree as the Lean analysis annotates it
    try:
        annot = G.annot_line(G.query_pattern(G.parse_sx(alg)))
    except Exception as e:
        annot = f"annot-error {type(e).__name__}"
    obs += [annot, obs_pairs[0][0]]
    # rdflib's own translated tree (translateGroupGraphPattern, simplify, analyse, _addVars) vs the Lean model of the
    # translation (Translate.lean) run on the generator's syntax tree
    try:
        obs.append(G.canon_tree_text(G.parse_sx(alg)))
    except Exception as e:
        obs.append(f"tree-error {type(e).__name__}")
    st["annotated_nodes"] = max(0, len(annot.split(" ")) - 1)
    st["lazy_joins"] = annot.count("J1")
    st["strict_joins"] = annot.count("J0")
    return {"obs": obs, "viol": viol,
            "nontrivial": nonempty and (n_elts >= 2 or any(x[0] != "tri" for x in q["where"][1])),
            "key": text + "|" + G.sx_dataset(ds), "stats": st}


def _algebra_text(text):
    if text not in _ALG and os.path.exists(_scratch_path(text)):
        _ALG[text] = open(_scratch_path(text)).read()
    if text not in _ALG:
        try:
            from rdflib.plugins.sparql import prepareQuery
            _ALG[text] = G.encode_rdflib_algebra(prepareQuery(text).algebra)
        except Exception as e:
            _ALG[text] = f"(unencodable {type(e).__name__})"
    return _ALG[text]


def _prefetch():
    """translate all generated queries once, in parallel (prepareQuery costs ~10 ms each)"""
    todo = [t for t in dict.fromkeys(_GENERATED) if t not in _ALG and not os.path.exists(_scratch_path(t))]
    del _GENERATED[:]
    if len(todo) < 64:
        return
    import multiprocessing as mp
    with mp.get_context("fork").Pool(min(16, os.cpu_count() or 4)) as pool:
        for t, a in zip(todo, pool.map(_algebra_text, todo, chunksize=32)):
            _ALG[t] = a


def model_lines(case):
    ds, q = case["ds"], case["q"]
    if _GENERATED:
        _prefetch()
    n = G.nvars(q)
    alg = _algebra_text(G.to_sparql(q))
    lines = ["ds " + G.sx_dataset(ds), f"model {n} {alg}", f"spec {n} {G.sx_query(q)}", f"safe {alg}", f"annot {alg}",
             f"amodel {n} {alg}", f"translate {G.sx_query(q)}"]
    if "ds2" in case and "ds3" in case:
        for k in ("ds2", "ds3"):
            lines += ["ds " + G.sx_dataset(case[k]), f"model {n} {alg}", f"spec {n} {G.sx_query(q)}"]
    return lines


def _parse_term(c):
    k, r = c[0], c[1:]
    if k == "i":
        return ("i", int(r))
    if k == "b":
        return ("b", int(r))
    if k == "n":
        return ("n", int(r))
    if k == "s":
        return ("s", "".join(chr(int(x)) for x in r.split(".")) if r else "")
    if k == "t":
        return ("t", r == "1")
    if k == "f":
        a, b = r.split(".")
        return ("fb", int(a), int(b))
    raise ValueError(c)


def _recanon(line, star):
    """driver answer -> the canonical text run_impl uses (sorted header for SELECT *, minted blank nodes renamed)"""
    if line.startswith("vars "):
        head, _, rows = line[5:].partition(" rows")
        vs = [int(x) for x in head.split(",") if x]
        if star:
            vs = sorted(vs)
        return "vars " + ",".join(map(str, vs)) + " rows" + rows
    if line.startswith("graph "):
        body = line[6:]
        ts = [tuple(_parse_term(c) for c in t.split(" ")) for t in body.split(" | ")] if body else []
        return "graph " + G.canon_graph(ts)
    return line


def select_model_obs(case, out):
    q = case["q"]
    star = q["form"] == "select" and q["proj"] is None
    # out: 0 ds, 1 model, 2 spec, 3 safe, 4 annot, 5 amodel, 6 translate [, 7 ds2, 8 model, 9 spec, 10 ds3, 11 model, 12 spec]
    sel = [_recanon(out[1], star), _recanon(out[2], star), out[3]]
    if len(out) >= 13:
        sel += [_recanon(out[8], star), _recanon(out[9], star), _recanon(out[11], star), _recanon(out[12], star)]
    sel += [out[4], _recanon(out[5], star), out[6]]
    return sel


def shrink(case):
    if "ds2" in case:
        yield {k: v for k, v in case.items() if k not in ("ds2", "ds3")}
    for q in G.shrink_query(case["q"]):
        yield {**case, "q": q}
    if "ds2" not in case:
        for ds in G.shrink_dataset(case["ds"]):
            yield {**case, "ds": ds}
    else:
        # keep the three datasets over the same graph names: shrink triples only
        for k in ("ds", "ds2", "ds3"):
            for ds in G.shrink_dataset(case[k]):
                if [n for n, _ in ds["named"]] == [n for n, _ in case[k]["named"]] and ds.get("union") == case[k].get("union"):
                    yield {**case, k: ds}


def _kind_matcher(kind):
    def m(case, result):
        """known finding of class `kind` (see RV/C04/Safe.lean): the query has a node whose `_vars` annotation is inexact
        in that way, the property's oracle fails, AND rdflib's answer is exactly what the defect-carrying model predicts"""
        if not result.get("viol") or any(v.startswith("safe-") or v.startswith("raises") for v in result["viol"]):
            return False
        alg = _algebra_text(G.to_sparql(case["q"]))
        probs = G.alg_problems_in(G.query_pattern(G.parse_sx(alg)), [])
        if not (set(kind) & probs):
            return False
        # the annotations must be exactly what the CURRENT `_addVars` computes: a change of `_addVars` is a new defect
        if G.annotation_mismatches(G.query_pattern(G.parse_sx(alg))):
            return False
        # every evaluation (also the re-evaluations of the prepared query) must give exactly what the model predicts
        out = core.run_driver(__import__("c04"), model_lines(case))
        sel = select_model_obs(case, out)
        return all(sel[i] == result["obs"][i] for i in (0, 3, 5) if i < len(sel))
    return m


# K3 ("listed in `_vars` but never bound by the sub-pattern"): the FILTER-expression case was repaired on main (C04-F14);
# what is left of it (un-projected sub-select variables, variables of a nested OPTIONAL's condition) is the same defect
# as K1 — `_vars` is not the set of variables the solution at hand binds — and is matched with it.
MATCHERS = {"vars_may_not_must": _kind_matcher({"K1", "K3"}), "vars_values_missing": _kind_matcher({"K2"}),
            # C04-K4: EXISTS patterns outside `Alg.existsOK` (nested-group filter / OPTIONAL condition on an outer variable)
            "exists_not_substitution": _kind_matcher({"exists-unsupported"})}
