"""C04 — SPARQL graph patterns evaluate to the solution multiset the algebra defines.  DESIGN §6 C04.

Case = {"ds": dataset, "q": query}  (formats: harness/sparqlgen.py).

Three evaluators meet on every case:
  impl   rdflib: Dataset/Graph.query(text) observed through Result.vars / Result.bindings / askAnswer / graph
  model  Lean `Model.evalQuery` on rdflib's OWN translated algebra tree (prepareQuery(text).algebra, annotations
         `lazy`, `_vars`, `no_isolated_scope` included) — the model of evaluate.py's top-down evaluator
  spec   Lean `Spec.evalQuery (Spec.translate q)` on the generator's syntax tree — SPARQL 1.1 §18 bottom-up
  ref    the plain-Python reference evaluator of sparqlgen (same §18 definitions, independent of Lean)

obs[0] = impl result   vs driver line `model`   (impl ≡ model: the correspondence)
obs[1] = ref result    vs driver line `spec`    (Lean spec ≡ Python reference: a mismatch is a harness bug)
viol   = impl ≠ ref   (the property itself, decided without Lean)
"""
import warnings

import core  # noqa: F401
import sparqlgen as G

warnings.filterwarnings("ignore")

ID = "C04"
LEAN_TARGETS = ["RV.C04.Props", "RV.C04.Audit"]
AUDIT = "RV/C04/Audit.lean"
DRIVER = "drv_c04"
CASES = {"quick": 1500, "thorough": 40000, "search": 20000}
RULE = ("random SELECT / ASK / CONSTRUCT queries (group nesting depth ≤ 4 quick, ≤ 6 thorough; BGP, joins of groups, "
        "OPTIONAL with and without filter, UNION, MINUS, FILTER with comparison / logical / bound / EXISTS / NOT EXISTS, "
        "BIND, VALUES, sub-SELECT, GRAPH; 4 shared variables) over random datasets (3-12 default-graph triples over ~8 "
        "terms incl. falsy literals and a blank node, 0 or 2-3 named graphs, sometimes default_union); non-trivial = the "
        "algebra gives ≥ 1 solution / true / a non-empty graph AND the pattern has ≥ 2 group elements; distinct = distinct "
        "(query text, dataset)")
ASSUMPTIONS = ["the stores behave as sets of triples per graph (C01/C02); Dataset.graph(name) registers a named graph",
               "queries are well-formed: BIND does not re-bind a variable in scope before it in its group",
               "between literals of different kinds §17 comparisons are type errors; §17.3.1 lets an implementation "
               "return a value: the specification adopts rdflib's (= false, != true, boolean < integer < string)",
               "EXISTS patterns are limited to constructs for which §18.6 `substitute` is unambiguous "
               "(triples, groups, UNION, OPTIONAL, FILTER, GRAPH)",
               "initBindings = {} (C15 covers initial bindings)"]
TRUSTED = ["harness/sparqlgen.py (generator, SPARQL printer, s-expression encoders incl. the reader of rdflib's algebra "
           "tree, Python reference evaluator)", "lean/RV/C04/Drive.lean (s-expression parser, printer)",
           "pyparsing tokenisation of the generated query text (the generator only prints fully parenthesised text)"]


def gen_case(rng, tier, i):
    named = rng.random() < 0.55
    ds = G.gen_dataset(rng, named=named)
    dmax = 4 if tier == "quick" else 6
    depth = rng.choice([1, 1, 2, 2, 2, 3, 3, dmax])
    q = G.gen_query(rng, ds, depth=depth)
    return {"ds": ds, "q": q}


def _canon(res, star):
    if "vars" in res and star:
        res = {**res, "vars": sorted(res["vars"])}
    return G.canon_result(res)


def run_impl(case):
    ds, q = case["ds"], case["q"]
    star = q["form"] == "select" and q["proj"] is None
    st = dict(G.stats_of(q))
    ref = G.eval_query(ds, q, st)
    ref_line = _canon(ref, star)
    try:
        got = G.run_rdflib(ds, q)
        impl_line = _canon(got, star)
    except Exception as e:  # the fragment never raises in the specification
        got, impl_line = {"error": type(e).__name__}, "error " + type(e).__name__
    viol = []
    if "error" in got:
        viol.append(f"raises: rdflib raised {got['error']} on a well-formed query; algebra gives {ref_line[:120]}")
    elif q["form"] == "select":
        if G.canon_bag(got["bag"]) != G.canon_bag(ref["bag"]):
            viol.append(f"bag: rdflib returned {{{G.canon_bag(got['bag'])[:200]}}} but the algebra gives "
                        f"{{{G.canon_bag(ref['bag'])[:200]}}} for {G.to_sparql(q)[:300]}")
        elif not star and got["vars"] != ref["vars"]:
            viol.append(f"vars: Result.vars {got['vars']} differ from the projection {ref['vars']}")
        elif star and not set(ref["vars"]) <= set(got["vars"]):
            viol.append(f"vars: SELECT * misses in-scope variables: {got['vars']} vs {ref['vars']}")
    elif impl_line != ref_line:
        tag = "ask" if q["form"] == "ask" else "construct"
        viol.append(f"{tag}: rdflib gives {impl_line[:200]} but the algebra gives {ref_line[:200]} for "
                    f"{G.to_sparql(q)[:300]}")
    nonempty = bool(ref.get("bag")) or bool(ref.get("ask")) or bool(ref.get("graph"))
    st["nonempty"] = int(nonempty)
    st["queries"] = 1
    if star and "vars" in got and set(got["vars"]) != set(ref["vars"]):
        st["select_star_extra_header_vars"] = 1
    # SELECT *: rdflib's header also lists variables that occur only in FILTER / MINUS (never bound).  obs[0] compares
    # the header rdflib reports with the model's (PV of rdflib's tree); the property (a multiset of bindings) only needs
    # the in-scope variables to be present.
    n_elts = len(q["where"][1])
    return {"obs": [impl_line, ref_line], "viol": viol,
            "nontrivial": nonempty and (n_elts >= 2 or any(x[0] != "tri" for x in q["where"][1])),
            "key": G.to_sparql(q) + "|" + G.sx_dataset(ds), "stats": st}


def _algebra_sx(q):
    from rdflib.plugins.sparql import prepareQuery
    return G.encode_rdflib_algebra(prepareQuery(G.to_sparql(q)).algebra)


def model_lines(case):
    ds, q = case["ds"], case["q"]
    n = G.nvars(q)
    try:
        alg = _algebra_sx(q)
    except Exception as e:
        alg = f"(unencodable {type(e).__name__})"
    return ["ds " + G.sx_dataset(ds), f"model {n} {alg}", f"spec {n} {G.sx_query(q)}"]


def _parse_term(c):
    k, r = c[0], c[1:]
    if k == "i":
        return ("i", int(r))
    if k == "b":
        return ("b", int(r))
    if k == "n":
        return ("n", int(r))
    if k == "s":
        return ("s", "".join(chr(int(x)) for x in r.split(".")) if r else "")
    if k == "t":
        return ("t", r == "1")
    if k == "f":
        a, b = r.split(".")
        return ("fb", int(a), int(b))
    raise ValueError(c)


def _recanon(line, star):
    """driver answer -> the canonical text run_impl uses (sorted header for SELECT *, minted blank nodes renamed)"""
    if line.startswith("vars "):
        head, _, rows = line[5:].partition(" rows")
        vs = [int(x) for x in head.split(",") if x]
        if star:
            vs = sorted(vs)
        return "vars " + ",".join(map(str, vs)) + " rows" + rows
    if line.startswith("graph "):
        body = line[6:]
        ts = [tuple(_parse_term(c) for c in t.split(" ")) for t in body.split(" | ")] if body else []
        return "graph " + G.canon_graph(ts)
    return line


def select_model_obs(case, out):
    q = case["q"]
    star = q["form"] == "select" and q["proj"] is None
    return [_recanon(out[1], star), _recanon(out[2], star)]


def shrink(case):
    for q in G.shrink_query(case["q"]):
        yield {**case, "q": q}
    for ds in G.shrink_dataset(case["ds"]):
        yield {**case, "ds": ds}


MATCHERS = {}
